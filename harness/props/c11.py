"""C11 — genetic maps (Standard/Extended), Haldane/Kosambi map functions, interp_xoprob."""
import contextlib
import math
from fractions import Fraction

import numpy

from .. import canon, compat
from ..core import Prop

compat.install()

_M = {}


def _mods():
    if not _M:
        compat.import_pybrops()
        import pybrops.popgen.gmap.StandardGeneticMap as sgm
        import pybrops.popgen.gmap.ExtendedGeneticMap as egm
        import pybrops.popgen.gmap.HaldaneMapFunction as hmf
        import pybrops.popgen.gmap.KosambiMapFunction as kmf
        import pybrops.popgen.gmap.DenseGeneticMappableMatrix as dgmm
        import pybrops.popgen.gmat.DensePhasedGenotypeMatrix as dpgm
        import pybrops.popgen.gmat.DenseGenotypeMatrix as dgm
        _M.update(sgm=sgm, egm=egm, hmf=hmf, kmf=kmf, dgmm=dgmm, dpgm=dpgm, dgm=dgm)
    return _M


def _f(x):
    """case scalar (int, "n/d", "inf", "nan") -> python float"""
    if isinstance(x, str):
        if x == "inf":
            return math.inf
        if x == "-inf":
            return -math.inf
        if x == "nan":
            return math.nan
    return float(Fraction(x))


def _mapfn(name):
    m = _mods()
    return m["hmf"].HaldaneMapFunction() if name == "haldane" else m["kmf"].KosambiMapFunction()


def _strided(a):
    """the same values as a non-contiguous view (every second cell of a larger buffer)"""
    buf = numpy.empty(2 * len(a) + 1, dtype=a.dtype)
    buf[1::2][:len(a)] = a
    buf[0::2] = a[0] if len(a) else 0
    v = buf[1::2][:len(a)]
    assert len(a) < 2 or not v.flags["C_CONTIGUOUS"]
    return v


def _build_map(cls, rows, auto_group=True, opts=None):
    """rows: [[chr, phy, gen, tag]] -> map object of the requested class.
    opts: chr_dt / phy_dt (integer dtypes of the label / position arrays), strided (non-contiguous input arrays),
    names_none (extended map without vrnt_name / vrnt_fncode), no_spline (auto_build_spline=False),
    via = ctor | pandas | pandas_cM (factory from_pandas, genetic positions in Morgans / centiMorgans) | pandas_ix
    (columns by integer position, arbitrary row labels) | csv (from_csv) | egmap (ExtendedGeneticMap.from_egmap),
    units = spelling of vrnt_genpos_units (M, Morgans, cM, centiMorgans)"""
    m = _mods()
    o = opts or {}
    chr_ = numpy.array([r[0] for r in rows], dtype=o.get("chr_dt", "int64"))
    phy = numpy.array([int(Fraction(r[1])) for r in rows], dtype=o.get("phy_dt", "int64"))
    gen = numpy.array([_f(r[2]) for r in rows], dtype=float)
    tags = [r[3] for r in rows]
    stop = numpy.array([int(Fraction(r[1])) + 7 + t for r, t in zip(rows, tags)], dtype=int)
    name = None if o.get("names_none") else numpy.array([f"m{t}" for t in tags], dtype=object)
    fncode = None if o.get("names_none") else numpy.array([f"f{t}" for t in tags], dtype=object)
    if o.get("strided"):
        chr_, phy, gen, stop = _strided(chr_), _strided(phy), _strided(gen), _strided(stop)
    kw = {"auto_group": auto_group}
    if o.get("no_spline"):
        kw["auto_build_spline"] = False
    via = o.get("via", "ctor")
    units = o.get("units")          # spelling of the unit argument: M / Morgans / cM / centiMorgans
    if via in ("pandas", "pandas_cM", "pandas_ix", "csv", "egmap"):
        import io
        import pandas
        cm = via == "pandas_cM" or (units in ("cM", "centiMorgans") and via != "egmap")
        cols = {"chr": chr_, "pos": phy, "cM": gen * 100.0 if cm else gen}
        kw["vrnt_genpos_units"] = units or ("cM" if cm else "M")
        if cls == "ext":
            cols = {"chr": chr_, "pos": phy, "stop": stop, "cM": gen * 100.0 if cm else gen}
            if name is not None:
                cols["name"], cols["fncode"] = name, fncode
                kw["vrnt_name_col"], kw["vrnt_fncode_col"] = "name", "fncode"
        df = pandas.DataFrame(cols)
        klass = m["egm"].ExtendedGeneticMap if cls == "ext" else m["sgm"].StandardGeneticMap
        if via == "pandas_ix":
            # columns addressed by INTEGER position (an unrelated column in front), row labels that are not 0..n-1
            df.insert(0, "junk", numpy.arange(len(df))[::-1] * 3 + 1)
            df.index = [(7 * i + 3) % max(1, len(df)) + 100 * (i % 2) for i in range(len(df))]
            names = list(df.columns)
            for key, col in (("vrnt_chrgrp_col", "chr"), ("vrnt_phypos_col", "pos"), ("vrnt_stop_col", "stop"),
                             ("vrnt_genpos_col", "cM"), ("vrnt_name_col", "name"), ("vrnt_fncode_col", "fncode")):
                if col in names:
                    kw[key] = names.index(col)
            return klass.from_pandas(df, **kw)
        if via == "csv":
            # the documented file layout, read through from_csv (file-like object; exact decimal text of the doubles)
            txt = df.to_csv(index=False, float_format="%.17g", sep=";")
            return klass.from_csv(io.StringIO(txt), sep=";", **kw)
        if via == "egmap":
            # .egmap: tab separated, fixed column order, optional mkr_name / map_fncode columns, Morgans
            ren = {"chr": "chr_grp", "pos": "chr_start", "stop": "chr_stop", "cM": "map_pos", "name": "mkr_name",
                   "fncode": "map_fncode"}
            txt = df.rename(columns=ren).to_csv(index=False, float_format="%.17g", sep="\t")
            kw2 = {kk: vv for kk, vv in kw.items() if kk in ("auto_group", "auto_build_spline")}
            return klass.from_egmap(io.StringIO(txt), **kw2)
        return klass.from_pandas(df, **kw)
    if units:
        gen = gen * 100.0 if units in ("cM", "centiMorgans") else gen
        kw["vrnt_genpos_units"] = units
    if cls == "std":
        return m["sgm"].StandardGeneticMap(chr_, phy, gen, **kw)
    return m["egm"].ExtendedGeneticMap(chr_, phy, stop, gen, vrnt_name=name, vrnt_fncode=fncode, **kw)


def _stored(cls, g):
    """the stored arrays of a map object as rows [[chr, phy, gen, tag]] (tag recovered from vrnt_stop)"""
    tags = [0] * len(g.vrnt_chrgrp)
    ok_tags = True
    if cls == "ext":
        tags = [int(st) - int(p) - 7 for st, p in zip(g.vrnt_stop, g.vrnt_phypos)]
        # all riding columns must still describe the same original row
        ok_tags = len(g.vrnt_stop) == len(g.vrnt_chrgrp)
        for col, pre in ((g.vrnt_name, "m"), (g.vrnt_fncode, "f")):
            if col is not None:
                ok_tags = ok_tags and len(col) == len(tags) and all(str(x) == f"{pre}{t}" for x, t in zip(col, tags))
    rows = [[int(c), int(p), canon.enc(float(x)), t] for c, p, x, t in
            zip(g.vrnt_chrgrp, g.vrnt_phypos, g.vrnt_genpos, tags)]
    return rows, ok_tags


def _meta(g):
    if not g.is_grouped():
        return None
    return [[int(a), int(b), int(c), int(d)] for a, b, c, d in
            zip(g.vrnt_chrgrp_name, g.vrnt_chrgrp_stix, g.vrnt_chrgrp_spix, g.vrnt_chrgrp_len)]


def _true_meta(rows):
    """(label, start, stop, length) of the runs of equal adjacent labels: what group() stores for sorted rows"""
    out = []
    for i, r in enumerate(rows):
        if out and out[-1][0] == r[0]:
            out[-1][2] += 1
            out[-1][3] += 1
        else:
            out.append([r[0], i, i + 1, 1])
    return out


_ERR = {"ValueError": "value", "IndexError": "index"}


def _contiguous(chr_):
    seen, prev = set(), object()
    for c in chr_:
        if c != prev:
            if c in seen:
                return False
            seen.add(c)
            prev = c
    return True


class C11(Prop):
    PID = "C11"
    MODULE = "PybropsModel.Props.C11"
    N_QUICK = 600          # (+ ~120 corpus cases; every class of inputs has pinned corpus cases, the self-test runs 60 mutants)
    N_THOROUGH = 6000
    RULE = ("maps with 1-5 chromosomes (arbitrary integer labels, incl. adjacent labels of large magnitude 1000001/1000002 "
            "and 2^53 / 2^53+1) x 2-8 markers (6% of chromosomes with ONE genetic position), distinct integer physical "
            "positions per chromosome (shared across chromosomes; common offsets 1e9 / 4e9 or per-chromosome magnitudes "
            "0 .. 1e15), dyadic genetic positions with steps 2^-6 .. 2^-30 (70% congruent, with ties; 30% not), rows "
            "shuffled / chromosome blocks ascending with rows shuffled inside / sorted / reversed, both map classes, "
            "auto_group on/off, constructor argument forms (integer dtypes uint8..uint64 / int8..int32, non-contiguous "
            "arrays, from_pandas in M / cM / with integer column positions and arbitrary row labels, from_csv, from_egmap, "
            "units spelled Morgans / centiMorgans / cM, vrnt_name = vrnt_fncode = None, auto_build_spline off); queries at knots, "
            "strictly between flanking markers, outside the range, on absent chromosomes, as int32 / uint arrays, the "
            "same array edited in place and asked again; distance arrays with 1-4 chromosome runs (labels 0, negative, "
            "> 65535; tiny steps on offsets 25000 / 1e9), optional NaN positions, python slice bounds (negative, beyond "
            "the end) for gdist1g/2g/1p/2p; map-function arguments 0, 1e-12 .. 1e-2 around 1e-8 / 1e-5 / 1e-4, dyadic, "
            "large (178, 355, 700, 1e4, 1e300, 1.5e308), inf, as 1-D / column / non-contiguous / Fortran-ordered 2-D arrays, 0-d "
            "scalars, integer arrays, empty arrays; histories of 1-6 "
            "calls on ONE map object (remove / select by index array, negative indices, negative and non-negative indices "
            "mixed (numerically ascending arrays that wrap around), boolean mask, slice incl. "
            "negative step, int, python list; every select() whose integer indices are not ascending is repeated on a "
            "copy of the object with the SAME markers in ascending order and the two results compared (sequential "
            "distances over the own markers, is_congruent, interp_genpos) whenever either reports is_grouped(); remove_discrepancies; prune; build_spline; group / ungroup / reorder / sort with and "
            "without keys; re-assignment AND in-place edit of vrnt_phypos / vrnt_genpos; copy / deepcopy; interp_gmap, continuing "
            "on the DERIVED map, also derived maps shorter than their parent) with "
            "every law re-checked after every call on the object as it stands and, at the end, on the objects copies / "
            "derived maps were taken from; genotype matrices (phased/unphased) grouped by the real group_vrnt, 40% of them "
            "grouped under OTHER labels (a chromosome cut into two groups / grouped together with its predecessor / "
            "renamed) and their chromosome labels re-assigned through the vrnt_chrgrp property before any placement, 70% with "
            "1-4 placements on TWO maps / map functions on the same object, then a second matrix placed on the same "
            "maps; empty query / variant sets; two maps with > 1024 markers, one with 280 chromosomes.  "
            "Non-trivial = mapfn case with >= 3 distinct distances incl. a positive finite one; gdist case "
            "with >= 2 runs and a run of >= 3 markers; interp case with shuffled rows and a query strictly "
            "between two markers; edit case with an editing call and >= 2 calls; xoprob case with >= 2 chromosomes and a "
            "chromosome with >= 2 variants; big case with > 1024 markers")
    TRUSTED = ["scipy interp1d (kind='linear', fill_value='extrapolate'): contract = searchsorted/clip + "
               "de Boor segment formula of scipy 1.18 `_call_linear`, re-checked on every case",
               "libm exp/log/tanh/atanh of numpy vs Lean's Float (compared to 1e-12 relative)",
               "DenseVariantMatrix.group_vrnt (property C03) is used as is to group the genotype matrix",
               "numpy fancy / boolean / slice indexing and numpy.delete: the harness resolves every index form to the "
               "list of non-negative indices the model takes",
               "the three large maps (> 1024 markers, 280 chromosomes) are judged in numpy (exact: integer / dyadic data) "
               "against the same clauses, not through the Lean driver",
               "pandas.read_csv / DataFrame.to_numpy for the from_csv / from_egmap / from_pandas forms (17 significant digits: "
               "the doubles round-trip exactly)",
               "derived maps (interp_gmap): the model continues on the implementation's doubles wherever they are within the "
               "float tolerance of its exact positions (ties of exact values can be split by an ulp in binary64)"]
    ASSUMPTIONS = ["history of a genotype matrix: labels re-assigned after group_vrnt stay ascending and keep the "
                   "(chromosome, position) order of the variants (chromosome boundaries move); the group indices the "
                   "matrix cached are not read by interp_xoprob / interp_genpos as they are (Model: MatObj, theorem "
                   "xoprob_after_relabel) — that the implementation does not read them is checked by Spec + correspondence "
                   "on these histories only; metadata loaded stale from HDF5 or set by hand are not generated",
                   "select() with the same markers in two orders is compared on the implementation (Spec) and proved for "
                   "the model (select_order_independent: grouped object, no duplicated physical position, distinct "
                   "indices); an UNGROUPED map keeps the supplied order by design and nothing is demanded of it",
                   "genetic positions are dyadic rationals, physical positions integers < 2^53: float results are "
                   "within 1e-9 of the exact rational model",
                   "gdist1g/gdist1p are called on label arrays whose equal labels are contiguous (documented "
                   "precondition 'sorted'; interp_xoprob enforces it through is_grouped_vrnt; proved for the stored "
                   "arrays of every constructed map)",
                   "round trip invmapfn(mapfn d): demanded to 1e-13 + 4*2^-50*3^ceil(kappa d) absolute or 1e-9 relative "
                   "(kappa = 2 Haldane, 4 Kosambi), the conditioning bound proved in mapfn_roundtrip_conditioning / "
                   "mapfn_rounded_roundtrip for float mapfn and invmapfn accurate to 8 ulp of 1; "
                   "nothing is demanded once 4*2^-50*3^ceil(kappa d) > 1 (d > 15 M / 7.5 M) except d = inf"]

    # ------------------------------------------------------------------ generation
    def _gen_mopts(self, rng, cls):
        """rarely used argument forms of the constructor (None = all defaults)"""
        if rng.random() < 0.6:
            return None
        o = {}
        u = rng.random()
        if u < 0.45:
            o["phy_dt"] = rng.choice(["uint32", "uint64", "uint16", "int32", "uint32"])
            if rng.random() < 0.5:
                o["chr_dt"] = rng.choice(["uint8", "int8", "uint16", "int32", "uint64"])
        elif u < 0.6:
            o["strided"] = True
        elif u < 0.85:
            o["via"] = rng.choice(["pandas", "pandas_cM", "pandas_ix", "pandas_ix", "csv"] + (["egmap"] if cls == "ext" else []))
            if o["via"] not in ("pandas_cM", "egmap") and rng.random() < 0.4:
                o["units"] = rng.choice(["Morgans", "centiMorgans", "cM"])
        elif u < 0.92:
            o["units"] = rng.choice(["Morgans", "centiMorgans", "cM"])      # constructor called with a unit spelled out
        if cls == "ext" and rng.random() < 0.3:
            o["names_none"] = True
        return o or None

    def _gen_map(self, rng, nchr=None, labels=None, like=None, mopts=None, nm_choices=None, plain=False):
        """`like`: rows of another map; chromosomes shared with it get their markers in the same physical
        region (so that a matrix laid out for one map is not extrapolated absurdly far on the other).
        `mopts`: constructor options the rows must be compatible with (unsigned / narrow dtypes)"""
        mo = mopts or {}
        nchr = nchr or rng.choice([1, 2, 2, 3, 3, 4, 5])
        pool = [-2, 0, 1, 2, 3, 4, 5, 7, 9, 12, 20]
        if mo.get("chr_dt", "int64") == "int64":
            # adjacent labels of large magnitude (equal under a relative tolerance / after conversion to float)
            pool += [1000001, 1000002, 2 ** 53, 2 ** 53 + 1]
        if str(mo.get("chr_dt", "int64")).startswith("u"):
            pool = [c for c in pool if c >= 0]
        labels = list(labels) if labels is not None else rng.sample(pool, nchr)
        rows = []
        congruent = rng.random() < 0.7
        pmax = {"uint16": 60000, "int32": 2 ** 31 - 100, "uint32": 2 ** 32 - 100}.get(mo.get("phy_dt"), 2 ** 53)
        # magnitudes: a large common physical offset (1e9 + small steps), genetic positions with a large common
        # offset and steps down to 2^-30 (differences stay exact in binary64)
        wm = rng.random()
        common = 0 if wm < 0.55 else rng.choice([10 ** 9, 4 * 10 ** 9, 25000])
        mixed = wm >= 0.8     # chromosomes of very different magnitudes (a "combined sort key" must survive them)
        # (no common genetic offset here: interpolating 25000 + tiny steps at non-knots loses the steps to
        # rounding, which is a property of binary64, not of the code; offsets are exercised in the gdist kind)
        gscale = rng.choice([64, 64, 64, 64, 2 ** 17, 2 ** 27, 2 ** 30])
        if mo.get("via") == "pandas_cM" or mo.get("units") in ("cM", "centiMorgans"):
            gscale = 64
        goff = 0
        if plain:
            # (quadratic / cubic spline fitting is a linear solve: keep it well conditioned — the clause checked for
            # those kinds is about WHICH values are returned, not about the conditioning of scipy's solver)
            common, mixed, gscale = 0, False, 64
        for c in labels:
            nm = rng.choice(nm_choices or [2, 2, 3, 3, 4, 5, 6, 8])
            span = rng.choice([10, 40, 100, 1000, 1000000])
            ref = sorted(int(r[1]) for r in (like or []) if r[0] == c)
            if ref:
                lo, hi = max(1, ref[0] - 5), max(ref[-1] + 5, ref[0] - 5 + nm, nm + 1)
                phys = sorted(rng.sample(range(lo, hi + 1), nm))
            else:
                offset = rng.choice([0, 0, 10 ** 6, 10 ** 9, 4 * 10 ** 9, 10 ** 12, 10 ** 15]) if mixed else common
                if span * nm + 2 + offset >= pmax:
                    span, off = min(span, 100), 0
                else:
                    off = offset
                phys = sorted(off + x for x in rng.sample(range(1, span * nm + 2), nm))
                if mixed and off and rng.random() < 0.4:
                    # a WIDE chromosome: some of its markers near the origin, the others at the offset
                    kk = rng.randint(1, nm - 1)
                    phys = sorted([x - off for x in phys[:kk]] + phys[kk:])
            if rng.random() < 0.06:
                g = [rng.randint(0, 192)] * nm          # a chromosome with ONE genetic position (no recombination)
            elif congruent:
                g = sorted(rng.randint(0, 192) for _ in range(nm))
                if rng.random() < 0.6:
                    g = sorted(set(g))
                    while len(g) < nm:
                        g.append(g[-1] + rng.randint(1, 16))
            else:
                g = [rng.randint(0, 192) for _ in range(nm)]
            for p, x in zip(phys, g):
                rows.append([c, p, canon.enc(goff + Fraction(x, gscale)), 0])
        rng.shuffle(rows)
        # partially ordered inputs: chromosome blocks in ascending order with the rows shuffled inside them,
        # fully sorted, fully reversed (what "already in order" shortcuts look at)
        w = rng.random()
        if w < 0.2:
            rows.sort(key=lambda r: r[0])
        elif w < 0.3:
            rows.sort(key=lambda r: (r[0], int(r[1])))
        elif w < 0.4:
            rows.sort(key=lambda r: (-r[0], -int(r[1])))
        elif w < 0.45:
            rows.sort(key=lambda r: (r[0], -int(r[1])))
        for t, r in enumerate(rows):
            r[3] = t
        return rows

    @staticmethod
    def _gen_slice(rng, n):
        """python slice bounds (st, sp) over an array of length n: mostly a proper, non-empty part of the array that
        starts inside it; each bound written as a non-negative index, a negative one, None, or beyond the end"""
        if n < 2 or rng.random() < 0.12:
            return rng.choice([None, 0, n, n + 2, -n - 1]), rng.choice([None, 0, n, n + 2, -1])
        i = rng.randrange(0, n - 1)
        j = rng.randrange(i + 1, n + 1)
        st = rng.choice([i, i, i - n] + ([None] if i == 0 else []))
        sp = rng.choice([j, j, j - n if j < n else n + 2] + ([None] if j == n else []))
        return st, sp

    @staticmethod
    def _gen_perm(rng, n):
        """a row order different from the supplied one (whenever there is one)"""
        perm = list(range(n))
        for _ in range(5):
            rng.shuffle(perm)
            if perm != list(range(n)):
                break
        return perm

    def _gen_queries(self, rng, rows, nq=None, sort=False):
        chrs = sorted({r[0] for r in rows})
        absent = [c for c in [0, 1, 2, 3, 6, 8, 11, 30, -1] if c not in chrs]
        if max(chrs) > 10 ** 6:
            absent += [c for c in (1000000, 1000003, 2 ** 53 - 1, 2 ** 53 + 2) if c not in chrs]
        nq = nq or rng.randint(1, 12)
        q = []
        for _ in range(nq):
            u = rng.random()
            if u < 0.12:
                q.append((rng.choice(absent), rng.randint(0, 500)))
                continue
            c = rng.choice(chrs)
            ph = sorted(int(r[1]) for r in rows if r[0] == c)
            if u < 0.4:
                q.append((c, rng.choice(ph)))
            elif u < 0.8:
                i = rng.randrange(len(ph) - 1)
                if ph[i + 1] - ph[i] > 1:
                    q.append((c, rng.randint(ph[i] + 1, ph[i + 1] - 1)))
                else:
                    q.append((c, ph[i]))
            elif u < 0.9:
                q.append((c, ph[0] - rng.randint(1, 50)))
            else:
                q.append((c, ph[-1] + rng.randint(1, 50)))
        if sort:
            q.sort()
        return [a for a, _ in q], [b for _, b in q]

    @staticmethod
    def _gen_prechr(rng, mchr, mphy):
        """labels a genotype matrix is GROUPED under before its chromosome labels are re-assigned to `mchr`: the
        arrangement sorted by (pre label, position) is the one sorted by (final label, position), but the chromosome
        boundaries differ — a chromosome grouped as two groups cut between two of its variants (boundaries vanish when
        the final labels are assigned), or grouped together with the previous chromosome (a boundary appears; only
        variants beyond every variant of that one are kept so that the order stays the same), or merely renamed.
        Returns (mchr, mphy, pre_chr); pre_chr = None when nothing could be moved."""
        labs = sorted(set(mchr))
        rank = {c: i for i, c in enumerate(labs)}
        keep = list(range(len(mchr)))
        pre = {i: 2 * rank[mchr[i]] for i in keep}
        moved = False
        for c in labs:
            ix = [i for i in keep if mchr[i] == c]
            if not ix:
                continue
            u = rng.random()
            if u < 0.4 and len(ix) >= 2:
                ps = sorted(mphy[i] for i in ix)
                cut = ps[rng.randrange(1, len(ps))]
                for i in ix:
                    if mphy[i] >= cut:
                        pre[i] = 2 * rank[c] + 1
                moved = True
            elif u < 0.85 and rank[c] > 0:
                prev = [i for i in keep if mchr[i] == labs[rank[c] - 1]]
                if not prev:
                    continue
                t = max(pre[i] for i in prev)                      # the (last) group of the previous chromosome
                pmax = max(mphy[i] for i in keep if pre[i] == t)
                stay = [i for i in ix if mphy[i] > pmax]
                if not stay:
                    continue
                keep = [i for i in keep if mchr[i] != c or i in stay]
                for i in stay:
                    pre[i] = t
                moved = True
        if not moved:
            return mchr, mphy, None
        return [mchr[i] for i in keep], [mphy[i] for i in keep], [pre[i] for i in keep]

    def _gen_derived(self, rng, rows, big=None):
        """marker set of a map derived by interp_gmap: distinct positions, >= 2 per chromosome, only chromosomes
        of the parent, in sorted or shuffled order; `big`: at least as many markers as the parent"""
        chrs = sorted({r[0] for r in rows})
        keep = chrs if rng.random() < 0.7 or len(chrs) == 1 else rng.sample(chrs, rng.randint(1, len(chrs) - 1))
        big = rng.random() < 0.75 if big is None else big
        q = []
        for c in keep:
            ph = sorted(int(r[1]) for r in rows if r[0] == c)
            k = rng.choice([len(ph), len(ph) + 1, len(ph) + 2, 6]) if big else rng.choice([2, 2, 3, max(2, len(ph) - 1)])
            lo, hi = ph[0] - 3, max(ph[-1] + 3, ph[0] - 3 + 2 * k)
            xs = set(rng.sample(ph, min(len(ph), rng.randint(0, 2))))
            while len(xs) < k:
                xs.add(rng.randint(lo, hi))
            q += [(c, x) for x in xs]
        w = rng.random()
        if w < 0.4:
            q.sort()
        elif w < 0.6:
            q.sort(key=lambda t: (-t[0], t[1]))          # chromosome blocks contiguous, in descending order
        else:
            rng.shuffle(q)
        return [a for a, _ in q], [b for _, b in q]

    def _gen_edit(self, rng, cls):
        """history of calls on ONE map object (remove / select in every index form, remove_discrepancies, prune,
        build_spline, group, re-assignment of vrnt_phypos / vrnt_genpos, copy / deepcopy, interp_gmap which
        continues on the DERIVED map), interrogated after every call"""
        mo = self._gen_mopts(rng, cls) or {}
        if rng.random() < 0.08:
            mo["no_spline"] = True
        rows = self._gen_map(rng, mopts=mo)
        n_est = len(rows)
        ops = []
        derived = rng.random() < 0.45
        nops = rng.randint(1, 4)
        at = rng.randrange(nops) if derived else -1
        for i in range(nops):
            w = rng.random()
            if i == at:
                qchr, qphy = self._gen_derived(rng, rows)
                ops.append({"op": "interp_gmap", "qchr": qchr, "qphy": qphy})
                n_est = len(qchr)
                if rng.random() < 0.8:
                    ops.append({"op": "build"})
            elif w < 0.25 and n_est > 2:
                form = rng.choice(["list", "neg", "mask", "slice", "slice", "int", "pylist", "mixneg"])
                if form == "slice":
                    a_ = rng.randrange(n_est)
                    st = rng.choice([1, 1, 2, 3])
                    idx = list(range(a_, min(n_est, a_ + rng.randint(1, 3) * st), st))[:n_est - 1]
                    o = {"op": "remove", "idx": idx, "form": "slice", "slice": [idx[0], idx[-1] + 1, st]}
                elif form == "int":
                    o = {"op": "remove", "idx": [rng.randrange(n_est)], "form": "int"}
                else:
                    kk = rng.randint(1, min(2, n_est - 1))
                    o = {"op": "remove", "idx": sorted(rng.sample(range(n_est), kk)), "form": form}
                ops.append(o)
                n_est -= len(o["idx"])
            elif w < 0.42 and n_est > 2:
                form = rng.choice(["list", "neg", "mask", "slice", "slice", "pylist", "mixneg"])
                kk = rng.randint(max(1, n_est - 2), n_est)
                if form == "slice":
                    a_ = rng.randrange(0, 2)
                    st = rng.choice([1, 2, -1, -1, -2])
                    if st > 0:
                        sl = [a_, n_est - rng.randrange(0, 2), st]
                    else:
                        sl = [n_est - 1 - a_, None, st]
                    idx = list(range(n_est))[slice(*sl)]
                    o = {"op": "select", "idx": idx, "form": "slice", "slice": sl}
                else:
                    idx = rng.sample(range(n_est), kk)
                    if form == "mask":
                        idx.sort()
                    elif form == "mixneg" and rng.random() < 0.6:
                        # the rows in an order whose index ARRAY is numerically ascending: the tail of the map
                        # (written as negative indices) first, then its head
                        idx.sort()
                        cut = rng.randrange(1, len(idx)) if len(idx) > 1 else 0
                        idx = idx[cut:] + idx[:cut]
                    o = {"op": "select", "idx": idx, "form": form}
                if o["idx"]:
                    ops.append(o)
                    n_est = len(o["idx"])
            elif w < 0.55:
                ops.append({"op": "rd"})
                n_est = 0         # size unknown from here on: no index-based calls any more
            elif w < 0.65 and cls == "ext" and not (derived and i > at):
                mode = rng.choice(["nt", "M", "both"])
                ops.append({"op": "prune",
                            "nt": None if mode == "M" else rng.choice([3, 7, 20, 50, 200, 5000, 300000]),
                            "M": None if mode == "nt" else canon.enc(Fraction(rng.choice([1, 2, 4, 8, 16, 48]), 16))})
                n_est = 0
            elif w < 0.75:
                ops.append({"op": "assign", "mode": rng.choice(["gen_affine", "phy_reflect", "phy_rotate", "gen_reverse",
                                                                "gen_inplace", "phy_inplace"])})
                if rng.random() < 0.7:
                    ops.append({"op": "build"})
            elif w < 0.82:
                ops.append({"op": "copy", "deep": rng.random() < 0.5})
            elif w < 0.85:
                ops.append({"op": "group"})
            elif w < 0.93:
                v = rng.random()
                if n_est > 1 and v < 0.5:
                    ops.append({"op": "reorder", "idx": rng.sample(range(n_est), n_est)})
                elif v < 0.8:
                    # sort(): default keys, or explicit keys (one array / a tuple, last key primary)
                    ops.append({"op": "sort", "keys": rng.choice([None, None, "phy", "gen_desc_chr", "chr_desc"])})
                else:
                    ops.append({"op": "ungroup"})
            else:
                ops.append({"op": "build"})
        qchr, qphy = self._gen_queries(rng, rows, nq=rng.randint(2, 6))
        case = {"kind": "edit", "cls": cls, "auto_group": rng.random() < 0.8, "rows": rows,
                "ops": ops, "qchr": qchr, "qphy": qphy}
        if mo:
            case["mopts"] = mo
        return case

    def corpus(self):
        rows = [[2, 10, 0, 0], [1, 30, "1/2", 1], [1, 10, "1/10", 2], [2, 40, "9/10", 3], [1, 20, "1/4", 4],
                [2, 20, "3/10", 5]]
        rows_d = [[2, 10, 0, 0], [1, 30, "1/2", 1], [1, 10, "1/8", 2], [2, 40, "7/8", 3], [1, 20, "1/4", 4],
                  [2, 20, "3/8", 5]]
        out = []
        for fn in ("haldane", "kosambi"):
            out.append({"kind": "mapfn", "fn": fn,
                        "d": [0, "1/1048576", "1/8", "1/2", 1, 3, 6, 20, 50, "inf"]})
            out.append({"kind": "mapfn", "fn": fn, "d": ["inf"]})
            out.append({"kind": "mapfn", "fn": fn, "d": [0]})
        for cls in ("std", "ext"):
            out.append({"kind": "interp", "cls": cls, "auto_group": True, "rows": rows_d,
                        "perm": [5, 3, 1, 0, 2, 4], "qchr": [1, 1, 1, 2, 2, 3, 1], "qphy": [10, 15, 40, 5, 40, 7, 0],
                        "qsorted": False})
            out.append({"kind": "interp", "cls": cls, "auto_group": False, "rows": rows_d,
                        "perm": [1, 0, 3, 2, 5, 4], "qchr": [1, 1, 1, 2, 2, 2, 3], "qphy": [10, 15, 30, 10, 25, 40, 7],
                        "qsorted": True})
            # a map with one chromosome and exactly two markers; queries only outside / at the knots
            out.append({"kind": "interp", "cls": cls, "auto_group": True,
                        "rows": [[4, 100, "3/4", 0], [4, 50, "1/4", 1]], "perm": [1, 0],
                        "qchr": [4, 4, 4, 4, 5], "qphy": [50, 100, 0, 150, 75], "qsorted": True})
            out.append({"kind": "gdist", "cls": cls, "chr": [1, 1, 1, 2, 2, 2],
                        "gen": ["1/8", "1/4", "1/2", 0, "3/8", "7/8"], "slices": None})
            out.append({"kind": "gdist", "cls": cls, "chr": [3], "gen": ["1/8"], "slices": None})
            out.append({"kind": "gdist", "cls": cls, "chr": [1, 2, 1], "gen": ["5/32", "25/64", "25/32"], "slices": None})
            out.append({"kind": "gdist", "cls": cls, "chr": [5, 5, 2, 2, 2], "gen": ["1/8", "nan", "1/2", "1/2", 1],
                        "slices": {"ast": 1, "asp": 4, "rst": 0, "rsp": 3, "cst": 2, "csp": None}})
        for fn in ("haldane", "kosambi"):
            out.append({"kind": "xoprob", "cls": "std", "fn": fn, "phased": True, "rows": rows,
                        "mchr": [2, 1, 1, 2, 3], "mphy": [15, 12, 25, 35, 5]})
            out.append({"kind": "xoprob", "cls": "ext", "fn": fn, "phased": False, "rows": rows_d,
                        "mchr": [2, 1, 1, 2, 3, 3, 1], "mphy": [15, 12, 25, 35, 5, 9, 30]})
        # editing histories: one pass of remove_discrepancies leaves [0, 5, 2, 6]; the spline is the old one
        # until build_spline is called
        rows_e = [[1, 10, 0, 0], [1, 20, 5, 1], [1, 30, 1, 2], [1, 40, 2, 3], [1, 50, 6, 4], [2, 5, 0, 5], [2, 9, 1, 6]]
        for cls in ("std", "ext"):
            out.append({"kind": "edit", "cls": cls, "auto_group": True, "rows": rows_e,
                        "ops": [{"op": "rd"}, {"op": "build"}, {"op": "rd"}, {"op": "remove", "idx": [0]},
                                {"op": "select", "idx": [2, 0, 1]}],
                        "qchr": [1, 1, 1, 2, 3], "qphy": [30, 25, 45, 7, 1]})
            out.append({"kind": "edit", "cls": cls, "auto_group": False, "rows": list(reversed(rows_e)),
                        "ops": [{"op": "remove", "idx": [1, 3]}, {"op": "build"}, {"op": "rd"}],
                        "qchr": [1, 1, 2], "qphy": [30, 25, 7]})
        rows_k = [[1, 10, 0, 0], [1, 20, "1/2", 1], [1, 30, "3/4", 2], [1, 40, "3/2", 3], [1, 50, 2, 4],
                  [2, 5, 0, 5], [2, 9, 1, 6], [2, 13, "5/4", 7], [2, 20, 3, 8], [2, 31, 4, 9]]
        for kind in ("slinear", "previous", "next", "zero", "nearest", "nearest-up", "quadratic", "cubic"):
            for cls in ("std", "ext"):
                out.append({"kind": "spline", "cls": cls, "spline_kind": kind, "rows": rows_k,
                            "perm": [9, 8, 7, 6, 5, 4, 3, 2, 1, 0],
                            "qchr": [1, 1, 1, 1, 1, 1, 2, 3, 2], "qphy": [10, 15, 20, 25, 5, 60, 7, 1, 31]})
        rows_p = [[1, p, canon.enc(Fraction(gp, 16)), t] for t, (p, gp) in enumerate(
            [(10, 0), (12, 1), (19, 2), (20, 4), (31, 5), (40, 9), (41, 10), (60, 16), (75, 17), (100, 32)])] + \
                 [[2, 5, 0, 10], [2, 50, "1/2", 11], [2, 51, 1, 12]]
        for nt_, m_ in ((20, None), (None, "1/2"), (15, "1/2"), (7, None), (None, 1)):
            out.append({"kind": "edit", "cls": "ext", "auto_group": True, "rows": rows_p,
                        "ops": [{"op": "prune", "nt": nt_, "M": m_}, {"op": "build"}],
                        "qchr": [1, 1, 2], "qphy": [10, 55, 30]})
        out.append({"kind": "sortdup", "cls": "ext",
                    "rows": [[1, 10, "1/2", 0], [1, 10, "1/2", 1], [1, 10, "1/4", 2], [1, 5, 1, 3], [1, 10, "1/2", 4],
                             [0, 10, "1/2", 5], [1, 5, 1, 6]]})
        # one matrix placed on a map, then on a DIFFERENT map (and map function); and a matrix constructed
        # with unrelated vrnt_genpos / vrnt_xoprob: the answer must come from the map actually passed
        rows_b = [[1, 10, 0, 0], [1, 30, 2, 1], [2, 10, "1/2", 2], [2, 40, "3/4", 3], [3, 1, 0, 4], [3, 9, 1, 5]]
        other = {"haldane": "kosambi", "kosambi": "haldane"}
        for fn in ("haldane", "kosambi"):
            out.append({"kind": "xoprob", "cls": "std", "fn": fn, "phased": True, "rows": rows_d, "rows2": rows_b,
                        "mchr": [2, 1, 1, 2, 3], "mphy": [15, 12, 25, 35, 5], "preset": None,
                        "steps": [{"op": "xoprob", "map": 0, "fn": fn}, {"op": "xoprob", "map": 1, "fn": other[fn]},
                                  {"op": "genpos", "map": 0, "fn": fn}, {"op": "xoprob", "map": 0, "fn": fn}]})
            out.append({"kind": "xoprob", "cls": "std", "fn": fn, "phased": False, "rows": rows_d, "rows2": rows_b,
                        "mchr": [2, 1, 1, 2, 3], "mphy": [15, 12, 25, 35, 5],
                        "preset": {"genpos": [5, "11/2", 6, "13/2", 7], "xoprob": ["1/4", "1/8", "1/16", "1/32", "1/64"]},
                        "steps": [{"op": "xoprob", "map": 1, "fn": fn}, {"op": "genpos", "map": 0, "fn": fn}]})
            out.append({"kind": "xoprob", "cls": "ext", "fn": fn, "phased": True, "rows": rows_b, "rows2": rows_d,
                        "mchr": [1, 1, 2], "mphy": [12, 25, 35],
                        "preset": {"genpos": [9, 8, 7], "xoprob": None},
                        "steps": [{"op": "genpos", "map": 0, "fn": fn}, {"op": "xoprob", "map": 1, "fn": fn}]})
        # ---- round 3 -------------------------------------------------------------------------------------
        # magnitudes around tolerance-style shortcuts
        tiny = [0] + [canon.enc(Fraction(float(x))) for x in (1e-12, 1e-8, 1e-6, 1e-5, 5e-5, 9.9e-5, 1e-4, 1.0001e-4,
                                                                 1e-3)] + ["1/16384", "1/131072", "1/8", "inf"]
        for fn in ("haldane", "kosambi"):
            out.append({"kind": "mapfn", "fn": fn, "d": tiny})
        big_off = [canon.enc(25000 + Fraction(x, 2 ** 30)) for x in (0, 1, 9, 9, 200)]
        for cls in ("std", "ext"):
            # chromosome label 0 first, negative labels, descending label order; tiny steps on a large offset, a tie
            out.append({"kind": "gdist", "cls": cls, "chr": [0, 0, -3, -3, -3], "gen": big_off, "slices": None})
            out.append({"kind": "gdist", "cls": cls, "chr": [0, 0, 0, 7, 7], "gen": big_off,
                        "slices": {"ast": -4, "asp": None, "rst": -3, "rsp": 9, "cst": None, "csp": -1},
                        "aopts": {"chr_dt": "uint8", "strided": True}})
        # unsigned / narrow dtypes with rows that are "almost in order" (chromosome blocks ascending, shuffled inside)
        rows_u = [[1, 300, "1/4", 0], [1, 100, 0, 1], [1, 400, "3/8", 2], [1, 200, "1/8", 3],
                  [2, 400, "3/4", 4], [2, 200, "1/4", 5], [2, 100, 0, 6], [2, 300, "5/16", 7]]
        for cls, mo in (("std", {"phy_dt": "uint32"}), ("ext", {"phy_dt": "uint64", "chr_dt": "uint8"}),
                        ("std", {"phy_dt": "int32", "chr_dt": "int8", "strided": True}),
                        ("std", {"via": "pandas"}), ("ext", {"via": "pandas_cM", "names_none": True})):
            out.append({"kind": "interp", "cls": cls, "auto_group": True, "rows": rows_u, "mopts": mo,
                        "perm": [6, 2, 5, 0, 3, 7, 1, 4], "qchr": [1, 1, 1, 2, 2, 2, 3], "qphy": [150, 275, 390, 150, 275, 400, 7],
                        "qsorted": True})
        # regression of D110 (fixed): derived map shorter than its parent.  Before the repair interp_gmap copied the
        # parent's group metadata and interp_genpos / remove_discrepancies of the derived map raised; must PASS now
        rows_p = [[1, 10, 0, 0], [1, 20, "1/8", 1], [1, 30, "1/4", 2], [2, 10, 0, 3], [2, 20, "3/8", 4], [2, 30, "1/2", 5]]
        for cls in ("std", "ext"):
            out.append({"kind": "edit", "cls": cls, "auto_group": True, "rows": rows_p,
                        "ops": [{"op": "interp_gmap", "qchr": [1, 1, 2, 2, 2], "qphy": [12, 25, 11, 15, 28]}],
                        "qchr": [1, 2], "qphy": [15, 25]})
            out.append({"kind": "edit", "cls": cls, "auto_group": True, "rows": rows_p,
                        "ops": [{"op": "interp_gmap", "qchr": [2, 1, 2, 1], "qphy": [28, 25, 11, 12]}, {"op": "rd"},
                                {"op": "build"}, {"op": "interp_gmap", "qchr": [1, 1, 1, 2, 2], "qphy": [13, 14, 24, 12, 27]},
                                {"op": "rd"}],
                        "qchr": [1, 2], "qphy": [15, 25]})
        # derived maps at least as long as the parent (nothing raises): rebuilt spline, regrouping, editing, all laws
        rows_q = [[2, 250, "5/16", 0], [1, 300, "1/2", 1], [1, 100, 0, 2], [2, 100, 0, 3], [1, 400, "5/8", 4],
                  [2, 300, "3/8", 5], [1, 200, "1/8", 6]]
        dq = {"qchr": [1, 1, 1, 1, 1, 1, 2, 2], "qphy": [150, 220, 280, 330, 390, 450, 120, 280]}
        du = {"qchr": [2, 1, 1, 2, 1, 1, 2, 1], "qphy": [280, 330, 150, 120, 450, 220, 200, 390]}
        for cls in ("std", "ext"):
            out.append({"kind": "edit", "cls": cls, "auto_group": True, "rows": rows_q,
                        "ops": [{"op": "interp_gmap", **dq}, {"op": "build"}, {"op": "rd"}, {"op": "build"}],
                        "qchr": [1, 2, 2, 3], "qphy": [160, 200, 90, 5]})
            out.append({"kind": "edit", "cls": cls, "auto_group": True, "rows": rows_q,
                        "ops": [{"op": "interp_gmap", **du}, {"op": "build"}, {"op": "group"}, {"op": "build"},
                                {"op": "remove", "idx": [0], "form": "neg"}, {"op": "build"}],
                        "qchr": [1, 2, 2, 3], "qphy": [160, 200, 90, 5]})
            out.append({"kind": "edit", "cls": cls, "auto_group": False, "rows": rows_q,
                        "ops": [{"op": "build"}, {"op": "interp_gmap", **du}, {"op": "interp_gmap", **dq}, {"op": "build"}],
                        "qchr": [1, 2], "qphy": [160, 200]})
            # re-assigned position arrays (metadata kept), copies, every index form, no spline at construction
            out.append({"kind": "edit", "cls": cls, "auto_group": True, "rows": rows_q,
                        "ops": [{"op": "assign", "mode": "phy_reflect"}, {"op": "build"}, {"op": "assign", "mode": "gen_reverse"},
                                {"op": "build"}, {"op": "rd"}, {"op": "build"}],
                        "qchr": [1, 2], "qphy": [160, 200]})
            out.append({"kind": "edit", "cls": cls, "auto_group": True, "rows": rows_q,
                        "ops": [{"op": "copy", "deep": False}, {"op": "remove", "idx": [1, 2], "form": "mask"}, {"op": "build"},
                                {"op": "copy", "deep": True}, {"op": "assign", "mode": "gen_affine"}, {"op": "build"}],
                        "qchr": [1, 2], "qphy": [160, 200]})
            out.append({"kind": "edit", "cls": cls, "auto_group": True, "rows": rows_q, "mopts": {"no_spline": True},
                        "ops": [{"op": "select", "idx": [6, 5, 4, 3, 2, 1], "form": "slice", "slice": [6, None, -1]},
                                {"op": "remove", "idx": [2], "form": "int"}, {"op": "build"},
                                {"op": "select", "idx": [0, 1, 3, 4], "form": "pylist"}, {"op": "build"}],
                        "qchr": [1, 2], "qphy": [160, 200]})
        # ---- round 4 -------------------------------------------------------------------------------------
        for cls in ("std", "ext"):
            # in-place edits of the position arrays (no setter call) followed by build_spline; sort() with / without keys
            out.append({"kind": "edit", "cls": cls, "auto_group": True, "rows": rows_q,
                        "ops": [{"op": "assign", "mode": "gen_inplace"}, {"op": "build"}, {"op": "assign", "mode": "phy_inplace"},
                                {"op": "build"}, {"op": "sort", "keys": "chr_desc"}, {"op": "build"}, {"op": "sort", "keys": None},
                                {"op": "rd"}, {"op": "build"}],
                        "qchr": [1, 2], "qphy": [160, 200]})
            # factories and unit spellings
            for mo in ({"via": "pandas_ix"}, {"via": "csv", "units": "centiMorgans"}, {"units": "centiMorgans"},
                       {"units": "Morgans", "no_spline": True}) + (({"via": "egmap"},) if cls == "ext" else ()):
                out.append({"kind": "edit", "cls": cls, "auto_group": True, "rows": rows_u, "mopts": mo,
                            "ops": [{"op": "build"}, {"op": "remove", "idx": [1, 6], "form": "list"}, {"op": "build"}],
                            "qchr": [1, 2, 3], "qphy": [150, 275, 7]})
            # adjacent chromosome labels of large magnitude; a chromosome without recombination (one genetic position)
            rows_l = [[1000002, 30, "1/2", 0], [1000001, 10, "1/8", 1], [1000001, 20, "1/4", 2], [1000002, 10, 0, 3],
                      [2 ** 53 + 1, 5, 1, 4], [2 ** 53, 5, 0, 5], [2 ** 53 + 1, 9, 2, 6], [2 ** 53, 7, "1/2", 7],
                      [3, 11, "3/4", 8], [3, 19, "3/4", 9], [3, 15, "3/4", 10]]
            out.append({"kind": "interp", "cls": cls, "auto_group": True, "rows": rows_l,
                        "perm": [10, 9, 8, 7, 6, 5, 4, 3, 2, 1, 0],
                        "qchr": [1000001, 1000001, 1000002, 1000003, 2 ** 53, 2 ** 53 + 1, 2 ** 53 + 2, 3, 3],
                        "qphy": [10, 15, 20, 10, 6, 6, 6, 13, 25], "qsorted": False})
            out.append({"kind": "gdist", "cls": cls, "chr": [1000001, 1000001, 1000002, 2 ** 53, 2 ** 53 + 1, 2 ** 53 + 1],
                        "gen": [0, "1/4", "1/2", "1/8", "1/4", 1], "slices": None})
        for fn in ("haldane", "kosambi"):
            out.append({"kind": "mapfn", "fn": fn, "d": [0, 15, 40, 177, 178, 355, 400, 710, 10 ** 4,
                                                          canon.enc(Fraction(float(1e300))), canon.enc(Fraction(float(1.5e308))), "inf"]})
        # the optional window arguments of gdist1p / gdist2p (start inside the array, negative stop) on sorted queries
        for cls in ("std", "ext"):
            for ps in ({"ast": 3, "asp": None, "rst": 2, "rsp": 6, "cst": 1, "csp": -1},
                       {"ast": None, "asp": -2, "rst": 4, "rsp": None, "cst": None, "csp": 3}):
                out.append({"kind": "interp", "cls": cls, "auto_group": True, "rows": rows_u, "perm": [6, 2, 5, 0, 3, 7, 1, 4],
                            "qchr": [1, 1, 1, 1, 2, 2, 2], "qphy": [100, 150, 275, 390, 150, 275, 400], "qsorted": True,
                            "pslices": ps})
        # empty inputs ("all query marker sets" includes the empty one) and integer-typed distances
        for cls in ("std", "ext"):
            out.append({"kind": "gdist", "cls": cls, "chr": [], "gen": [], "slices": None})
            out.append({"kind": "gdist", "cls": cls, "chr": [], "gen": [],
                        "slices": {"ast": 0, "asp": None, "rst": None, "rsp": 3, "cst": -1, "csp": None}})
            out.append({"kind": "interp", "cls": cls, "auto_group": True, "rows": rows_d, "perm": [5, 3, 1, 0, 2, 4],
                        "qchr": [], "qphy": [], "qsorted": True})
            out.append({"kind": "xoprob", "cls": cls, "fn": "haldane", "phased": cls == "std", "rows": rows_d,
                        "mchr": [], "mphy": []})
        for fn in ("haldane", "kosambi"):
            out.append({"kind": "mapfn", "fn": fn, "d": []})
            out.append({"kind": "mapfn", "fn": fn, "d": [0, 1, 2, 3, 7, 20, 700], "form": "int"})
        # sizes past 1024 markers per map / per chromosome
        out.append({"kind": "big", "cls": "std", "counts": [700, 420], "seed": 7, "fn": "haldane"})
        out.append({"kind": "big", "cls": "ext", "counts": [130, 1100], "seed": 8, "fn": "kosambi", "mopts": {"phy_dt": "uint32"}})
        # more than 127 / 255 chromosomes
        out.append({"kind": "big", "cls": "std", "counts": [2, 3] * 140, "seed": 9, "fn": "kosambi"})
        # round 5: history on the genotype matrix — grouped under other labels, then the chromosome labels re-assigned
        # (chromosome 1 split into its arms 11 / 12: a chromosome start appears; two groups merged into chromosome 20:
        # a start vanishes), then placed on a map that uses the new labels
        rows_arm = [[11, 100, 0, 0], [11, 300, "5/16", 1], [11, 500, "1/2", 2], [12, 600, 0, 3], [12, 800, "1/4", 4],
                    [12, 1000, "5/8", 5], [20, 100, 0, 6], [20, 400, "3/8", 7], [20, 900, "9/8", 8]]
        for cls in ("std", "ext"):
            for fn in ("haldane", "kosambi"):
                out.append({"kind": "xoprob", "cls": cls, "fn": fn, "phased": cls == "std", "rows": rows_arm,
                            "mchr": [11, 11, 11, 12, 12, 20, 20, 20], "mphy": [150, 350, 450, 700, 900, 200, 500, 800],
                            "pre_chr": [1, 1, 1, 1, 1, 2, 2, 2]})
            out.append({"kind": "xoprob", "cls": cls, "fn": "haldane", "phased": cls == "ext", "rows": rows_arm,
                        "mchr": [20, 12, 20, 11, 20, 12, 11], "mphy": [800, 700, 200, 350, 500, 900, 150],
                        "pre_chr": [5, 2, 4, 0, 5, 2, 0], "rows2": rows_arm,
                        "steps": [{"op": "genpos", "map": 0, "fn": "haldane"}, {"op": "xoprob", "map": 1, "fn": "kosambi"}],
                        "preset": None})
        # round 5: select() with an integer index array that is NOT ascending on a grouped map (the rows of several
        # chromosomes interleaved), as the first and only edit and after other edits; also as a python list / negative
        rows_s = [[1, 10, 0, 0], [1, 20, "1/8", 1], [1, 30, "3/8", 2], [1, 40, "1/2", 3], [2, 5, 0, 4], [2, 9, "1/4", 5],
                  [2, 15, "1/2", 6], [3, 7, "1/8", 7], [3, 70, "3/4", 8], [3, 90, 1, 9]]
        for cls in ("std", "ext"):
            for form in ("list", "pylist", "neg"):
                out.append({"kind": "edit", "cls": cls, "auto_group": True, "rows": rows_s,
                            "ops": [{"op": "select", "idx": [9, 5, 2, 0, 7, 4, 3, 6], "form": form}],
                            "qchr": [1, 2, 3, 3], "qphy": [25, 7, 50, 90]})
            # (the index ARRAY [-3, -2, -1, 0, 1, 4] is numerically ascending, the rows it selects are not)
            out.append({"kind": "edit", "cls": cls, "auto_group": True, "rows": rows_s,
                        "ops": [{"op": "select", "idx": [7, 8, 9, 0, 1, 4], "form": "mixneg"}, {"op": "rd"}],
                        "qchr": [1, 2, 3, 3], "qphy": [25, 7, 50, 90]})
            out.append({"kind": "edit", "cls": cls, "auto_group": True, "rows": rows_s,
                        "ops": [{"op": "remove", "idx": [1]}, {"op": "select", "idx": [8, 0, 4, 1, 6, 2, 5], "form": "list"},
                                {"op": "build"}, {"op": "rd"}],
                        "qchr": [1, 2, 3, 3], "qphy": [25, 7, 50, 90]})
        return out

    def generate(self, rng, n, tier):
        out = []
        for _ in range(n):
            u = rng.random()
            cls = rng.choice(["std", "ext"])
            if u < 0.15:
                pool = [0, 0, Fraction(1, 2 ** 40), Fraction(1, 1024), Fraction(1, 64), Fraction(1, 8), Fraction(1, 4),
                        Fraction(1, 2), 1, Fraction(3, 2), 2, 3, Fraction(9, 2), 6, 7, Fraction(15, 2), 10, 12, 14, 15,
                        20, 40, 178, 355, 700, 710, 10 ** 4, Fraction(float(1e300)), Fraction(float(1.5e308)), "inf"]
                # magnitudes around the thresholds of tolerance-style shortcuts (1e-8, 1e-5, 1e-4, 1e-3), as the
                # doubles nearest to the decimal values and as neighbouring dyadics
                tiny = [Fraction(float(x)) for x in (1e-12, 1e-8, 9.9e-9, 1e-6, 5e-6, 1e-5, 2e-5, 5e-5, 9.9e-5, 9.99999e-5,
                                                     1e-4, 1.0001e-4, 2e-4, 5e-4, 1e-3, 1e-2)] + \
                       [Fraction(1, 2 ** e) for e in (10, 12, 13, 14, 15, 17, 20, 27, 30)]
                k = rng.randint(1, 10)
                w = rng.random()
                if w < 0.3:
                    d = [rng.choice(tiny) for _ in range(k)] + [rng.choice(pool)]
                else:
                    d = [rng.choice(pool) if rng.random() < 0.6 else Fraction(rng.randint(0, 16 * 256), 256)
                         for _ in range(k)]
                out.append({"kind": "mapfn", "fn": rng.choice(["haldane", "kosambi"]),
                            "d": [x if isinstance(x, str) else canon.enc(Fraction(x)) for x in d],
                            **({"form": rng.choice(["col", "strided", "fortran", "scalar"])} if rng.random() < 0.35 else {})})
                if rng.random() < 0.06:
                    out[-1] = {"kind": "mapfn", "fn": out[-1]["fn"], "form": "int",
                               "d": [rng.choice([0, 0, 1, 1, 2, 3, 5, 7, 12, 20, 40, 178, 700]) for _ in range(rng.randint(1, 8))]}
            elif u < 0.35:
                nrun = rng.choice([1, 2, 2, 3, 4])
                labels = rng.sample([-7, -1, 0, 0, 1, 2, 3, 5, 8, 13, 255, 70000, 1000001, 1000002, 2 ** 53,
                                     2 ** 53 + 1], nrun)
                labels = list(dict.fromkeys(labels)) or [0]
                if rng.random() < 0.7:
                    labels.sort()
                chr_, gen = [], []
                # magnitudes: tiny steps (2^-30 ~ 1e-9, 2^-27 ~ 7e-9, 2^-17 ~ 8e-6) on a large common offset, exact ties
                gscale = rng.choice([64, 64, 64, 2 ** 17, 2 ** 27, 2 ** 30])
                # (offset + step must stay exactly representable: 1e9 needs 30 bits, so steps down to 2^-17 only)
                goff = rng.choice([0, 0, 25000, 3] + ([10 ** 9] if gscale <= 2 ** 17 else []))
                for c in labels:
                    nm = rng.choice([1, 2, 3, 3, 4, 6])
                    g = [rng.randint(0, 256) for _ in range(nm)]
                    if rng.random() < 0.75:
                        g.sort()
                    for x in g:
                        chr_.append(c)
                        gen.append("nan" if rng.random() < 0.04 else canon.enc(goff + Fraction(x, gscale)))
                if rng.random() < 0.12 and len(chr_) >= 3:
                    # labels NOT contiguous (outside the documented precondition of gdist1g): only the
                    # literal loop model is compared there, on the cells the loop writes
                    z = list(zip(chr_, gen))
                    rng.shuffle(z)
                    chr_, gen = [a for a, _ in z], [b for _, b in z]
                sl = None
                if rng.random() < 0.4:
                    n_ = len(chr_)
                    # python slice bounds: None, non-negative, negative (counted from the end), beyond the end
                    sl = {}
                    for a_, b_ in (("ast", "asp"), ("rst", "rsp"), ("cst", "csp")):
                        sl[a_], sl[b_] = self._gen_slice(rng, n_)
                gc = {"kind": "gdist", "cls": cls, "chr": chr_, "gen": gen, "slices": sl}
                if rng.random() < 0.3:
                    gc["aopts"] = {"chr_dt": rng.choice(["int64", "int32", "int8", "uint8", "uint64"]),
                                   "strided": rng.random() < 0.5}
                    if gc["aopts"]["chr_dt"].startswith("u"):
                        gc["chr"] = [abs(c) for c in chr_]
                    if gc["aopts"]["chr_dt"].endswith("int8"):
                        gc["chr"] = [c % 100 for c in gc["chr"]]
                    if not _contiguous(chr_) or not _contiguous(gc["chr"]) or (
                            gc["aopts"]["chr_dt"] == "int32" and max(abs(c) for c in gc["chr"]) >= 2 ** 31):
                        gc["chr"] = chr_
                        gc["aopts"]["chr_dt"] = "int64"
                out.append(gc)
            elif u < 0.53:
                out.append(self._gen_edit(rng, cls))
            elif u < 0.57:
                # spline kinds other than the default: step kinds and slinear through the Lean model, quadratic and
                # cubic against the kind-independent part of the clause only
                kind = rng.choice(["slinear", "previous", "next", "zero", "nearest", "nearest-up", "quadratic", "cubic"])
                rows = self._gen_map(rng, plain=kind in ("quadratic", "cubic"))
                if kind in ("quadratic", "cubic"):
                    # these need >= 3 / 4 knots per chromosome: top every chromosome up to 5 markers
                    extra = []
                    for c in sorted({r[0] for r in rows}):
                        ph = [int(r[1]) for r in rows if r[0] == c]
                        while len(ph) + sum(1 for e in extra if e[0] == c) < 5:
                            np_ = max(ph + [e[1] for e in extra if e[0] == c]) + rng.randint(1, 30)
                            extra.append([c, np_, canon.enc(Fraction(rng.randint(0, 192), 64)), 0])
                    rows = rows + extra
                    rng.shuffle(rows)
                    for t, r in enumerate(rows):
                        r[3] = t
                qchr, qphy = self._gen_queries(rng, rows)
                perm = self._gen_perm(rng, len(rows))
                out.append({"kind": "spline", "cls": cls, "spline_kind": kind, "rows": rows, "perm": perm,
                            "qchr": qchr, "qphy": qphy})
            elif u < 0.60:
                # duplicated sort keys with different riding columns: the stored order shows the STABILITY of the
                # three-pass lexsort (extended class only; such maps are outside the property's quantifier)
                rows = self._gen_map(rng, nchr=rng.choice([1, 2]))
                extra = []
                for r in rng.sample(rows, min(len(rows), rng.randint(1, 4))):
                    d = list(r)
                    if rng.random() < 0.5:
                        d[2] = canon.enc(Fraction(rng.randint(0, 192), 64))     # same (chr, phy), other genpos
                    extra.append(d)
                rows = rows + extra
                rng.shuffle(rows)
                for t, r in enumerate(rows):
                    r[3] = t
                out.append({"kind": "sortdup", "cls": "ext", "rows": rows})
            elif u < 0.75:
                mo = self._gen_mopts(rng, cls)
                rows = self._gen_map(rng, mopts=mo)
                qsorted = rng.random() < 0.5
                qchr, qphy = self._gen_queries(rng, rows, sort=qsorted)
                perm = self._gen_perm(rng, len(rows))
                ic = {"kind": "interp", "cls": cls, "auto_group": rng.random() < 0.7, "rows": rows,
                      "perm": perm, "qchr": qchr, "qphy": qphy, "qsorted": qsorted,
                      **({"mopts": mo} if mo else {})}
                if rng.random() < 0.3:
                    n_ = len(qchr)
                    ic["pslices"] = {}
                    for a_, b_ in (("ast", "asp"), ("rst", "rsp"), ("cst", "csp")):
                        ic["pslices"][a_], ic["pslices"][b_] = self._gen_slice(rng, n_)
                if rng.random() < 0.3:
                    ic["qdt"] = rng.choice(["int32", "uint32", "uint64", "int64"])
                out.append(ic)
            else:
                mo = self._gen_mopts(rng, cls)
                rows = self._gen_map(rng, mopts=mo)
                mchr, mphy = self._gen_queries(rng, rows, nq=rng.randint(1, 14))
                # variants of a matrix: distinct (chr, phy) so that the grouping order is determined
                seen, c2, p2 = set(), [], []
                for c, p in zip(mchr, mphy):
                    if (c, p) not in seen:
                        seen.add((c, p))
                        c2.append(c)
                        p2.append(p)
                fn = rng.choice(["haldane", "kosambi"])
                pre_chr = None
                if rng.random() < 0.4:
                    # history on the MATRIX: grouped under other labels (chromosome boundaries elsewhere), then its
                    # chromosome labels re-assigned through the vrnt_chrgrp property before any placement
                    c2, p2, pre_chr = self._gen_prechr(rng, c2, p2)
                case = {"kind": "xoprob", "cls": cls, "fn": fn,
                        "phased": rng.random() < 0.5, "rows": rows, "mchr": c2, "mphy": p2,
                        **({"mopts": mo} if mo else {}), **({"pre_chr": pre_chr} if pre_chr else {})}
                if rng.random() < 0.7:
                    # history on ONE matrix object: several placements on two different maps / map functions,
                    # optionally starting from unrelated preset positions / probabilities
                    labels = sorted({r[0] for r in rows})
                    if rng.random() < 0.3 and len(labels) > 1:
                        labels = labels[:-1] + [31]        # one chromosome replaced by another one
                    case["rows2"] = self._gen_map(rng, labels=labels, like=rows, mopts=mo)
                    nst = rng.randint(1, 4)
                    steps = [{"op": rng.choice(["xoprob", "xoprob", "genpos"]), "map": rng.randint(0, 1),
                              "fn": rng.choice(["haldane", "kosambi"])} for _ in range(nst)]
                    if nst >= 2 and all(st["map"] == steps[0]["map"] for st in steps):
                        steps[-1]["map"] = 1 - steps[0]["map"]
                    case["steps"] = steps
                    case["preset"] = None
                    if rng.random() < 0.5:
                        nv = len(c2)
                        case["preset"] = {
                            "genpos": [canon.enc(Fraction(rng.randint(200, 900), 64)) for _ in range(nv)],
                            "xoprob": ([canon.enc(Fraction(rng.randint(1, 31), 64)) for _ in range(nv)]
                                       if rng.random() < 0.6 else None)}
                out.append(case)
        return out

    # ------------------------------------------------------------------ implementation
    def run_impl(self, case):
        k = case["kind"]
        if k == "mapfn":
            fn = _mapfn(case["fn"])
            d = numpy.array([_f(x) for x in case["d"]], dtype=float)
            form = case.get("form")
            # "an array of any shape": column / row matrix, non-contiguous view, Fortran-ordered square, 0-d scalars
            if form == "col":
                d = d.reshape(-1, 1)
            elif form == "strided":
                d = _strided(d)
            elif form == "fortran":
                # Fortran-ordered rectangle: cell (i, j) holds distance number (i + 2 j) mod k
                k_ = len(d)
                ix = (numpy.arange(k_)[:, None] + 2 * numpy.arange(k_ + 1)[None, :]) % k_     # k x (k+1), not symmetric
                d = numpy.asfortranarray(d[ix])
            elif form == "int":
                d = d.astype("int64")          # integer-valued distances in an integer array
            d0 = d.copy()
            if form == "scalar":
                r = numpy.array([fn.mapfn(numpy.float64(x)) for x in d], dtype=float)
                dinv = numpy.array([fn.invmapfn(numpy.float64(x)) for x in r], dtype=float)
                shape_ok = True
            else:
                r = fn.mapfn(d)
                dinv = fn.invmapfn(r)
                shape_ok = r.shape == d.shape and dinv.shape == d.shape
                if form == "fortran" and shape_ok:
                    # column 0 holds the distances in order; every other cell must carry the answer column 0 gives
                    # for the same distance
                    shape_ok = bool(numpy.array_equal(r, r[:, 0][ix], equal_nan=True) and
                                    numpy.array_equal(dinv, dinv[:, 0][ix], equal_nan=True))
                    r, dinv = r[:, 0], dinv[:, 0]
            return {"r": canon.enc(numpy.ravel(r)), "dinv": canon.enc(numpy.ravel(dinv)), "shape_ok": bool(shape_ok),
                    "input_untouched": bool(numpy.array_equal(d, d0))}
        if k == "gdist":
            base = [[1, 10, 0, 0], [1, 20, "1/2", 1]]
            g = _build_map(case["cls"], base)
            ao = case.get("aopts") or {}
            chr_ = numpy.array(case["chr"], dtype=ao.get("chr_dt", "int64"))
            gen = numpy.array([_f(x) for x in case["gen"]], dtype=float)
            if ao.get("strided") and len(chr_):
                chr_, gen = _strided(chr_), _strided(gen)
            chr0, gen0 = chr_.copy(), gen.copy()
            obs = {"d1": canon.enc(g.gdist1g(chr_, gen)), "d2": canon.enc(g.gdist2g(chr_, gen))}
            sl = case.get("slices")
            if sl:
                obs["d1s"] = canon.enc(g.gdist1g(chr_, gen, sl["ast"], sl["asp"]))
                obs["d2s"] = canon.enc(g.gdist2g(chr_, gen, sl["rst"], sl["rsp"], sl["cst"], sl["csp"]))
            # the arrays the caller handed in still hold what the distances were computed from
            obs["input_untouched"] = bool(numpy.array_equal(chr_, chr0) and numpy.array_equal(gen, gen0, equal_nan=True))
            return obs
        if k == "interp":
            rows = case["rows"]
            mo = case.get("mopts")
            g = _build_map(case["cls"], rows, case["auto_group"], mo)
            stored0, tags_ok0 = _stored(case["cls"], g)     # before any call that may group as a side effect
            meta0 = None
            if g.is_grouped():
                meta0 = [[int(a), int(b), int(c), int(d)] for a, b, c, d in
                         zip(g.vrnt_chrgrp_name, g.vrnt_chrgrp_stix, g.vrnt_chrgrp_spix, g.vrnt_chrgrp_len)]
            qchr = numpy.array(case["qchr"], dtype=int)
            qphy = numpy.array(case["qphy"], dtype=int)
            qd = case.get("qdt")
            if qd and min(case["qphy"]) >= 0 and min(case["qchr"]) >= 0 and \
                    max(case["qphy"]) + 2 < numpy.iinfo(qd).max and max(case["qchr"]) < 127:
                qphy = qphy.astype(qd)
                qchr = qchr.astype("uint8" if qd.startswith("u") else "int8")
                if qd == "uint64":
                    qchr, qphy = _strided(qchr), _strided(qphy)
            out = g.interp_genpos(qchr, qphy)
            obs = {"stored": stored0, "tags_ok": tags_ok0, "meta": meta0, "out": canon.enc(out)}
            if case["auto_group"]:
                obs["congruence"] = canon.enc(g.congruence())
                obs["is_congruent"] = bool(g.is_congruent())
            # a second map object from the same rows supplied in another order
            g2 = _build_map(case["cls"], [rows[i] for i in case["perm"]], case["auto_group"], mo)
            stored2, tags_ok2 = _stored(case["cls"], g2)
            obs["out2"] = canon.enc(g2.interp_genpos(qchr, qphy))
            obs["stored2"] = stored2
            if case["auto_group"]:
                obs["is_congruent2"] = bool(g2.is_congruent())
            obs["tags_ok"] = tags_ok0 and tags_ok2
            # interp_gmap: new map object carrying the interpolated positions
            if case["cls"] == "std":
                gm = g.interp_gmap(qchr, qphy)
            else:
                gm = g.interp_gmap(qchr, qphy, qphy + 1)
            obs["gmap_genpos"] = canon.enc(gm.vrnt_genpos)
            obs["gmap_labels_ok"] = bool(numpy.array_equal(gm.vrnt_chrgrp, qchr) and
                                         numpy.array_equal(gm.vrnt_phypos, qphy))
            obs["d2p"] = canon.enc(g.gdist2p(qchr, qphy))
            if case["qsorted"]:
                obs["d1p"] = canon.enc(g.gdist1p(qchr, qphy))
            # the optional slice arguments of gdist1p / gdist2p
            sl = case.get("pslices")
            if sl:
                obs["d2ps"] = canon.enc(g.gdist2p(qchr, qphy, sl["rst"], sl["rsp"], sl["cst"], sl["csp"]))
                if case["qsorted"]:
                    obs["d1ps"] = canon.enc(g.gdist1p(qchr, qphy, sl["ast"], sl["asp"]))
            # the SAME query array object edited in place and handed in again (an answer remembered per array
            # object would be stale)
            qmut = qphy.copy()
            g.interp_genpos(qchr, qmut)
            qmut += 1
            obs["out_inplace"] = canon.enc(g.interp_genpos(qchr, qmut))
            # the object as it stands after all these read-only calls, asked at ITS OWN stored markers
            end_rows, _ = _stored(case["cls"], g)
            obs["own_end"] = {"stored": [r[2] for r in end_rows],
                              "out": canon.enc(g.interp_genpos(g.vrnt_chrgrp.copy(), g.vrnt_phypos.copy()))}
            # distances of the stored map itself (the constructor grouped it, so its own label array must
            # meet the precondition of gdist1g)
            if case["auto_group"]:
                g3 = _build_map(case["cls"], rows, True, mo)
                obs["stored3"] = _stored(case["cls"], g3)[0]
                obs["d1_stored"] = canon.enc(g3.gdist1g(g3.vrnt_chrgrp, g3.vrnt_genpos))
                obs["d2_stored"] = canon.enc(g3.gdist2g(g3.vrnt_chrgrp, g3.vrnt_genpos))
                # (the map's own arrays were handed in: they must still hold the map)
                obs["stored3_untouched"] = _stored(case["cls"], g3)[0] == obs["stored3"]
            return obs
        if k == "spline":
            def build(rows):
                if case["cls"] == "std":
                    m_ = _mods()
                    chr_ = numpy.array([r[0] for r in rows], dtype=int)
                    phy = numpy.array([int(Fraction(r[1])) for r in rows], dtype=int)
                    gen = numpy.array([_f(r[2]) for r in rows], dtype=float)
                    return m_["sgm"].StandardGeneticMap(chr_, phy, gen, spline_kind=case["spline_kind"])
                # the extended constructor builds its spline with the default kind whatever `spline_kind` says:
                # build the requested kind explicitly
                g_ = _build_map("ext", rows)
                g_.build_spline(kind=case["spline_kind"])
                return g_
            qchr = numpy.array(case["qchr"], dtype=int)
            qphy = numpy.array(case["qphy"], dtype=int)
            g = build(case["rows"])
            g2 = build([case["rows"][i] for i in case["perm"]])
            return {"out": canon.enc(g.interp_genpos(qchr, qphy)), "out2": canon.enc(g2.interp_genpos(qchr, qphy)),
                    "kind_stored": str(g.spline_kind)}
        if k == "sortdup":
            g = _build_map(case["cls"], case["rows"])
            stored, tags_ok = _stored(case["cls"], g)
            return {"stored": stored, "tags_ok": tags_ok}
        if k == "edit":
            return self._run_edit(case)
        if k == "big":
            return self._run_big(case)
        if k == "xoprob":
            m = _mods()
            mo = case.get("mopts")
            maps = [_build_map(case["cls"], case["rows"], True, mo)]
            if case.get("rows2"):
                maps.append(_build_map(case["cls"], case["rows2"], True, mo))
            g = maps[0]
            fn = _mapfn(case["fn"])
            nv = len(case["mchr"])
            vc = numpy.array(case["mchr"], dtype=int)
            vp = numpy.array(case["mphy"], dtype=int)
            kw = {}
            pre = case.get("preset")
            if pre:
                kw["vrnt_genpos"] = numpy.array([_f(x) for x in pre["genpos"]], dtype=float)
                if pre.get("xoprob") is not None:
                    kw["vrnt_xoprob"] = numpy.array([_f(x) for x in pre["xoprob"]], dtype=float)
            pre_chr = case.get("pre_chr")
            if pre_chr:
                vc = numpy.array(pre_chr, dtype=int)          # the labels the matrix is grouped under
            if case["phased"]:
                mat = numpy.zeros((2, 2, nv), dtype="int8")
                gm = m["dpgm"].DensePhasedGenotypeMatrix(mat, vrnt_chrgrp=vc, vrnt_phypos=vp, **kw)
            else:
                mat = numpy.zeros((2, nv), dtype="int8")
                gm = m["dgm"].DenseGenotypeMatrix(mat, vrnt_chrgrp=vc, vrnt_phypos=vp, **kw)
            gm.group_vrnt()
            if pre_chr:
                # chromosome labels re-assigned AFTER grouping (still ascending; the chromosome boundaries move):
                # whatever the matrix cached when it was grouped no longer describes its label array
                fin = {(int(a), int(p)): int(c) for a, p, c in zip(pre_chr, case["mphy"], case["mchr"])}
                gm.vrnt_chrgrp = numpy.array([fin[(int(a), int(p))] for a, p in zip(gm.vrnt_chrgrp, gm.vrnt_phypos)],
                                             dtype=int)

            def snap():
                return {"genpos": None if gm.vrnt_genpos is None else canon.enc(numpy.array(gm.vrnt_genpos)),
                        "xoprob": None if gm.vrnt_xoprob is None else canon.enc(numpy.array(gm.vrnt_xoprob))}
            snaps = [snap()]           # state after grouping, before any placement
            for st in self._steps(case):
                if st["op"] == "xoprob":
                    gm.interp_xoprob(maps[st["map"]], _mapfn(st["fn"]))
                else:
                    gm.interp_genpos(maps[st["map"]])
                snaps.append(snap())
            qc, qp = gm.vrnt_chrgrp, gm.vrnt_phypos
            # a SECOND matrix (same shape, other positions) placed on the same maps afterwards, and the maps asked
            # again: what the first matrix holds must not move (no buffer shared between calls / objects)
            if case["phased"]:
                gm2 = m["dpgm"].DensePhasedGenotypeMatrix(numpy.zeros((2, 2, nv), dtype="int8"), vrnt_chrgrp=qc.copy(),
                                                          vrnt_phypos=qp + 3)
            else:
                gm2 = m["dgm"].DenseGenotypeMatrix(numpy.zeros((2, nv), dtype="int8"), vrnt_chrgrp=qc.copy(),
                                                   vrnt_phypos=qp + 3)
            gm2.group_vrnt()
            for mp in maps:
                gm2.interp_xoprob(mp, fn)
                mp.interp_genpos(qc, qp + 1)
            after = snap()
            alias_ok = after == snaps[-1]
            gp = g.interp_genpos(qc, qp)
            # the four rprob wrappers are BY DEFINITION the map function of the corresponding distance arrays: compared
            # with what the same objects return for mapfn(gdist..) (both sides are implementation outputs)
            rbad = []
            with numpy.errstate(all="ignore"):
                for nm_, got, dist in (("rprob1p", fn.rprob1p(g, qc, qp), g.gdist1p(qc, qp)),
                                       ("rprob2p", fn.rprob2p(g, qc, qp), g.gdist2p(qc, qp)),
                                       ("rprob1g", fn.rprob1g(g, qc, gp), g.gdist1g(qc, gp)),
                                       ("rprob2g", fn.rprob2g(g, qc, gp), g.gdist2g(qc, gp))):
                    want = fn.mapfn(dist)
                    if numpy.shape(got) != numpy.shape(want) or not numpy.allclose(got, want, rtol=1e-12, atol=1e-15, equal_nan=True):
                        rbad.append(nm_)
            return {"qchr": canon.enc(qc), "qphy": canon.enc(qp), "snaps": snaps, "alias_ok": alias_ok, "rprob_bad": rbad,
                    "genpos": snaps[-1]["genpos"], "xoprob": snaps[-1]["xoprob"],
                    # the four rprob wrappers of the map-function class on the same variants
                    "r1p": canon.enc(fn.rprob1p(g, qc, qp)), "r2p": canon.enc(fn.rprob2p(g, qc, qp)),
                    "r1g": canon.enc(fn.rprob1g(g, qc, gp)), "r2g": canon.enc(fn.rprob2g(g, qc, gp))}
        raise ValueError(k)

    @staticmethod
    def _index_arg(o, n):
        """the index argument of remove / select in the requested form"""
        idx, form = o["idx"], o.get("form", "list")
        if form == "neg":
            return numpy.array([i - n for i in idx], dtype=int)
        if form == "mask":
            mk = numpy.zeros(n, dtype=bool)
            mk[idx] = True
            return mk
        if form == "slice":
            return slice(*o["slice"])
        if form == "int":
            return int(idx[0])
        if form == "pylist":
            return [int(i) for i in idx]
        if form == "mixneg":
            # rows of the second half counted from the end: numerically "ascending" arrays like [-2, -1, 0, 1] wrap
            # around (last rows first)
            return numpy.array([i - n if 2 * i >= n else i for i in idx], dtype=int)
        return numpy.array(idx, dtype=int)

    def _run_edit(self, case):
        cls = case["cls"]
        mo = case.get("mopts") or {}
        g = _build_map(cls, case["rows"], case["auto_group"], mo)
        q0 = list(zip(case["qchr"], case["qphy"]))
        done, snaps = [], []
        built_from = None if mo.get("no_spline") else _stored(cls, g)[0]   # rows the current spline was built from
        kept = []                                   # (object a copy was taken from, its state at that moment)
        next_tag = [1000]

        def counts_ok():
            _, cnt = numpy.unique(g.vrnt_chrgrp, return_counts=True)
            return len(cnt) > 0 and bool((cnt >= 2).all())

        def ask(obj, qs):
            """interp_genpos with the designed rejection (no spline) and the exceptions numpy raises when the
            stored metadata does not fit the arrays told apart from everything else"""
            qc = numpy.array([c for c, _ in qs], dtype=int)
            qp = numpy.array([x for _, x in qs], dtype=int)
            if not obj.has_spline():
                try:
                    obj.interp_genpos(qc, qp)
                except (ValueError, RuntimeError) as e:
                    if "spline not built" in str(e):
                        return None, None
                    raise
                raise AssertionError("interp_genpos answered without a spline")
            try:
                return canon.enc(obj.interp_genpos(qc, qp)), None
            except (ValueError, IndexError) as e:
                if "spline not built" in str(e):
                    raise
                return None, type(e).__name__

        def snap(step, outv, raised):
            stored, tags_ok = _stored(cls, g)
            done.append(step)
            snaps.append({"stored": stored, "tags_ok": tags_ok, "meta": _meta(g), "out": outv, "raised": raised,
                          "built_from": built_from})

        order_dep = None
        for o in case["ops"]:
            n = len(g.vrnt_chrgrp)
            rec, raised = dict(o), None
            if o["op"] in ("remove", "select"):
                idx = o["idx"]
                if not idx or max(idx) >= n or (o["op"] == "remove" and n - len(set(idx)) < 1):
                    continue
                if o.get("form") == "slice" and list(range(n))[slice(*o["slice"])] != idx:
                    continue
                arg = self._index_arg(o, n)
                twin = None
                if o["op"] == "select" and o.get("form", "list") != "mask" and list(idx) != sorted(idx):
                    # the same markers supplied in ascending order to a copy of the object as it stands
                    import copy as _cp
                    twin = _cp.deepcopy(g)
                (g.remove if o["op"] == "remove" else g.select)(arg)
                rec = {"op": o["op"], "idx": sorted(set(idx)) if o["op"] == "remove" else idx, "form": o.get("form", "list")}
                if twin is not None:
                    twin.select(numpy.array(sorted(idx), dtype=int))
                    order_dep = self._order_dependence(cls, g, twin, q0)
            elif o["op"] == "rd":
                try:
                    g.remove_discrepancies()
                except (ValueError, IndexError) as e:
                    raised = type(e).__name__
            elif o["op"] == "prune":
                if _meta(g) is not None and _meta(g) != _true_meta(_stored(cls, g)[0]):
                    continue                       # metadata does not describe the arrays: prune is not modelled there
                g.prune(nt=o["nt"], M=None if o["M"] is None else _f(o["M"]))
            elif o["op"] == "build":
                if not counts_ok() or not numpy.isfinite(g.vrnt_genpos).all():   # interp1d needs two knots per chromosome
                    continue
                g.build_spline()
                built_from = _stored(cls, g)[0]
            elif o["op"] == "group":
                g.group()
            elif o["op"] == "ungroup":
                g.ungroup()
            elif o["op"] == "reorder":
                if sorted(o["idx"]) != list(range(n)):
                    continue
                g.reorder(numpy.array(o["idx"], dtype=int))
            elif o["op"] == "sort":
                kname = o.get("keys")
                if kname is None:
                    g.sort()
                    rec = {"op": "sort"}
                else:
                    chr_, phy, gen = g.vrnt_chrgrp, g.vrnt_phypos, g.vrnt_genpos
                    if kname == "phy":
                        keys = phy.copy()
                        klist = [keys]
                    elif kname == "gen_desc_chr":
                        keys = (-gen, chr_.copy())
                        klist = list(keys)
                    else:
                        keys = (phy.copy(), -chr_.astype("int64"))
                        klist = list(keys)
                    g.sort(keys)
                    # the model gets the key arrays themselves (numpy.lexsort is modelled: one stable pass per key)
                    rec = {"op": "sort", "keys": [canon.enc(numpy.asarray(k_)) for k_ in klist]}
            elif o["op"] == "copy":
                outv, r0 = ask(g, q0)             # (groups an ungrouped map: recorded as a step of its own)
                snap({"op": "interp", "qchr": [c for c, _ in q0], "qphy": [x for _, x in q0]}, outv, r0)
                kept.append((g, _stored(cls, g), _meta(g), outv, r0, built_from))
                g = g.deepcopy() if o["deep"] else g.copy()
            elif o["op"] == "assign":
                chr_, phy, gen = g.vrnt_chrgrp, g.vrnt_phypos, g.vrnt_genpos
                tags = [r[3] for r in _stored(cls, g)[0]]
                new_phy, new_gen = None, None

                def reflect():
                    # every chromosome reflected inside ITS OWN range (a query at a marker of the edited map stays
                    # within the range of the spline built before the edit: no extrapolation over many orders of
                    # magnitude, whose float error is a matter of conditioning, not of the code)
                    lim = {int(c): (int(phy[chr_ == c].min()), int(phy[chr_ == c].max())) for c in numpy.unique(chr_)}
                    return numpy.array([lim[int(c)][0] + lim[int(c)][1] - int(x) for c, x in zip(chr_, phy)], dtype=phy.dtype)
                if o["mode"] == "gen_affine":
                    new_gen = gen * 2.0 + 0.25
                elif o["mode"] == "gen_reverse":
                    new_gen = gen.copy()
                    for c in numpy.unique(chr_):
                        new_gen[chr_ == c] = gen[chr_ == c][::-1]
                elif o["mode"] == "phy_reflect":
                    new_phy = reflect()
                elif o["mode"] == "gen_inplace":
                    # the SAME array object edited in place (no setter call: what a cache keyed on the array misses)
                    # (arrays that came out of pandas are read-only views: those are re-assigned instead)
                    if gen.flags.writeable:
                        gen *= 2.0
                        gen += 0.25
                    else:
                        new_gen = gen * 2.0 + 0.25
                elif o["mode"] == "phy_inplace":
                    refl = reflect()
                    if phy.flags.writeable and (cls != "ext" or g.vrnt_stop.flags.writeable):
                        phy[:] = refl
                        if cls == "ext":
                            g.vrnt_stop[:] = numpy.array([int(x) + 7 + t for x, t in zip(phy, tags)], dtype=int)
                    else:
                        new_phy = refl
                else:
                    new_phy = phy.copy()
                    for c in numpy.unique(chr_):
                        new_phy[chr_ == c] = numpy.roll(phy[chr_ == c], 1)
                if new_gen is not None:
                    g.vrnt_genpos = new_gen
                if new_phy is not None:
                    g.vrnt_phypos = new_phy
                    if cls == "ext":
                        g.vrnt_stop = numpy.array([int(x) + 7 + t for x, t in zip(new_phy, tags)], dtype=int)
                rec = {"op": "assign", "mode": o["mode"], "rows": _stored(cls, g)[0]}
            elif o["op"] == "interp_gmap":
                if not g.has_spline() or not set(o["qchr"]) <= {int(c) for c in g.spline.keys()}:
                    continue
                qc = numpy.array(o["qchr"], dtype=int)
                qp = numpy.array(o["qphy"], dtype=int)
                tags = list(range(next_tag[0], next_tag[0] + len(qc)))
                next_tag[0] += len(qc)
                try:
                    if cls == "std":
                        d = g.interp_gmap(qc, qp)
                    else:
                        nm = None if mo.get("names_none") else numpy.array([f"m{t}" for t in tags], dtype=object)
                        fc = None if mo.get("names_none") else numpy.array([f"f{t}" for t in tags], dtype=object)
                        d = g.interp_gmap(qc, qp, numpy.array([int(x) + 7 + t for x, t in zip(qp, tags)], dtype=int),
                                          vrnt_name=nm, vrnt_fncode=fc)
                    # the derived map is the object the history continues on; the parent must not be affected by it
                    rec = {**o, "tags": tags, "impl_gen": canon.enc(d.vrnt_genpos)}
                    outp, rp = ask(g, q0)
                    kept.append((g, _stored(cls, g), _meta(g), outp, rp, built_from))
                    g = d
                except (ValueError, IndexError) as e:
                    if "spline not built" in str(e):
                        raise
                    raised = type(e).__name__
                    rec = {**o, "tags": tags}
            else:
                raise ValueError(o["op"])
            snap(rec, None, raised)
            if o["op"] == "select" and order_dep:
                snaps[-1]["order_dep"] = order_dep
            order_dep = None
            # interrogate: the case's queries, plus markers of the map as it stands now (own-marker law) and
            # points between neighbours of the stored arrays
            cur = _stored(cls, g)[0]
            own_rows = cur[::max(1, len(cur) // 6)][:8]
            own = [(r[0], int(r[1])) for r in own_rows]
            mids = []
            by = {}
            for r in cur:
                by.setdefault(r[0], []).append(int(r[1]))
            for c, ps in by.items():
                ps.sort()
                mids += [(c, (a_ + b_) // 2) for a_, b_ in zip(ps, ps[1:]) if b_ - a_ > 1][:2]
            qs = q0 + own + mids[:4]
            outv, r1 = ask(g, qs)
            snap({"op": "interp", "qchr": [c for c, _ in qs], "qphy": [x for _, x in qs]}, outv, r1)
            snaps[-1]["own_at"], snaps[-1]["own_gen"] = len(q0), [r[2] for r in own_rows]
        # final state: distances of the stored arrays; is_congruent() groups an ungrouped map, so ask it last
        fin = {}
        cur = _stored(cls, g)[0]
        if 0 < len(cur) <= 24:
            chr_, gen = g.vrnt_chrgrp, g.vrnt_genpos
            fin = {"chr": [r[0] for r in cur], "gen": [r[2] for r in cur],
                   "d2": canon.enc(g.gdist2g(chr_, gen))}
            # sequential distances over the map's OWN markers: asked whenever the label array meets the documented
            # precondition of gdist1g, and whenever the object itself reports is_grouped() ("sorted and grouped")
            if _contiguous(fin["chr"]) or g.is_grouped():
                fin["d1"] = canon.enc(g.gdist1g(chr_, gen))
        try:
            cong = bool(g.is_congruent())
        except (ValueError, IndexError) as e:
            cong = _ERR[type(e).__name__]
        # objects copies were taken from must not have been touched by what happened to the copies
        alias_ok = True
        kept_final = []
        for obj, st0, me0, out0, r0, bf in kept:
            out1, r1 = ask(obj, q0)
            alias_ok = alias_ok and (_stored(cls, obj) == st0 and _meta(obj) == me0 and out1 == out0 and r1 == r0)
            # ... and must still obey the interpolation clause for the rows ITS spline was built from
            if bf is not None and not r1:
                qs = q0 + [(r[0], int(r[1])) for r in bf][::max(1, len(bf) // 6)][:8]
                o2, r2 = ask(obj, qs)
                if o2 is not None:
                    kept_final.append({"rows": bf, "qchr": [c for c, _ in qs], "qphy": [x for _, x in qs], "out": o2})
        return {"done": done, "snaps": snaps, "is_congruent": cong, "final": fin, "alias_ok": alias_ok,
                "kept_final": kept_final}

    @staticmethod
    def _order_dependence(cls, g, twin, q0):
        """`g` and `twin` hold the SAME markers, selected from the same object in two different orders.  Where either
        reports is_grouped() (documented: sorted and grouped), what the property speaks about must not differ: the
        sequential distances over the object's own markers, is_congruent(), interp_genpos at the case's queries.
        Returns the list of differences (empty = none)."""
        import copy as _cp
        if not (g.is_grouped() or twin.is_grouped()):
            return []
        dep = []

        def own_d1(obj):
            try:
                with numpy.errstate(all="ignore"):
                    return canon.enc(obj.gdist1g(obj.vrnt_chrgrp, obj.vrnt_genpos))
            except (ValueError, IndexError) as e:
                return type(e).__name__

        def cong(obj):
            try:
                return bool(_cp.deepcopy(obj).is_congruent())
            except (ValueError, IndexError) as e:
                return type(e).__name__

        def ans(obj):
            if not obj.has_spline():
                return None
            try:
                return canon.enc(obj.interp_genpos(numpy.array([c for c, _ in q0], dtype=int),
                                                   numpy.array([x for _, x in q0], dtype=int)))
            except (ValueError, IndexError) as e:
                return type(e).__name__
        a, b = own_d1(g), own_d1(twin)
        if a != b:
            dep.append(f"sequential distances over its own markers {a} (ascending indices: {b})")
        a, b = cong(g), cong(twin)
        if a != b:
            dep.append(f"is_congruent() {a} (ascending indices: {b})")
        a, b = ans(_cp.deepcopy(g)), ans(_cp.deepcopy(twin))
        if a != b:
            dep.append(f"interp_genpos {a} (ascending indices: {b})")
        if dep:
            dep.append(f"stored (chr, phy) {[(r[0], r[1]) for r in _stored(cls, g)[0]]}")
        return dep

    def _run_big(self, case):
        """sizes past every plausible internal constant (chunks of 1024 / 4096, int8 / int16 counters): maps with
        hundreds to thousands of markers per chromosome.  The arrays are too large for the JSON bridge, so the
        clauses are evaluated here, in numpy, on exactly representable data (integer physical positions, dyadic
        genetic positions: every float operation the clauses involve is exact)."""
        import random as _r
        m = _mods()
        rng = _r.Random(case["seed"])
        cls = case["cls"]
        rows = []
        for ci, nm in enumerate(case["counts"]):
            c = 3 * ci + 1
            phys = sorted(rng.sample(range(1, 40 * nm), nm))
            gen, acc = [], 0
            for _ in range(nm):
                acc += rng.choice([0, 1, 1, 2, 3, 5])
                gen.append(acc)
            rows += [[c, p_, canon.enc(Fraction(x, 1024)), 0] for p_, x in zip(phys, gen)]
        srt = [list(r) for r in rows]
        rng.shuffle(rows)
        for t, r in enumerate(rows):
            r[3] = t
        g = _build_map(cls, rows, True, case.get("mopts"))
        bad = []
        chr_s = numpy.array([r[0] for r in srt])
        phy_s = numpy.array([r[1] for r in srt])
        gen_s = numpy.array([_f(r[2]) for r in srt])
        n = len(srt)
        # constructor: stored arrays are the rows sorted by (chromosome, physical position)
        if not (numpy.array_equal(g.vrnt_chrgrp, chr_s) and numpy.array_equal(g.vrnt_phypos, phy_s)
                and numpy.array_equal(g.vrnt_genpos, gen_s)):
            bad.append("stored arrays are not the rows sorted by (chromosome, physical position)")
        # own markers, midpoints of flanking markers, absent chromosome
        own = g.interp_genpos(chr_s, phy_s)
        if not numpy.allclose(own, gen_s, rtol=1e-12, atol=1e-12):
            i = int(numpy.argmax(~numpy.isclose(own, gen_s, rtol=1e-12, atol=1e-12)))
            bad.append(f"own marker {i} (chr {chr_s[i]}, pos {phy_s[i]}): stored {gen_s[i]!r}, interpolated {own[i]!r}")
        same = chr_s[1:] == chr_s[:-1]
        gap = same & (phy_s[1:] - phy_s[:-1] > 1)
        qc, lo, hi = chr_s[1:][gap], phy_s[:-1][gap], phy_s[1:][gap]
        qx = (lo + hi) // 2
        want = gen_s[:-1][gap] + (gen_s[1:][gap] - gen_s[:-1][gap]) * (qx - lo) / (hi - lo)
        got = g.interp_genpos(qc, qx)
        if not numpy.allclose(got, want, rtol=1e-9, atol=1e-12):
            i = int(numpy.argmax(~numpy.isclose(got, want, rtol=1e-9, atol=1e-12)))
            bad.append(f"between flanking markers (chr {qc[i]}, pos {qx[i]}): chord {want[i]!r}, interpolated {got[i]!r}")
        if not numpy.isnan(g.interp_genpos(numpy.array([2, 2]), numpy.array([5, 50000]))).all():
            bad.append("absent chromosome not reported missing")
        # sequential / pairwise distances of the stored map
        d1 = g.gdist1g(g.vrnt_chrgrp, g.vrnt_genpos)
        start = numpy.concatenate(([True], ~same))
        exp1 = numpy.where(start, numpy.inf, numpy.concatenate(([0.0], gen_s[1:] - gen_s[:-1])))
        if not numpy.array_equal(d1, exp1):
            i = int(numpy.argmax(d1 != exp1))
            bad.append(f"gdist1g cell {i}: {d1[i]!r}, expected {exp1[i]!r}")
        a_, b_ = max(0, n // 2 - 40), min(n, n // 2 + 40)
        for (rst, rsp, cst, csp) in ((None, None, None, None) if n <= 2500 else (a_, b_, None, None),
                                     (1000, 1060, 990, min(n, 1100)), (a_, b_, a_, b_)):
            d2 = g.gdist2g(g.vrnt_chrgrp, g.vrnt_genpos, rst, rsp, cst, csp)
            ci_, cj_ = chr_s[rst:rsp][:, None], chr_s[cst:csp][None, :]
            exp2 = numpy.where(ci_ == cj_, numpy.abs(gen_s[rst:rsp][:, None] - gen_s[cst:csp][None, :]), numpy.inf)
            if d2.shape != exp2.shape or not numpy.array_equal(d2, exp2):
                bad.append(f"gdist2g[{rst}:{rsp}, {cst}:{csp}] differs from |gi - gj| / inf between chromosomes")
        s1 = g.gdist1g(g.vrnt_chrgrp, g.vrnt_genpos, 1000, min(n, 1100))
        e1 = exp1[1000:min(n, 1100)].copy()
        if len(e1):
            e1[0] = numpy.inf
        if not numpy.array_equal(s1, e1):
            bad.append("gdist1g[1000:1100] differs")
        # crossover probabilities of a matrix with as many variants
        fn = _mapfn(case["fn"])
        vc = numpy.concatenate((qc, chr_s[::7]))
        vp = numpy.concatenate((qx, phy_s[::7]))
        gm = m["dgm"].DenseGenotypeMatrix(numpy.zeros((2, len(vc)), dtype="int8"), vrnt_chrgrp=vc, vrnt_phypos=vp)
        gm.group_vrnt()
        gm.interp_xoprob(g, fn)
        vc2, vp2 = gm.vrnt_chrgrp, gm.vrnt_phypos
        gp = g.interp_genpos(vc2, vp2)
        if not numpy.array_equal(gm.vrnt_genpos, gp):
            bad.append("vrnt_genpos of the matrix is not interp_genpos of its variants")
        st2 = numpy.concatenate(([True], vc2[1:] != vc2[:-1]))
        expx = numpy.where(st2, 0.5, fn.mapfn(numpy.concatenate(([0.0], gp[1:] - gp[:-1]))))
        if not numpy.allclose(gm.vrnt_xoprob, expx, rtol=1e-12, atol=1e-15):
            i = int(numpy.argmax(~numpy.isclose(gm.vrnt_xoprob, expx, rtol=1e-12, atol=1e-15)))
            bad.append(f"vrnt_xoprob[{i}] = {gm.vrnt_xoprob[i]!r}, expected {expx[i]!r}")
        # map function on a long array of distances (monotone, inverse)
        d = numpy.arange(0, 3000) / 1024.0
        r = fn.mapfn(d)
        if not ((numpy.diff(r) >= 0).all() and r[0] == 0 and (r <= 0.5).all()
                and numpy.allclose(fn.invmapfn(r[:1500]), d[:1500], rtol=1e-9, atol=1e-12)):
            bad.append("map function on 3000 distances: not monotone / not undone by the inverse")
        return {"bad": bad, "n": n, "nvar": int(len(vc))}

    # ------------------------------------------------------------------ model requests
    def requests(self, case, obs):
        k = case["kind"]
        if k == "mapfn":
            return [{"op": "c11.mapfn", "fn": case["fn"], "d": case["d"]},
                    {"op": "c11.spec_mapfn", "fn": case["fn"], "d": case["d"], "r": obs["r"], "dinv": obs["dinv"]}]
        if k == "gdist":
            reqs = [{"op": "c11.gdist", "chr": case["chr"], "gen": case["gen"]},
                    {"op": "c11.spec_gdist", "chr": case["chr"], "gen": case["gen"], "d2": obs["d2"],
                     **({"d1": obs["d1"]} if _contiguous(case["chr"]) else {})}]
            if case.get("slices"):
                # python slice bounds (negative / beyond the end) as the non-negative bounds the model takes
                n_, sl = len(case["chr"]), case["slices"]
                norm = {}
                for a_, b_ in (("ast", "asp"), ("rst", "rsp"), ("cst", "csp")):
                    norm[a_], norm[b_], _ = slice(sl[a_], sl[b_]).indices(n_)
                reqs.append({"op": "c11.gdist", "chr": case["chr"], "gen": case["gen"], **norm})
            return reqs
        if k == "interp":
            q = {"qchr": case["qchr"], "qphy": case["qphy"]}
            return [{"op": "c11.construct", "rows": case["rows"]},
                    {"op": "c11.interp", "rows": case["rows"], **q},
                    {"op": "c11.spec_interp", "rows": case["rows"], **q, "out": obs["out"], "out2": obs["out2"]},
                    {"op": "c11.gdistp", "rows": case["rows"], **q},
                    # distance clause on the *interpolated* positions (gdist1p only for sorted queries)
                    {"op": "c11.spec_gdist", "chr": case["qchr"], "gen": obs["out"], "d2": obs["d2p"],
                     **({"d1": obs["d1p"]} if self._seq_ok(case) else {})},
                    # the array edited in place and asked again: the clause at the positions it holds NOW
                    {"op": "c11.spec_interp", "rows": case["rows"], "qchr": case["qchr"],
                     "qphy": [x + 1 for x in case["qphy"]], "out": obs["out_inplace"], "out2": obs["out_inplace"]},
                    # (the same with the optional slice arguments; a cheap placeholder keeps the positions when none are given)
                    ({"op": "c11.gdistp", "rows": case["rows"], **q, **self._norm_pslices(case)} if case.get("pslices")
                     else {"op": "c11.gdist", "chr": [], "gen": []})] + (
                    # distance clause on the stored arrays of the constructed (grouped) map
                    [{"op": "c11.spec_gdist", "chr": [r[0] for r in obs["stored3"]],
                      "gen": [r[2] for r in obs["stored3"]], "d1": obs["d1_stored"], "d2": obs["d2_stored"]}]
                    if case["auto_group"] else [])
        if k == "spline":
            q = {"rows": case["rows"], "qchr": case["qchr"], "qphy": case["qphy"]}
            lin = case["spline_kind"] == "slinear"
            reqs = [{"op": "c11.spec_interp", **q, "out": obs["out"], "out2": obs["out2"], "linear": lin,
                     "one_sided_missing": case["spline_kind"] in ("previous", "next")}]
            if case["spline_kind"] not in ("quadratic", "cubic"):
                reqs.append({"op": "c11.interpk", "spline_kind": case["spline_kind"], **q})
            return reqs
        if k == "sortdup":
            return [{"op": "c11.construct", "rows": case["rows"]}]
        if k == "big":
            return []
        if k == "edit":
            reqs = [{"op": "c11.edit", "rows": case["rows"], "auto_group": case["auto_group"],
                     "auto_spline": not (case.get("mopts") or {}).get("no_spline"), "ops": obs["done"]}]
            # the interpolation clause of the property, for the map the spline was built from
            for st, sn in zip(obs["done"], obs["snaps"]):
                if st["op"] == "interp" and sn["out"] is not None:
                    reqs.append({"op": "c11.spec_interp", "rows": sn["built_from"], "qchr": st["qchr"],
                                 "qphy": st["qphy"], "out": sn["out"], "out2": sn["out"]})
            # the distance clause on the arrays the object ends up with
            fin = obs.get("final") or {}
            if fin:
                reqs.append({"op": "c11.spec_gdist", "chr": fin["chr"], "gen": fin["gen"], "d2": fin["d2"],
                             **({"d1": fin["d1"]} if "d1" in fin else {})})
            # the interpolation clause on the objects copies / derived maps were taken from, asked at the very end
            for kf in obs.get("kept_final") or []:
                reqs.append({"op": "c11.spec_interp", "rows": kf["rows"], "qchr": kf["qchr"], "qphy": kf["qphy"],
                             "out": kf["out"], "out2": kf["out"]})
            return reqs
        if k == "xoprob":
            q = {"qchr": obs["qchr"], "qphy": obs["qphy"]}
            reqs = [{"op": "c11.rprob", "fn": case["fn"], "rows": case["rows"], **q}]
            for st, sn in zip(self._steps(case), obs["snaps"][1:]):
                rows = case["rows2"] if st["map"] == 1 else case["rows"]
                # model of this placement, and the Spec of the clause against the map ACTUALLY passed
                reqs.append({"op": "c11.xoprob", "fn": st["fn"], "rows": rows, **q})
                if st["op"] == "xoprob":
                    reqs.append({"op": "c11.spec_xoprob", "fn": st["fn"], "rows": rows, **q,
                                 "genpos": sn["genpos"] if sn["genpos"] is not None else [],
                                 "xoprob": sn["xoprob"] if sn["xoprob"] is not None else []})
                else:
                    gp = sn["genpos"] if sn["genpos"] is not None else []
                    reqs.append({"op": "c11.spec_interp", "rows": rows, **q, "out": gp, "out2": gp})
            return reqs
        raise ValueError(k)

    @staticmethod
    def _slice_law(d1, d2, d1s, d2s, sl, seq):
        """the distance arrays computed with the optional slice arguments are the corresponding parts of the full
        arrays (which are checked against the clause): pairwise [rst:rsp, cst:csp]; sequential [ast:asp] with +inf
        in its first cell.  `d1 = None` / `seq = False`: sequential part not asked (labels not contiguous)."""
        want2 = [row[sl["cst"]:sl["csp"]] for row in d2[sl["rst"]:sl["rsp"]]]
        if len(want2) != len(d2s) or any(len(a) != len(b) or not all(canon.close_enc(x, y, 1e-12, 0) for x, y in zip(a, b))
                                         for a, b in zip(want2, d2s)):
            return "pairwise distances with slice arguments differ from that part of the full matrix"
        if d1 is not None and seq:
            want1 = d1[sl["ast"]:sl["asp"]]
            if want1:
                want1 = ["inf"] + want1[1:]
            if len(want1) != len(d1s) or not all(canon.close_enc(x, y, 1e-12, 0) for x, y in zip(want1, d1s)):
                return "sequential distances with slice arguments differ from that part of the full array"
        return None

    @staticmethod
    def _norm_pslices(case):
        sl = case.get("pslices") or {}
        n_ = len(case["qchr"])
        norm = {}
        for a_, b_ in (("ast", "asp"), ("rst", "rsp"), ("cst", "csp")):
            norm[a_], norm[b_], _ = slice(sl.get(a_), sl.get(b_)).indices(n_)
        return norm

    @staticmethod
    def _steps(case):
        return case.get("steps") or [{"op": "xoprob", "map": 0, "fn": case["fn"]}]

    @staticmethod
    def _seq_ok(case):
        return bool(case["qsorted"]) and _contiguous(case["qchr"])

    # ------------------------------------------------------------------ verdicts
    @staticmethod
    def _close_list(a, b, rel=1e-9, abs_=1e-12):
        return (isinstance(a, list) and isinstance(b, list) and len(a) == len(b)
                and all(canon.close_enc(x, y, rel, abs_) for x, y in zip(a, b)))

    @staticmethod
    def _same_markers(a, b):
        """the same markers (chromosome, physical position) with the same genetic positions, in any order"""
        def key(r):
            return (r[0], int(Fraction(r[1])))
        a, b = sorted(a, key=key), sorted(b, key=key)
        return len(a) == len(b) and all(key(x) == key(y) and canon.close_enc(x[2], y[2], 1e-9, 1e-12) for x, y in zip(a, b))

    def judge(self, case, obs, answers):
        k = case["kind"]
        for a in answers:
            if "err" in a:
                raise RuntimeError("driver error: " + a["err"])
        ans = [a["ok"] for a in answers]
        # every Spec op also reports the oracle's verdict on the MODEL's own output for the same input; a
        # `false` there means the oracle demands more than the proved model delivers (over-strict oracle)
        selfbad = [i for i, a in enumerate(ans) if isinstance(a, dict) and a.get("self") is False]
        v = self._judge(case, obs, ans)
        if selfbad:
            v["corr"] = False
            v["detail"] = f"Spec oracle rejects the model's own output (requests {selfbad}); " + v["detail"]
        return v

    def _judge(self, case, obs, ans):
        k = case["kind"]
        if k == "mapfn":
            m, s = ans
            # r against the Float model; the inverse is compared through the Spec (conditioning)
            corr = self._close_list(m["r"], obs["r"], 1e-12, 1e-15)
            fin = [x for x in case["d"] if x != "inf"]
            # the two inverses start from probabilities that may differ by an ulp: each is within the conditioning
            # bound `invtol` (Model/GMapSpec.invTol, Lemmas/MapFnCond) of d, so they are within twice that
            inv_ok = all(t is None or canon.close_enc(a, b, 2e-9, 2 * float(Fraction(t)) + 1e-12)
                         for a, b, t in zip(m["inv"], obs["dinv"], m["invtol"]))
            corr = corr and inv_ok and obs["shape_ok"]
            spec = bool(s["ok"]) and obs["input_untouched"]
            nontriv = len(set(map(str, case["d"]))) >= 3 and any(Fraction(x) > 0 for x in fin)
            return {"corr": corr, "spec": spec, "nontrivial": nontriv,
                    "detail": f"mapfn[{case['fn']}] spec: {s['detail']}; model r={m['r'][:4]} impl r={obs['r'][:4]}"}
        if k == "gdist":
            m, s = ans[0], ans[1]

            def lit_ok(lit, impl):     # cells the literal loop writes must agree; unwritten cells are garbage
                return len(lit) == len(impl) and all(a is None or canon.close_enc(a, b, 1e-9, 1e-12)
                                                     for a, b in zip(lit, impl))

            def seq_ok(mm, impl, labels):
                if not lit_ok(mm["d1lit"], impl):
                    return False
                if _contiguous(labels):      # closed form = loop (theorem gdist1_loop_eq_closed_form_partial)
                    return mm["d1lit"] == mm["d1"] and self._close_list(mm["d1"], impl)
                return True
            corr = seq_ok(m, obs["d1"], case["chr"]) and len(m["d2"]) == len(obs["d2"]) and all(
                self._close_list(a, b) for a, b in zip(m["d2"], obs["d2"]))
            if case.get("slices"):
                ms = ans[2]
                sl = case["slices"]
                corr = corr and seq_ok(ms, obs["d1s"], case["chr"][sl["ast"]:sl["asp"]]) and \
                    len(ms["d2"]) == len(obs["d2s"]) and all(
                    self._close_list(a, b) for a, b in zip(ms["d2"], obs["d2s"]))
            runs = []
            for c in case["chr"]:
                if runs and runs[-1][0] == c:
                    runs[-1][1] += 1
                else:
                    runs.append([c, 1])
            nontriv = len(runs) >= 2 and any(n >= 3 for _, n in runs) and _contiguous(case["chr"])
            spec, sdet = bool(s["ok"]), s["detail"]
            if not obs.get("input_untouched", True):
                spec, sdet = False, sdet + "; gdist1g / gdist2g changed the position / label arrays handed in"
            if case.get("slices"):
                sl = case["slices"]
                bad = self._slice_law(obs["d1"] if _contiguous(case["chr"]) else None, obs["d2"], obs["d1s"], obs["d2s"], sl,
                                      _contiguous(case["chr"][sl["ast"]:sl["asp"]]))
                if bad:
                    spec, sdet = False, sdet + "; " + bad
            return {"corr": corr, "spec": spec, "nontrivial": nontriv,
                    "detail": f"gdist spec: {sdet}; model d1={m['d1']} impl d1={obs['d1']}"}
        if k == "interp":
            mc, mi, s, mp, sg, sinp, mps = ans[:7]
            why = []
            # (1) constructor: stored arrays, riding columns, group metadata, congruence
            exp_rows = mc["rows"] if case["auto_group"] else case["rows"]
            same_rows = (len(exp_rows) == len(obs["stored"]) and all(
                a[0] == b[0] and canon.close_enc(a[1], b[1]) and canon.close_enc(a[2], b[2]) and
                (case["cls"] == "std" or a[3] == b[3]) for a, b in zip(exp_rows, obs["stored"])))
            if not same_rows:
                why.append("stored rows differ from model")
            if case["auto_group"]:
                if obs["meta"] != mc["meta"]:
                    why.append("group metadata")
                if obs["congruence"] != mc["congruence"] or obs["is_congruent"] != all(mc["congruence"]):
                    why.append("congruence")
            elif obs["meta"] is not None:
                why.append("ungrouped map carries metadata")
            if not obs["tags_ok"]:
                why.append("riding columns detached")
            # (2) interpolation
            if not self._close_list(mi["out"], obs["out"]):
                why.append("interp_genpos")
            if mi["out"] != mi["outS"]:
                why.append("model: literal and recursive interpolation differ")
            if not self._close_list(mi["out"], obs["gmap_genpos"]) or not obs["gmap_labels_ok"]:
                why.append("interp_gmap")
            if len(mp["d2"]) != len(obs["d2p"]) or not all(self._close_list(a, b) for a, b in zip(mp["d2"], obs["d2p"])):
                why.append("gdist2p")
            if self._seq_ok(case) and not self._close_list(mp["d1"], obs["d1p"]):
                why.append("gdist1p")
            if case.get("pslices"):
                if len(mps["d2"]) != len(obs["d2ps"]) or not all(self._close_list(a, b) for a, b in zip(mps["d2"], obs["d2ps"])):
                    why.append("gdist2p with slice arguments")
                sl = case["pslices"]
                if case["qsorted"] and _contiguous(case["qchr"][sl["ast"]:sl["asp"]]) and \
                        not self._close_list(mps["d1"], obs["d1ps"]):
                    why.append("gdist1p with slice arguments")
            corr = not why
            # Spec: the Lean oracle on interp_genpos + "nothing depends on the supplied row order"
            spec = bool(s["ok"]) and bool(sg["ok"]) and bool(sinp["ok"])
            detail = s["detail"] + "; distances of interpolated positions: " + sg["detail"] + \
                "; query array edited in place and asked again: " + sinp["detail"]
            if case["auto_group"] and obs["stored"] != obs["stored2"]:
                spec = False
                detail += "; stored arrays depend on the supplied row order"
            if case["auto_group"] and obs["is_congruent"] != obs["is_congruent2"]:
                spec = False
                detail += "; is_congruent() depends on the supplied row order"
            if case.get("pslices"):
                sl = case["pslices"]
                bad = self._slice_law(obs.get("d1p") if self._seq_ok(case) else None, obs["d2p"], obs.get("d1ps"),
                                      obs["d2ps"], sl, _contiguous(case["qchr"][sl["ast"]:sl["asp"]]))
                if bad:
                    spec = False
                    detail += "; " + bad
            if case["auto_group"]:
                ss = ans[7]
                detail += "; distances of the stored map: " + ss["detail"]
                spec = spec and bool(ss["ok"])
                if not obs.get("stored3_untouched", True):
                    spec = False
                    detail += "; gdist1g / gdist2g on the map's own arrays changed the stored map"
            oe = obs.get("own_end")
            if oe and not self._close_list(oe["stored"], oe["out"]):
                spec = False
                detail += "; after the queries the map, asked at its own markers, does not return its stored positions"
            qs = list(zip(case["qchr"], case["qphy"]))
            between = any(any(r[0] == c and int(r[1]) < x for r in case["rows"]) and
                          any(r[0] == c and int(r[1]) > x for r in case["rows"]) and
                          not any(r[0] == c and int(r[1]) == x for r in case["rows"]) for c, x in qs)
            srt = sorted(case["rows"], key=lambda r: (r[0], int(r[1])))
            nontriv = between and srt != case["rows"]
            return {"corr": corr, "spec": spec, "nontrivial": nontriv,
                    "detail": f"interp[{case['cls']}] spec: {detail}; corr: {why or 'ok'}; out={obs['out']} model={mi['out']}"}
        if k == "spline":
            sp = ans[0]
            why = []
            if obs["kind_stored"] != case["spline_kind"]:
                why.append("spline_kind attribute")
            if len(ans) > 1 and not self._close_list(ans[1]["out"], obs["out"]):
                why.append("interp_genpos differs from the model of this spline kind")
            return {"corr": not why, "spec": bool(sp["ok"]), "nontrivial": len(case["qchr"]) >= 2,
                    "detail": f"spline[{case['cls']},{case['spline_kind']}] spec: {sp['detail']}; corr: {why or 'ok'}; "
                              f"out={obs['out']}" + (f" model={ans[1]['out']}" if len(ans) > 1 else "")}
        if k == "big":
            ok = not obs["bad"]
            return {"corr": ok, "spec": ok, "nontrivial": obs["n"] > 1024,
                    "detail": f"big[{case['cls']}, {obs['n']} markers, {obs['nvar']} variants] spec: {obs['bad'] or 'ok'}"}
        if k == "sortdup":
            mc = ans[0]

            def same(a, b):
                return len(a) == len(b) and all(x[0] == y[0] and canon.close_enc(x[1], y[1]) and
                                                canon.close_enc(x[2], y[2]) and x[3] == y[3] for x, y in zip(a, b))
            why = []
            if not same(mc["rows"], obs["stored"]):
                why.append("stored rows (incl. riding columns) differ from the lexicographic stable sort")
            if not same(mc["rows3"], obs["stored"]):
                why.append("stored rows differ from the three-pass lexsort")
            if not obs["tags_ok"]:
                why.append("riding columns detached")
            keys = [(r[0], str(r[1])) for r in case["rows"]]
            return {"corr": not why, "spec": True, "nontrivial": len(set(keys)) < len(keys),
                    "detail": f"sortdup corr: {why or 'ok'}; stored={obs['stored']}"}
        if k == "edit":
            msn = ans[0]
            why = []
            clauses = []          # failed clauses of the Spec, by type (used by the findings matcher)
            raise_agree = True    # every call that raised is predicted to raise (same exception) by the as-is model
            if len(msn) != len(obs["snaps"]):
                why.append("number of snapshots")
            for n, (st, a, b) in enumerate(zip(obs["done"], msn, obs["snaps"])):
                tag = f"step{n}:{st['op']}"
                same_rows = (len(a["rows"]) == len(b["stored"]) and all(
                    x[0] == y[0] and canon.close_enc(x[1], y[1]) and canon.close_enc(x[2], y[2]) and
                    (case["cls"] == "std" or x[3] == y[3]) for x, y in zip(a["rows"], b["stored"])))
                if not same_rows:
                    why.append(tag + " stored rows")
                if a["meta"] != b["meta"]:
                    why.append(tag + " group metadata")
                if not b["tags_ok"]:
                    why.append(tag + " riding columns detached")
                if a["raised"] != _ERR.get(b["raised"], b["raised"]):
                    why.append(tag + f" raised {b['raised']} (model: {a['raised']})")
                    raise_agree = False
                if st["op"] == "interp" and not b["raised"]:
                    if (a["out"] is None) != (b["out"] is None) or (
                            a["out"] is not None and not self._close_list(a["out"], b["out"])):
                        why.append(tag + " interp_genpos")
                if (st["op"] == "interp" and b["out"] is not None and n > 0 and obs["done"][n - 1]["op"] == "interp_gmap"
                        and not obs["snaps"][n - 1]["raised"]):
                    # the map interp_gmap returns answers from the parent's spline: asked at its own markers it must
                    # return the positions it stores (they were computed by that very spline)
                    k0 = b["own_at"]
                    if not self._close_list(b["out"][k0:k0 + len(b["own_gen"])], b["own_gen"]):
                        clauses.append("derived map: own markers")
                if b["raised"]:
                    # a call on a map of the property's domain raised (a crash on a valid input).  Told apart for
                    # the report: the object carries metadata that do not describe its own arrays (what
                    # interp_gmap produced before the repair of D110: regression) / anything else
                    stale = b["meta"] is not None and b["meta"] != _true_meta(b["stored"])
                    clauses.append(f"{st['op']} raised {b['raised']}" +
                                   (" on an object whose group metadata do not describe its arrays" if stale else ""))
            # "none of this depends on the order of the rows": a call that only reorders the rows (reorder, sort,
            # group, ungroup; interp_genpos / is_congruent group as a side effect; build_spline, copy) leaves every
            # marker with its genetic position
            prev = case["rows"]
            for n, (st, b) in enumerate(zip(obs["done"], obs["snaps"])):
                if st["op"] in ("reorder", "sort", "group", "ungroup", "interp", "build", "copy") and not b["raised"] \
                        and not self._same_markers(prev, b["stored"]):
                    clauses.append(f"step{n}:{st['op']} changed which genetic position belongs to which marker")
                    break
                prev = b["stored"]
            # ... and select() with the same markers in another order gives a map with the same distances, congruence,
            # answers
            for n, (st, b) in enumerate(zip(obs["done"], obs["snaps"])):
                if b.get("order_dep"):
                    clauses.append(f"step{n}:select({st['idx']}) on a grouped map depends on the order in which the rows "
                                   f"were supplied: " + "; ".join(b["order_dep"]))
            if msn and msn[-1]["congruent"] != obs["is_congruent"]:
                why.append(f"is_congruent {obs['is_congruent']} (model: {msn[-1]['congruent']})")
            if not obs["alias_ok"]:
                why.append("an object changed after its copy was edited")
            specs = ans[1:]
            nint = sum(1 for st, sn in zip(obs["done"], obs["snaps"]) if st["op"] == "interp" and sn["out"] is not None)
            if any(not x["ok"] for x in specs[:nint]):
                clauses.append("interpolation")
            nfin = 1 if obs.get("final") else 0
            if any(not x["ok"] for x in specs[nint:nint + nfin]):
                clauses.append("distances")
            if any(not x["ok"] for x in specs[nint + nfin:]):
                clauses.append("an untouched map no longer obeys the interpolation clause after ANOTHER object was edited")
            edited = any(st["op"] in ("remove", "select", "rd", "prune", "assign", "interp_gmap", "reorder", "sort")
                         for st in obs["done"])
            return {"corr": not why, "spec": not clauses, "nontrivial": edited and len(obs["done"]) >= 2,
                    "clauses": clauses, "raise_agree": raise_agree and len(msn) == len(obs["snaps"]),
                    "detail": f"edit[{case['cls']}] spec: {clauses or 'ok'} {[x['detail'] for x in specs if not x['ok']]}; "
                              f"corr: {why or 'ok'}; done={[st['op'] for st in obs['done']]}"}
        if k == "xoprob":
            mr = ans[0]
            why = []
            for key, mk in (("r1p", "r1"), ("r1g", "r1")):
                if not self._close_list(mr[mk], obs[key]):
                    why.append(key)
            for key in ("r2p", "r2g"):
                if len(mr["r2"]) != len(obs[key]) or not all(self._close_list(a, b) for a, b in zip(mr["r2"], obs[key])):
                    why.append(key)
            # the real group_vrnt must have produced a sorted arrangement of exactly the case's variants
            got = list(zip(obs["qchr"], obs["qphy"]))
            order = sorted(range(len(case["mchr"])), key=lambda i: (case["mchr"][i], case["mphy"][i]))
            if got != [(case["mchr"][i], case["mphy"][i]) for i in order]:
                why.append("matrix variants not grouped as (chr, phy)-sorted")
            # state before any placement: preset arrays carried along by the grouping, else absent
            pre = case.get("preset") or {}
            snaps = obs["snaps"]
            for key in ("genpos", "xoprob"):
                want = pre.get(key)
                if want is None:
                    if snaps[0][key] is not None:
                        why.append(f"{key} present before any placement")
                elif snaps[0][key] is None or not self._close_list([want[i] for i in order], snaps[0][key]):
                    why.append(f"preset {key} not carried along by group_vrnt")
            # every placement of the history: model of the map / map function actually passed
            spec, sdetail = True, []
            steps = self._steps(case)
            for n, st in enumerate(steps):
                mdl, sp = ans[1 + 2 * n], ans[2 + 2 * n]
                sn, prev = snaps[n + 1], snaps[n]
                tag = f"step{n}:{st['op']}(map{st['map']},{st['fn']})"
                if sn["genpos"] is None or not self._close_list(mdl["genpos"], sn["genpos"]):
                    why.append(tag + " vrnt_genpos")
                if st["op"] == "xoprob":
                    if sn["xoprob"] is None or not self._close_list(mdl["xoprob"], sn["xoprob"], 1e-9, 1e-12):
                        why.append(tag + " vrnt_xoprob")
                elif sn["xoprob"] != prev["xoprob"]:
                    why.append(tag + " changed vrnt_xoprob")
                if not sp["ok"]:
                    spec = False
                sdetail.append(f"{tag}: {sp['detail']}")
            runs = {}
            for c in obs["qchr"]:
                runs[c] = runs.get(c, 0) + 1
            nontriv = len(runs) >= 2 and any(n >= 2 for n in runs.values())
            if obs.get("rprob_bad"):
                spec = False
                sdetail.append(f"{', '.join(obs['rprob_bad'])} is not the map function of the corresponding distances")
            if not obs["alias_ok"]:
                # the arrays of the matrix satisfied the clause after their placement and were changed by calls
                # that do not involve the matrix: they no longer are what the clause says
                spec = False
                sdetail.append("vrnt_genpos / vrnt_xoprob of the matrix changed when ANOTHER matrix was placed")
            return {"corr": not why, "spec": spec, "nontrivial": nontriv,
                    "detail": f"xoprob[{case['cls']}] spec: {'; '.join(sdetail)}; corr: {why or 'ok'}; "
                              f"final xoprob={obs['xoprob']}"}
        raise ValueError(k)

    def signature(self, case, obs, verdict):
        sig = {"kind": case["kind"]}
        for key in ("cls", "fn", "auto_group"):
            if key in case:
                sig[key] = case[key]
        if case["kind"] == "edit":
            sig["site"] = "edit"
        return sig

    # ------------------------------------------------------------------ shrinking
    def shrink(self, case):
        k = case["kind"]
        if k == "mapfn":
            for i in range(len(case["d"])):
                if len(case["d"]) > 1:
                    yield {**case, "d": case["d"][:i] + case["d"][i + 1:]}
        elif k == "gdist":
            if case.get("slices"):
                yield {**case, "slices": None}
            for i in range(len(case["chr"])):
                if len(case["chr"]) > 1:
                    yield {**case, "chr": case["chr"][:i] + case["chr"][i + 1:],
                           "gen": case["gen"][:i] + case["gen"][i + 1:], "slices": None}
        elif k == "spline":
            for i in range(len(case["qchr"])):
                if len(case["qchr"]) > 1:
                    yield {**case, "qchr": case["qchr"][:i] + case["qchr"][i + 1:],
                           "qphy": case["qphy"][:i] + case["qphy"][i + 1:]}
        elif k == "sortdup":
            for i in range(len(case["rows"])):
                if len(case["rows"]) > 2:
                    yield {**case, "rows": case["rows"][:i] + case["rows"][i + 1:]}
        elif k == "edit":
            if case.get("mopts"):
                yield {kk: vv for kk, vv in case.items() if kk != "mopts"}
            for i in range(len(case["ops"])):
                if len(case["ops"]) > 1:
                    yield {**case, "ops": case["ops"][:i] + case["ops"][i + 1:]}
            for i in range(len(case["qchr"])):
                if len(case["qchr"]) > 1:
                    yield {**case, "qchr": case["qchr"][:i] + case["qchr"][i + 1:],
                           "qphy": case["qphy"][:i] + case["qphy"][i + 1:]}
        elif k in ("interp", "xoprob"):
            qa, qb = ("qchr", "qphy") if k == "interp" else ("mchr", "mphy")
            if k == "xoprob":
                if case.get("preset"):
                    yield {**case, "preset": None}
                if case.get("pre_chr"):
                    yield {kk: vv for kk, vv in case.items() if kk != "pre_chr"}
                st = case.get("steps") or []
                for i in range(len(st)):
                    if len(st) > 1:
                        yield {**case, "steps": st[:i] + st[i + 1:]}
            for i in range(len(case[qa])):
                if len(case[qa]) > 1:
                    c2 = {**case, qa: case[qa][:i] + case[qa][i + 1:], qb: case[qb][:i] + case[qb][i + 1:]}
                    if k == "xoprob" and case.get("pre_chr"):
                        c2["pre_chr"] = case["pre_chr"][:i] + case["pre_chr"][i + 1:]
                    if k == "xoprob" and case.get("preset"):
                        pr = case["preset"]
                        c2["preset"] = {kk: (None if vv is None else vv[:i] + vv[i + 1:]) for kk, vv in pr.items()}
                    yield c2
            rows = case["rows"]
            for i in range(len(rows)):
                c = rows[i][0]
                if sum(1 for r in rows if r[0] == c) > 2:     # keep >= 2 markers per chromosome
                    new = [list(r) for j, r in enumerate(rows) if j != i]
                    for t, r in enumerate(new):
                        r[3] = t
                    c2 = {**case, "rows": new}
                    if k == "interp":
                        c2["perm"] = list(reversed(range(len(new))))
                    yield c2
            chrs = sorted({r[0] for r in rows})
            for c in chrs:
                if len(chrs) > 1:
                    new = [list(r) for r in rows if r[0] != c]
                    for t, r in enumerate(new):
                        r[3] = t
                    c2 = {**case, "rows": new}
                    if k == "interp":
                        c2["perm"] = list(reversed(range(len(new))))
                    yield c2

    # ------------------------------------------------------------------ self-test mutants
    def mutants(self):
        m = _mods()
        H = m["hmf"].HaldaneMapFunction
        K = m["kmf"].KosambiMapFunction
        S = m["sgm"].StandardGeneticMap
        E = m["egm"].ExtendedGeneticMap
        D = m["dgmm"].DenseGeneticMappableMatrix

        @contextlib.contextmanager
        def patch(obj, name, new):
            old = getattr(obj, name)
            setattr(obj, name, new)
            try:
                yield
            finally:
                setattr(obj, name, old)

        @contextlib.contextmanager
        def both(a, b):
            with a, b:
                yield

        def hald_exp_d(self, d):
            return 0.5 * (1.0 - numpy.exp(-d))

        def hald_inv_nofactor(self, r):
            return -numpy.log(1.0 - (2.0 * r))

        def kos_tanh_d(self, d):
            return 0.5 * numpy.tanh(d)

        def kos_inv_tan(self, r):
            return 0.5 * numpy.arctan(2.0 * r)

        def gdist1g_noinf(self, vrnt_chrgrp, vrnt_genpos, ast=None, asp=None):
            vg = vrnt_genpos[ast:asp]
            out = numpy.empty(vg.shape, dtype=float)
            if len(out):
                out[0] = numpy.inf
                out[1:] = vg[1:] - vg[:-1]
            return out

        def gdist2g_noabs(self, vrnt_chrgrp, vrnt_genpos, rst=None, rsp=None, cst=None, csp=None):
            mi, mj = numpy.meshgrid(vrnt_chrgrp[rst:rsp], vrnt_chrgrp[cst:csp], indexing='ij', sparse=True)
            gi, gj = numpy.meshgrid(vrnt_genpos[rst:rsp], vrnt_genpos[cst:csp], indexing='ij', sparse=True)
            out = gi - gj
            out[mi != mj] = numpy.inf
            return out

        def gdist2g_noinf(self, vrnt_chrgrp, vrnt_genpos, rst=None, rsp=None, cst=None, csp=None):
            gi, gj = numpy.meshgrid(vrnt_genpos[rst:rsp], vrnt_genpos[cst:csp], indexing='ij', sparse=True)
            return numpy.abs(gi - gj)

        def mk_interp1d_sorted(mod):
            real = mod.interp1d

            def interp1d_assume_sorted(x, y, kind='linear', fill_value=numpy.nan, assume_sorted=False, **kw):
                return real(x=x, y=y, kind=kind, fill_value=fill_value, assume_sorted=True, **kw)
            return interp1d_assume_sorted

        def mk_interp1d_nearest(mod):
            real = mod.interp1d

            def interp1d_prev(x, y, kind='linear', fill_value=numpy.nan, assume_sorted=False, **kw):
                return real(x=x, y=y, kind='previous', fill_value=fill_value, assume_sorted=assume_sorted, **kw)
            return interp1d_prev

        def interp_genpos_zero(self, vrnt_chrgrp, vrnt_phypos):
            out = numpy.empty(vrnt_phypos.shape, dtype=float)
            for i, (c, p) in enumerate(zip(vrnt_chrgrp, vrnt_phypos)):
                try:
                    out[i] = self._spline[c](p)
                except KeyError:
                    out[i] = 0.0
            return out

        def lexsort_genfirst(self, keys=None, **kw):
            return numpy.lexsort((self.vrnt_chrgrp, self.vrnt_phypos, self.vrnt_genpos))

        def lexsort_nochr(self, keys=None, **kw):
            return numpy.lexsort((self.vrnt_genpos, self.vrnt_phypos))

        def xoprob_noreset(self, gmap, gmapfn, **kw):
            self.vrnt_genpos = gmap.interp_genpos(self._vrnt_chrgrp, self._vrnt_phypos)
            d = gmap.gdist1g(self._vrnt_chrgrp, self._vrnt_genpos)
            g = self._vrnt_genpos
            d[1:] = numpy.where(numpy.isinf(d[1:]), numpy.abs(g[1:] - g[:-1]), d[1:])
            self.vrnt_xoprob = gmapfn.mapfn(d)

        def xoprob_starts_from_cached_group_indices(self, gmap, gmapfn, **kw):
            # chromosome starts taken from the start indices cached by group_vrnt instead of the label array
            self.vrnt_genpos = gmap.interp_genpos(self._vrnt_chrgrp, self._vrnt_phypos)
            gdist = numpy.empty(self._vrnt_genpos.shape, dtype=float)
            gdist[1:] = numpy.diff(self._vrnt_genpos)
            gdist[self._vrnt_chrgrp_stix] = numpy.inf
            self.vrnt_xoprob = gmapfn.mapfn(gdist)

        def genpos_by_cached_groups(self, gmap, **kw):
            # the matrix interpolates chromosome by chromosome over the groups cached by group_vrnt
            out = numpy.full(len(self._vrnt_phypos), numpy.nan)
            for name, st, sp in zip(self._vrnt_chrgrp_name, self._vrnt_chrgrp_stix, self._vrnt_chrgrp_spix):
                out[st:sp] = gmap.interp_genpos(numpy.repeat(name, sp - st), self._vrnt_phypos[st:sp])
            self.vrnt_genpos = out

        def xoprob_starts_where_float_labels_differ(self, gmap, gmapfn, **kw):
            self.vrnt_genpos = gmap.interp_genpos(self._vrnt_chrgrp, self._vrnt_phypos)
            gdist = numpy.empty(self._vrnt_genpos.shape, dtype=float)
            if len(gdist):
                gdist[1:] = numpy.diff(self._vrnt_genpos)
                gdist[0] = numpy.inf
                gdist[1:][numpy.diff(self._vrnt_chrgrp.astype(float)) != 0] = numpy.inf
            self.vrnt_xoprob = gmapfn.mapfn(gdist)

        def xoprob_rolled(self, gmap, gmapfn, **kw):
            self.vrnt_genpos = gmap.interp_genpos(self._vrnt_chrgrp, self._vrnt_phypos)
            self.vrnt_xoprob = numpy.roll(gmapfn.rprob1g(gmap, self._vrnt_chrgrp, self._vrnt_genpos), 1)

        def xoprob_keeps_existing_genpos(self, gmap, gmapfn, **kw):
            if self._vrnt_genpos is None:
                self.vrnt_genpos = gmap.interp_genpos(self._vrnt_chrgrp, self._vrnt_phypos)
            self.vrnt_xoprob = gmapfn.rprob1g(gmap, self._vrnt_chrgrp, self._vrnt_genpos)

        def xoprob_keeps_existing_xoprob(self, gmap, gmapfn, **kw):
            self.vrnt_genpos = gmap.interp_genpos(self._vrnt_chrgrp, self._vrnt_phypos)
            if self._vrnt_xoprob is None:
                self.vrnt_xoprob = gmapfn.rprob1g(gmap, self._vrnt_chrgrp, self._vrnt_genpos)

        def genpos_keeps_existing(self, gmap, **kw):
            if self._vrnt_genpos is None:
                self.vrnt_genpos = gmap.interp_genpos(self._vrnt_chrgrp, self._vrnt_phypos)

        def remove_without_regroup(self, indices, **kw):
            self.vrnt_chrgrp = numpy.delete(self.vrnt_chrgrp, indices)
            self.vrnt_phypos = numpy.delete(self.vrnt_phypos, indices)
            if hasattr(self, "_vrnt_stop"):
                self.vrnt_stop = numpy.delete(self.vrnt_stop, indices)
            self.vrnt_genpos = numpy.delete(self.vrnt_genpos, indices)
            if getattr(self, "_vrnt_name", None) is not None:
                self.vrnt_name = numpy.delete(self.vrnt_name, indices)
            if getattr(self, "_vrnt_fncode", None) is not None:
                self.vrnt_fncode = numpy.delete(self.vrnt_fncode, indices)

        def congruence_strict(self):
            if not self.is_grouped():
                self.group()
            out = numpy.zeros(len(self._vrnt_phypos), dtype='bool')
            for st, sp in zip(self._vrnt_chrgrp_stix, self._vrnt_chrgrp_spix):
                out[st] = True
                out[st+1:sp] = self._vrnt_genpos[st:sp-1] < self._vrnt_genpos[st+1:sp]
            return out

        def remove_discrepancies_noop(self):
            self.congruence()

        def lexsort_unstable(self, keys=None, **kw):
            n = len(self.vrnt_chrgrp)
            return numpy.lexsort((-numpy.arange(n), self.vrnt_genpos, self.vrnt_phypos, self.vrnt_chrgrp))

        def mk_build_linear_only(cls_):
            real = cls_.build_spline

            def build_spline_linear_only(self, kind='linear', fill_value='extrapolate', **kw):
                real(self, 'linear', fill_value)
                self.spline_kind = kind
            return build_spline_linear_only

        real_prune = E.prune

        def prune_spacing_doubled(self, nt=None, M=None):
            return real_prune(self, nt=None if nt is None else 2 * nt, M=None if M is None else 2 * M)

        # ---- round 3: one mutant per class of inputs / histories the generator was extended with ----------
        from scipy.interpolate import interp1d as _interp1d

        def build_spline_slices_when_grouped(self, kind='linear', fill_value='extrapolate', **kw):
            self._spline = {}
            self._spline_kind = kind
            self._spline_fill_value = fill_value
            if self.is_grouped():
                for grp, st, sp in zip(self._vrnt_chrgrp_name, self._vrnt_chrgrp_stix, self._vrnt_chrgrp_spix):
                    self._spline[grp] = _interp1d(x=self._vrnt_phypos[st:sp], y=self._vrnt_genpos[st:sp], kind=kind,
                                                  fill_value=fill_value, assume_sorted=True)
                return
            for grp in numpy.unique(self._vrnt_chrgrp):
                mask = (self._vrnt_chrgrp == grp)
                self._spline[grp] = _interp1d(x=self._vrnt_phypos[mask], y=self._vrnt_genpos[mask], kind=kind,
                                              fill_value=fill_value, assume_sorted=False)

        def group_fastpath_diff(self, **kw):
            dchr = numpy.diff(self._vrnt_chrgrp)
            dpos = numpy.diff(self._vrnt_phypos)
            if not numpy.all((dchr > 0) | ((dchr == 0) & (dpos > 0))):
                self.sort()
            uniq = numpy.unique(self._vrnt_chrgrp, return_index=True, return_counts=True)
            self._vrnt_chrgrp_name, self._vrnt_chrgrp_stix, self._vrnt_chrgrp_len = uniq
            self._vrnt_chrgrp_spix = self._vrnt_chrgrp_stix + self._vrnt_chrgrp_len

        def hald_first_order(self, d):
            d = numpy.asarray(d, dtype=float)
            return numpy.where((d >= 0) & (d < 1e-4), d, 0.5 * (1.0 - numpy.exp(-2.0 * d)))

        def kos_first_order(self, d):
            d = numpy.asarray(d, dtype=float)
            return numpy.where((d >= 0) & (d < 1e-4), d, 0.5 * numpy.tanh(2.0 * d))

        def hald_inv_clip(self, r):
            return -0.5 * numpy.log(numpy.clip(1.0 - (2.0 * r), 1e-12, None))

        def gdist2g_isclose(self, vrnt_chrgrp, vrnt_genpos, rst=None, rsp=None, cst=None, csp=None):
            mi, mj = numpy.meshgrid(vrnt_chrgrp[rst:rsp], vrnt_chrgrp[cst:csp], indexing='ij', sparse=True)
            gi, gj = numpy.meshgrid(vrnt_genpos[rst:rsp], vrnt_genpos[cst:csp], indexing='ij', sparse=True)
            out = numpy.abs(gi - gj)
            out[numpy.isclose(gi, gj)] = 0.0
            out[mi != mj] = numpy.inf
            return out

        real_gdist1g = S.gdist1g

        def gdist1g_chunked(self, vrnt_chrgrp, vrnt_genpos, ast=None, asp=None):
            vc, vg = vrnt_chrgrp[ast:asp], vrnt_genpos[ast:asp]
            out = numpy.empty(vg.shape, dtype=float)
            for a_ in range(0, len(vg), 1024):
                out[a_:a_ + 1024] = real_gdist1g(self, vc[a_:a_ + 1024], vg[a_:a_ + 1024])
            return out

        def gdist1g_diff_prepend0(self, vrnt_chrgrp, vrnt_genpos, ast=None, asp=None):
            vc, vg = vrnt_chrgrp[ast:asp], vrnt_genpos[ast:asp]
            out = numpy.empty(vg.shape, dtype=float)
            if len(out):
                out[1:] = vg[1:] - vg[:-1]
                out[0] = 0.0
                out[numpy.diff(vc, prepend=0) != 0] = numpy.inf
            return out

        def gdist1g_ignores_strides(self, vrnt_chrgrp, vrnt_genpos, ast=None, asp=None):
            vg = vrnt_genpos
            if vg.base is not None and not vg.flags["C_CONTIGUOUS"]:
                vg = numpy.ndarray(shape=vg.shape, dtype=vg.dtype, buffer=vg.base)
            return real_gdist1g(self, vrnt_chrgrp, vg, ast, asp)

        def mk_remove_abs(cls_):
            real = cls_.remove

            def remove_abs_indices(self, indices, **kw):
                if isinstance(indices, numpy.ndarray) and indices.dtype != bool:
                    indices = numpy.abs(indices)
                return real(self, indices, **kw)
            return remove_abs_indices

        def mk_remove_mask_as_int(cls_):
            real = cls_.remove

            def remove_mask_as_int(self, indices, **kw):
                if isinstance(indices, numpy.ndarray) and indices.dtype == bool:
                    indices = indices.astype(int)          # a mask read as the indices 0 / 1
                return real(self, indices, **kw)
            return remove_mask_as_int

        def mk_select_slice_step_ignored(cls_):
            real = cls_.select

            def select_slice_step_ignored(self, indices, **kw):
                if isinstance(indices, slice):
                    indices = slice(indices.start, indices.stop, None if (indices.step or 1) > 0 else -1)
                return real(self, indices, **kw)
            return select_slice_step_ignored

        def mk_from_pandas_nogroup(cls_):
            real = cls_.from_pandas.__func__

            def from_pandas_nogroup(cls2, df, *a_, **kw):
                kw["auto_group"] = False
                return real(cls2, df, *a_, **kw)
            return classmethod(from_pandas_nogroup)

        def mk_congruence_memo(cls_):
            real = cls_.congruence

            def congruence_memoized(self):
                c = getattr(self, "_congr_cache", None)
                if c is None or len(c) != len(self._vrnt_genpos):
                    c = real(self)
                    self._congr_cache = c
                return c
            return congruence_memoized

        def reorder_in_place(self, indices):
            for nm_ in ("_vrnt_chrgrp", "_vrnt_phypos", "_vrnt_genpos", "_vrnt_stop", "_vrnt_name", "_vrnt_fncode"):
                a_ = getattr(self, nm_, None)
                if a_ is not None:
                    a_[:] = a_[indices]
            self.vrnt_chrgrp_name = self.vrnt_chrgrp_stix = self.vrnt_chrgrp_spix = self.vrnt_chrgrp_len = None

        def mk_copy_shares(cls_):
            def copy_shares_arrays(self):
                out = cls_.__new__(cls_)
                out.__dict__.update(self.__dict__)
                return out
            return copy_shares_arrays

        def mk_interp_shared_buffer(cls_):
            real = cls_.interp_genpos
            bufs = {}

            def interp_genpos_shared_buffer(self, vrnt_chrgrp, vrnt_phypos):
                r = real(self, vrnt_chrgrp, vrnt_phypos)
                b_ = bufs.setdefault(r.shape, numpy.empty(r.shape, dtype=float))
                b_[...] = r
                return b_
            return interp_genpos_shared_buffer

        def mk_interp_gmap_sorted(cls_):
            real = cls_.interp_gmap

            def interp_gmap_sorts_positions(self, vrnt_chrgrp, vrnt_phypos, *a_, **kw):
                out = real(self, vrnt_chrgrp, vrnt_phypos, *a_, **kw)
                ix = numpy.lexsort((out._vrnt_phypos, out._vrnt_chrgrp))
                out._vrnt_chrgrp = out._vrnt_chrgrp[ix]
                out._vrnt_phypos = out._vrnt_phypos[ix]
                return out
            return interp_gmap_sorts_positions

        def mk_genpos_setter_sorted(cls_):
            prop = cls_.__dict__["vrnt_genpos"]

            def setter(self, value):
                prop.fset(self, value)
                if getattr(self, "_vrnt_chrgrp_stix", None) is not None and not isinstance(value, tuple):
                    for st, sp in zip(self._vrnt_chrgrp_stix, self._vrnt_chrgrp_spix):
                        self._vrnt_genpos[st:sp] = numpy.sort(self._vrnt_genpos[st:sp])
            return property(prop.fget, setter)

        def hald_noncontig_float32(self, d):
            d = numpy.asarray(d)
            if d.ndim and not d.flags["C_CONTIGUOUS"]:
                d = numpy.ascontiguousarray(d, dtype="float32")      # "make it contiguous" with the wrong dtype
            return 0.5 * (1.0 - numpy.exp(-2.0 * d))

        def kos_2d_rowwise_max(self, d):
            d = numpy.asarray(d, dtype=float)
            if d.ndim == 2:
                return 0.5 * numpy.tanh(2.0 * d.max(axis=1, keepdims=True) + 0.0 * d)
            return 0.5 * numpy.tanh(2.0 * d)

        def mk_interp_int32_positions(cls_):
            real = cls_.interp_genpos

            def interp_genpos_int32_positions(self, vrnt_chrgrp, vrnt_phypos):
                with numpy.errstate(all="ignore"):
                    return real(self, vrnt_chrgrp, vrnt_phypos.astype("int32"))
            return interp_genpos_int32_positions

        def reorder_keeps_metadata(self, indices):
            for nm_ in ("_vrnt_chrgrp", "_vrnt_phypos", "_vrnt_genpos", "_vrnt_stop", "_vrnt_name", "_vrnt_fncode"):
                a_ = getattr(self, nm_, None)
                if a_ is not None:
                    setattr(self, nm_, a_[indices])

        def pair(f_s, f_e):
            return both(f_s, f_e)


        # ---- round 4 ---------------------------------------------------------------------------------------
        import copy as _copy

        def kos_exp_form(self, d):
            d = numpy.asarray(d, dtype=float)
            r = numpy.full(d.shape, 0.5)
            mask = ~numpy.isinf(d)
            with numpy.errstate(all="ignore"):
                e4d = numpy.exp(4.0 * d[mask])
                r[mask] = 0.5 * (e4d - 1.0) / (e4d + 1.0)
            return r

        def hald_exp_form(self, d):
            d = numpy.asarray(d, dtype=float)
            r = numpy.full(d.shape, 0.5)
            mask = ~numpy.isinf(d)
            with numpy.errstate(all="ignore"):
                e2d = numpy.exp(2.0 * d[mask])
                r[mask] = 0.5 * (e2d - 1.0) / e2d
            return r

        def hald_exp_in_input_dtype(self, d):
            d = numpy.asarray(d)
            return 0.5 * (1.0 - numpy.exp(-2 * d, dtype=d.dtype))

        def gdist1p_window_twice(self, vrnt_chrgrp, vrnt_phypos, ast=None, asp=None):
            vc, vp = vrnt_chrgrp[ast:asp], vrnt_phypos[ast:asp]
            return self.gdist1g(vc, self.interp_genpos(vc, vp), ast, asp)

        def gdist2p_rows_only(self, vrnt_chrgrp, vrnt_phypos, rst=None, rsp=None, cst=None, csp=None):
            gp = numpy.full(len(vrnt_phypos), numpy.nan)
            gp[rst:rsp] = self.interp_genpos(vrnt_chrgrp[rst:rsp], vrnt_phypos[rst:rsp])
            return self.gdist2g(vrnt_chrgrp, gp, rst, rsp, cst, csp)

        def mk_build_shortcut(cls_):
            real = cls_.build_spline

            def build_spline_already_built(self, kind='linear', fill_value='extrapolate', **kw):
                uniq = numpy.unique(self._vrnt_chrgrp)
                if (self.has_spline() and self._spline_kind == kind and numpy.array_equal(self._spline_fill_value, fill_value)
                        and len(self._spline) == len(uniq) and all(grp in self._spline for grp in uniq)):
                    return
                real(self, kind, fill_value, **kw)
            return build_spline_already_built

        def mk_build_id_cache(cls_):
            real = cls_.build_spline

            def build_spline_cached_per_array(self, kind='linear', fill_value='extrapolate', **kw):
                key = (id(self._vrnt_chrgrp), id(self._vrnt_phypos), id(self._vrnt_genpos), len(self._vrnt_genpos), kind,
                       str(fill_value))
                if getattr(self, "_spline_key", None) == key and self.has_spline():
                    return
                real(self, kind, fill_value, **kw)
                self._spline_key = key
                self._spline_hold = (self._vrnt_chrgrp, self._vrnt_phypos, self._vrnt_genpos)   # keeps the ids alive
            return build_spline_cached_per_array

        def gdist2g_labels_isclose(self, vrnt_chrgrp, vrnt_genpos, rst=None, rsp=None, cst=None, csp=None):
            mi, mj = numpy.meshgrid(vrnt_chrgrp[rst:rsp], vrnt_chrgrp[cst:csp], indexing='ij', sparse=True)
            gi, gj = numpy.meshgrid(vrnt_genpos[rst:rsp], vrnt_genpos[cst:csp], indexing='ij', sparse=True)
            out = numpy.abs(gi - gj)
            out[~numpy.isclose(mi, mj)] = numpy.inf
            return out

        def gdist2g_labels_as_float(self, vrnt_chrgrp, vrnt_genpos, rst=None, rsp=None, cst=None, csp=None):
            lab = vrnt_chrgrp.astype(float)
            mi, mj = numpy.meshgrid(lab[rst:rsp], lab[cst:csp], indexing='ij', sparse=True)
            gi, gj = numpy.meshgrid(vrnt_genpos[rst:rsp], vrnt_genpos[cst:csp], indexing='ij', sparse=True)
            out = numpy.abs(gi - gj)
            out[mi != mj] = numpy.inf
            return out

        def gdist1g_in_place(self, vrnt_chrgrp, vrnt_genpos, ast=None, asp=None):
            vc, vg = vrnt_chrgrp[ast:asp], vrnt_genpos[ast:asp]
            uniq, start, counts = numpy.unique(vc, return_index=True, return_counts=True)
            out = vg if vg.flags["C_CONTIGUOUS"] and vg.flags.writeable else numpy.empty(vg.shape, dtype=float)
            for st, sp in zip(start, start + counts):
                dd = numpy.diff(vg[st:sp])
                out[st] = numpy.inf
                out[st + 1:sp] = dd
            return out

        def gdist1g_first_cell_unconditional(self, vrnt_chrgrp, vrnt_genpos, ast=None, asp=None):
            out = real_gdist1g(self, vrnt_chrgrp, vrnt_genpos, ast, asp)
            out[0] = numpy.inf
            return out

        def mk_group_early(cls_):
            real = cls_.group

            def group_returns_when_grouped(self, **kw):
                if self.is_grouped():
                    return
                real(self, **kw)
            return group_returns_when_grouped

        def interp_genpos_falsy_label(self, vrnt_chrgrp, vrnt_phypos):
            out = numpy.empty(vrnt_phypos.shape, dtype=float)
            for i, (c, p) in enumerate(zip(vrnt_chrgrp, vrnt_phypos)):
                model = self._spline.get(c) if c else None
                out[i] = model(p) if model is not None else numpy.nan
            return out

        def mk_from_pandas_intcol(cls_):
            real = cls_.from_pandas.__func__

            def from_pandas_integer_column_by_label(cls2, df, *a_, **kw):
                # integer column arguments looked up through the ROW labels as well (.loc semantics): rows come out
                # in label order for the genetic positions only
                gc = kw.get("vrnt_genpos_col")
                if isinstance(gc, int):
                    df = df.copy()
                    df.iloc[:, gc] = df.iloc[:, gc].sort_index().to_numpy()
                return real(cls2, df, *a_, **kw)
            return classmethod(from_pandas_integer_column_by_label)

        def mk_genpos_units_short_only(cls_):
            prop = cls_.__dict__["vrnt_genpos"]

            def setter(self, value):
                if isinstance(value, tuple) and value[1] == "centiMorgans":
                    value = (value[0], "Morgans")          # only the abbreviation "cM" is recognised as centiMorgans
                prop.fset(self, value)
            return property(prop.fget, setter)

        def mk_build_255(cls_):
            def build_spline_first_255_chromosomes(self, kind='linear', fill_value='extrapolate', **kw):
                self._spline = {}
                self._spline_kind = kind
                self._spline_fill_value = fill_value
                for grp in numpy.unique(self._vrnt_chrgrp)[:255]:
                    mask = (self._vrnt_chrgrp == grp)
                    self._spline[grp] = _interp1d(x=self._vrnt_phypos[mask], y=self._vrnt_genpos[mask], kind=kind,
                                                  fill_value=fill_value, assume_sorted=False)
            return build_spline_first_255_chromosomes

        def mk_sort_keys_skips_genpos(cls_):
            real = cls_.sort

            def sort_with_keys_leaves_genpos(self, keys=None):
                if keys is None:
                    return real(self, keys)
                gen = self._vrnt_genpos.copy()
                real(self, keys)
                self._vrnt_genpos = gen
            return sort_with_keys_leaves_genpos

        def mk_interp1d_normalised(mod):
            real = mod.interp1d

            def interp1d_normalised(x, y, kind='linear', fill_value=numpy.nan, assume_sorted=False, **kw):
                y = numpy.asarray(y, dtype=float)
                lo, span = y.min(), y.max() - y.min()
                with numpy.errstate(all="ignore"):
                    f = real(x=x, y=(y - lo) / span, kind=kind, fill_value=fill_value, assume_sorted=assume_sorted, **kw)
                return lambda q: f(q) * span + lo
            return interp1d_normalised

        def mk_interp_gmap_prerepair(cls_):
            real = cls_.interp_gmap

            def interp_gmap_copies_parent_metadata(self, vrnt_chrgrp, vrnt_phypos, *a_, **kw):
                out = real(self, vrnt_chrgrp, vrnt_phypos, *a_, **kw)
                out.vrnt_chrgrp_name = _copy.deepcopy(self.vrnt_chrgrp_name)
                out.vrnt_chrgrp_stix = _copy.deepcopy(self.vrnt_chrgrp_stix)
                out.vrnt_chrgrp_spix = _copy.deepcopy(self.vrnt_chrgrp_spix)
                out.vrnt_chrgrp_len = _copy.deepcopy(self.vrnt_chrgrp_len)
                return out
            return interp_gmap_copies_parent_metadata

        def rprob2p_on_physical_positions(self, gmap, vrnt_chrgrp, vrnt_phypos):
            return self.mapfn(gmap.gdist2g(vrnt_chrgrp, vrnt_phypos.astype(float) * 1e-8))     # "1 cM per Mb"

        def se(name, mk):
            return pair(patch(S, name, mk(S)), patch(E, name, mk(E)))

        def mk_select_regroup_only(cls_):
            real = cls_.select

            def select_regroups_without_sorting(self, indices, **kw):
                # "a subset of a sorted map is still sorted": group indices recomputed, rows left as selected
                was = self.is_grouped()
                if was:
                    self.ungroup()
                real(self, indices, **kw)
                if was:
                    u = numpy.unique(self._vrnt_chrgrp, return_index=True, return_counts=True)
                    self._vrnt_chrgrp_name, self._vrnt_chrgrp_stix, self._vrnt_chrgrp_len = u
                    self._vrnt_chrgrp_spix = self._vrnt_chrgrp_stix + self._vrnt_chrgrp_len
            return select_regroups_without_sorting

        def mk_select_sort_unless_ascending(cls_):
            real = cls_.select

            def select_sorts_unless_ascending(self, indices, **kw):
                # the sort is skipped when the index ARRAY is numerically ascending (negative entries wrap around)
                ix = None if isinstance(indices, slice) else numpy.asarray(indices)
                skip = (self.is_grouped() and ix is not None and ix.dtype != bool and ix.ndim == 1 and len(ix) > 1
                        and bool(numpy.all(numpy.diff(ix) > 0)))
                if not skip:
                    return real(self, indices, **kw)
                self.ungroup()
                real(self, indices, **kw)
                u = numpy.unique(self._vrnt_chrgrp, return_index=True, return_counts=True)
                self._vrnt_chrgrp_name, self._vrnt_chrgrp_stix, self._vrnt_chrgrp_len = u
                self._vrnt_chrgrp_spix = self._vrnt_chrgrp_stix + self._vrnt_chrgrp_len
            return select_sorts_unless_ascending

        round4 = [
            ("r4_interp_gmap_copies_parent_metadata_D110", lambda: se("interp_gmap", mk_interp_gmap_prerepair)),
            # (the same mechanism in both map-function classes is ONE mutant: both classes are patched together)
            ("r4_mapfn_exp_form_overflows", lambda: both(patch(K, "mapfn", kos_exp_form), patch(H, "mapfn", hald_exp_form))),
            ("r4_haldane_exp_in_input_dtype", lambda: patch(H, "mapfn", hald_exp_in_input_dtype)),
            ("r4_gdist1p_window_applied_twice", lambda: pair(patch(S, "gdist1p", gdist1p_window_twice),
                                                             patch(E, "gdist1p", gdist1p_window_twice))),
            ("r4_gdist2p_interpolates_window_rows_only", lambda: pair(patch(S, "gdist2p", gdist2p_rows_only),
                                                                      patch(E, "gdist2p", gdist2p_rows_only))),
            ("r4_build_spline_already_built_shortcut", lambda: se("build_spline", mk_build_shortcut)),
            ("r4_build_spline_cached_per_array_object", lambda: se("build_spline", mk_build_id_cache)),
            ("r4_gdist2g_labels_isclose", lambda: pair(patch(S, "gdist2g", gdist2g_labels_isclose),
                                                       patch(E, "gdist2g", gdist2g_labels_isclose))),
            ("r4_gdist2g_labels_as_float64", lambda: pair(patch(S, "gdist2g", gdist2g_labels_as_float),
                                                          patch(E, "gdist2g", gdist2g_labels_as_float))),
            ("r4_gdist1g_in_place_on_callers_array", lambda: pair(patch(S, "gdist1g", gdist1g_in_place),
                                                                  patch(E, "gdist1g", gdist1g_in_place))),
            ("r4_gdist1g_raises_on_empty", lambda: pair(patch(S, "gdist1g", gdist1g_first_cell_unconditional),
                                                        patch(E, "gdist1g", gdist1g_first_cell_unconditional))),
            ("r4_group_returns_early_when_grouped", lambda: se("group", mk_group_early)),
            ("r4_interp_genpos_label_zero_missing", lambda: pair(patch(S, "interp_genpos", interp_genpos_falsy_label),
                                                                 patch(E, "interp_genpos", interp_genpos_falsy_label))),
            ("r4_from_pandas_integer_column_by_row_label", lambda: se("from_pandas", mk_from_pandas_intcol)),
            ("r4_units_only_abbreviation_recognised", lambda: se("vrnt_genpos", mk_genpos_units_short_only)),
            ("r4_build_spline_first_255_chromosomes", lambda: se("build_spline", mk_build_255)),
            ("r4_sort_with_keys_leaves_genpos", lambda: se("sort", mk_sort_keys_skips_genpos)),
            ("r4_rprob2p_assumes_uniform_recombination_rate", lambda: both(patch(H, "rprob2p", rprob2p_on_physical_positions),
                                                                            patch(K, "rprob2p", rprob2p_on_physical_positions))),
            ("r4_interp1d_on_normalised_positions", lambda: both(patch(m["sgm"], "interp1d", mk_interp1d_normalised(m["sgm"])),
                                                                 patch(m["egm"], "interp1d", mk_interp1d_normalised(m["egm"])))),
        ]

        round3 = [
            ("r3_build_spline_slices_when_grouped", lambda: pair(patch(S, "build_spline", build_spline_slices_when_grouped),
                                                                 patch(E, "build_spline", build_spline_slices_when_grouped))),
            ("r3_group_fastpath_unsigned_diff", lambda: pair(patch(S, "group", group_fastpath_diff),
                                                             patch(E, "group", group_fastpath_diff))),
            ("r3_mapfn_first_order_below_1e-4", lambda: both(patch(H, "mapfn", hald_first_order), patch(K, "mapfn", kos_first_order))),
            ("r3_haldane_inverse_clipped_at_1e-12", lambda: patch(H, "invmapfn", hald_inv_clip)),
            ("r3_gdist2g_isclose_to_zero", lambda: pair(patch(S, "gdist2g", gdist2g_isclose), patch(E, "gdist2g", gdist2g_isclose))),
            ("r3_gdist1g_chunks_of_1024", lambda: pair(patch(S, "gdist1g", gdist1g_chunked), patch(E, "gdist1g", gdist1g_chunked))),
            ("r3_gdist1g_diff_prepend_zero", lambda: pair(patch(S, "gdist1g", gdist1g_diff_prepend0),
                                                          patch(E, "gdist1g", gdist1g_diff_prepend0))),
            ("r3_gdist1g_ignores_strides", lambda: pair(patch(S, "gdist1g", gdist1g_ignores_strides),
                                                        patch(E, "gdist1g", gdist1g_ignores_strides))),
            ("r3_remove_abs_of_negative_indices", lambda: pair(patch(S, "remove", mk_remove_abs(S)), patch(E, "remove", mk_remove_abs(E)))),
            ("r3_remove_mask_read_as_indices", lambda: pair(patch(S, "remove", mk_remove_mask_as_int(S)),
                                                            patch(E, "remove", mk_remove_mask_as_int(E)))),
            ("r3_select_slice_step_ignored", lambda: pair(patch(S, "select", mk_select_slice_step_ignored(S)),
                                                          patch(E, "select", mk_select_slice_step_ignored(E)))),
            ("r3_from_pandas_never_groups", lambda: pair(patch(S, "from_pandas", mk_from_pandas_nogroup(S)),
                                                         patch(E, "from_pandas", mk_from_pandas_nogroup(E)))),
            ("r3_congruence_memoized", lambda: pair(patch(S, "congruence", mk_congruence_memo(S)),
                                                    patch(E, "congruence", mk_congruence_memo(E)))),
            ("r3_copy_shares_arrays_reorder_in_place", lambda: both(pair(patch(S, "__copy__", mk_copy_shares(S)),
                                                                         patch(E, "__copy__", mk_copy_shares(E))),
                                                                    pair(patch(S, "reorder", reorder_in_place),
                                                                         patch(E, "reorder", reorder_in_place)))),
            ("r3_interp_genpos_shared_buffer", lambda: pair(patch(S, "interp_genpos", mk_interp_shared_buffer(S)),
                                                            patch(E, "interp_genpos", mk_interp_shared_buffer(E)))),
            ("r3_interp_gmap_sorts_positions_only", lambda: pair(patch(S, "interp_gmap", mk_interp_gmap_sorted(S)),
                                                                 patch(E, "interp_gmap", mk_interp_gmap_sorted(E)))),
            ("r3_haldane_float32_for_noncontiguous_input", lambda: patch(H, "mapfn", hald_noncontig_float32)),
            ("r3_kosambi_2d_input_rowwise", lambda: patch(K, "mapfn", kos_2d_rowwise_max)),
            ("r3_interp_genpos_positions_as_int32", lambda: pair(patch(S, "interp_genpos", mk_interp_int32_positions(S)),
                                                                  patch(E, "interp_genpos", mk_interp_int32_positions(E)))),
            ("r3_reorder_keeps_group_metadata", lambda: pair(patch(S, "reorder", reorder_keeps_metadata),
                                                             patch(E, "reorder", reorder_keeps_metadata))),
            ("r3_genpos_setter_sorts_within_groups", lambda: pair(patch(S, "vrnt_genpos", mk_genpos_setter_sorted(S)),
                                                                  patch(E, "vrnt_genpos", mk_genpos_setter_sorted(E)))),
        ]

        return round4 + round3 + [
            ("prune_spacing_doubled", lambda: patch(E, "prune", prune_spacing_doubled)),
            ("build_spline_ignores_kind", lambda: both(patch(S, "build_spline", mk_build_linear_only(S)),
                                                       patch(E, "build_spline", mk_build_linear_only(E)))),
            ("remove_without_regroup", lambda: both(patch(S, "remove", remove_without_regroup),
                                                    patch(E, "remove", remove_without_regroup))),
            ("congruence_strict", lambda: both(patch(S, "congruence", congruence_strict),
                                               patch(E, "congruence", congruence_strict))),
            ("remove_discrepancies_noop", lambda: both(patch(S, "remove_discrepancies", remove_discrepancies_noop),
                                                       patch(E, "remove_discrepancies", remove_discrepancies_noop))),
            ("lexsort_not_stable", lambda: both(patch(S, "lexsort", lexsort_unstable),
                                                patch(E, "lexsort", lexsort_unstable))),
            ("interp_xoprob_keeps_existing_genpos", lambda: patch(D, "interp_xoprob", xoprob_keeps_existing_genpos)),
            ("interp_xoprob_keeps_existing_xoprob", lambda: patch(D, "interp_xoprob", xoprob_keeps_existing_xoprob)),
            ("interp_genpos_keeps_existing", lambda: patch(D, "interp_genpos", genpos_keeps_existing)),
            ("mapfn_exp_minus_d_tanh_d", lambda: both(patch(H, "mapfn", hald_exp_d), patch(K, "mapfn", kos_tanh_d))),
            ("invmapfn_without_half_arctan", lambda: both(patch(H, "invmapfn", hald_inv_nofactor), patch(K, "invmapfn", kos_inv_tan))),
            ("gdist1g_no_inf_at_run_starts", lambda: both(patch(S, "gdist1g", gdist1g_noinf),
                                                          patch(E, "gdist1g", gdist1g_noinf))),
            ("gdist2g_without_abs", lambda: both(patch(S, "gdist2g", gdist2g_noabs), patch(E, "gdist2g", gdist2g_noabs))),
            ("gdist2g_without_inf", lambda: both(patch(S, "gdist2g", gdist2g_noinf), patch(E, "gdist2g", gdist2g_noinf))),
            ("interp1d_assume_sorted", lambda: both(patch(m["sgm"], "interp1d", mk_interp1d_sorted(m["sgm"])),
                                                    patch(m["egm"], "interp1d", mk_interp1d_sorted(m["egm"])))),
            ("interp1d_previous_not_linear", lambda: both(patch(m["sgm"], "interp1d", mk_interp1d_nearest(m["sgm"])),
                                                          patch(m["egm"], "interp1d", mk_interp1d_nearest(m["egm"])))),
            ("keyerror_gives_zero", lambda: both(patch(S, "interp_genpos", interp_genpos_zero),
                                                 patch(E, "interp_genpos", interp_genpos_zero))),
            ("lexsort_genpos_primary", lambda: both(patch(S, "lexsort", lexsort_genfirst),
                                                    patch(E, "lexsort", lexsort_genfirst))),
            ("lexsort_ignores_chromosome", lambda: both(patch(S, "lexsort", lexsort_nochr),
                                                        patch(E, "lexsort", lexsort_nochr))),
            ("xoprob_not_reset_at_chromosome_start", lambda: patch(D, "interp_xoprob", xoprob_noreset)),
            ("xoprob_rolled_by_one", lambda: patch(D, "interp_xoprob", xoprob_rolled)),
            ("r5_xoprob_chromosome_starts_from_cached_group_indices",
             lambda: patch(D, "interp_xoprob", xoprob_starts_from_cached_group_indices)),
            ("r5_select_regroups_without_sorting", lambda: se("select", mk_select_regroup_only)),
            ("r5_select_sorts_only_when_index_array_not_ascending", lambda: se("select", mk_select_sort_unless_ascending)),
            ("r5_matrix_interp_genpos_over_cached_groups", lambda: patch(D, "interp_genpos", genpos_by_cached_groups)),
            ("r5_xoprob_chromosome_starts_where_float_labels_differ",
             lambda: patch(D, "interp_xoprob", xoprob_starts_where_float_labels_differ)),
        ]


PROP = C11()
