"""C11 — genetic maps (Standard/Extended), Haldane/Kosambi map functions, interp_xoprob."""
import contextlib
import math
from fractions import Fraction

import numpy

from .. import canon, compat
from ..core import Prop

compat.install()

_M = {}


def _mods():
    if not _M:
        compat.import_pybrops()
        import pybrops.popgen.gmap.StandardGeneticMap as sgm
        import pybrops.popgen.gmap.ExtendedGeneticMap as egm
        import pybrops.popgen.gmap.HaldaneMapFunction as hmf
        import pybrops.popgen.gmap.KosambiMapFunction as kmf
        import pybrops.popgen.gmap.DenseGeneticMappableMatrix as dgmm
        import pybrops.popgen.gmat.DensePhasedGenotypeMatrix as dpgm
        import pybrops.popgen.gmat.DenseGenotypeMatrix as dgm
        _M.update(sgm=sgm, egm=egm, hmf=hmf, kmf=kmf, dgmm=dgmm, dpgm=dpgm, dgm=dgm)
    return _M


def _f(x):
    """case scalar (int, "n/d", "inf", "nan") -> python float"""
    if isinstance(x, str):
        if x == "inf":
            return math.inf
        if x == "-inf":
            return -math.inf
        if x == "nan":
            return math.nan
    return float(Fraction(x))


def _mapfn(name):
    m = _mods()
    return m["hmf"].HaldaneMapFunction() if name == "haldane" else m["kmf"].KosambiMapFunction()


def _build_map(cls, rows, auto_group=True):
    """rows: [[chr, phy, gen, tag]] -> map object of the requested class"""
    m = _mods()
    chr_ = numpy.array([r[0] for r in rows], dtype=int)
    phy = numpy.array([int(Fraction(r[1])) for r in rows], dtype=int)
    gen = numpy.array([_f(r[2]) for r in rows], dtype=float)
    if cls == "std":
        return m["sgm"].StandardGeneticMap(chr_, phy, gen, auto_group=auto_group)
    tags = [r[3] for r in rows]
    stop = numpy.array([int(Fraction(r[1])) + 7 + t for r, t in zip(rows, tags)], dtype=int)
    name = numpy.array([f"m{t}" for t in tags], dtype=object)
    fncode = numpy.array([f"f{t}" for t in tags], dtype=object)
    return m["egm"].ExtendedGeneticMap(chr_, phy, stop, gen, vrnt_name=name, vrnt_fncode=fncode,
                                       auto_group=auto_group)


def _stored(cls, g):
    """the stored arrays of a map object as rows [[chr, phy, gen, tag]] (tag recovered from vrnt_name)"""
    tags = [0] * len(g.vrnt_chrgrp)
    ok_tags = True
    if cls == "ext":
        tags = [int(str(s)[1:]) for s in g.vrnt_name]
        # all riding columns must still describe the same original row
        ok_tags = all(str(f) == f"f{t}" and int(st) == int(p) + 7 + t
                      for f, st, p, t in zip(g.vrnt_fncode, g.vrnt_stop, g.vrnt_phypos, tags))
    rows = [[int(c), int(p), canon.enc(float(x)), t] for c, p, x, t in
            zip(g.vrnt_chrgrp, g.vrnt_phypos, g.vrnt_genpos, tags)]
    return rows, ok_tags


def _contiguous(chr_):
    seen, prev = set(), object()
    for c in chr_:
        if c != prev:
            if c in seen:
                return False
            seen.add(c)
            prev = c
    return True


class C11(Prop):
    PID = "C11"
    MODULE = "PybropsModel.Props.C11"
    N_QUICK = 500
    N_THOROUGH = 12000
    RULE = ("maps with 1-5 chromosomes (arbitrary integer labels) x 2-8 markers, distinct integer physical "
            "positions per chromosome (shared across chromosomes), dyadic genetic positions (70% congruent, with "
            "ties; 30% not), rows shuffled, both map classes, auto_group on/off; queries at knots, strictly "
            "between flanking markers, outside the range, on absent chromosomes; distance arrays with 1-4 "
            "chromosome runs, optional NaN positions and slices; map-function arguments 0, tiny, dyadic, large, "
            "inf; genotype matrices (phased/unphased) whose variants are grouped by the real group_vrnt, 70% with a "
            "history of 1-4 placements (interp_xoprob / interp_genpos) on TWO different maps and map functions on the "
            "same object, half of those constructed with unrelated preset vrnt_genpos / vrnt_xoprob.  "
            "Non-trivial = mapfn case with >= 3 distinct distances incl. a positive finite one; gdist case "
            "with >= 2 runs and a run of >= 3 markers; interp case with shuffled rows and a query strictly "
            "between two markers; xoprob case with >= 2 chromosomes and a chromosome with >= 2 variants")
    TRUSTED = ["scipy interp1d (kind='linear', fill_value='extrapolate'): contract = searchsorted/clip + "
               "de Boor segment formula of scipy 1.18 `_call_linear`, re-checked on every case",
               "libm exp/log/tanh/atanh of numpy vs Lean's Float (compared to 1e-12 relative)",
               "DenseVariantMatrix.group_vrnt (property C03) is used as is to group the genotype matrix"]
    ASSUMPTIONS = ["genetic positions are dyadic rationals, physical positions integers: float results are "
                   "within 1e-9 of the exact rational model",
                   "gdist1g/gdist1p are called on label arrays whose equal labels are contiguous (documented "
                   "precondition 'sorted'; interp_xoprob enforces it through is_grouped_vrnt)",
                   "round trip invmapfn(mapfn d): demanded to 1e-10 + 2*2^-50*3^ceil(kappa d) (kappa = 2 Haldane, 4 Kosambi), the "
                   "conditioning bound proved in mapfn_roundtrip_conditioning for a float mapfn accurate to 8 ulp of 1; "
                   "nothing is demanded once 4*2^-50*3^ceil(kappa d) > 1 (d > 15 M / 7.5 M) except d = inf"]

    # ------------------------------------------------------------------ generation
    def _gen_map(self, rng, nchr=None, labels=None, like=None):
        """`like`: rows of another map; chromosomes shared with it get their markers in the same physical
        region (so that a matrix laid out for one map is not extrapolated absurdly far on the other)"""
        nchr = nchr or rng.choice([1, 2, 2, 3, 3, 4, 5])
        labels = list(labels) if labels is not None else rng.sample([-2, 0, 1, 2, 3, 4, 5, 7, 9, 12, 20], nchr)
        rows = []
        congruent = rng.random() < 0.7
        for c in labels:
            nm = rng.choice([2, 2, 3, 3, 4, 5, 6, 8])
            span = rng.choice([10, 40, 100, 1000, 1000000])
            ref = sorted(int(r[1]) for r in (like or []) if r[0] == c)
            if ref:
                lo, hi = ref[0] - 5, max(ref[-1] + 5, ref[0] - 5 + nm)
                phys = sorted(rng.sample(range(lo, hi + 1), nm))
            else:
                phys = sorted(rng.sample(range(1, span * nm + 2), nm))
            if congruent:
                g = sorted(rng.randint(0, 192) for _ in range(nm))
                if rng.random() < 0.6:
                    g = sorted(set(g))
                    while len(g) < nm:
                        g.append(g[-1] + rng.randint(1, 16))
            else:
                g = [rng.randint(0, 192) for _ in range(nm)]
            for p, x in zip(phys, g):
                rows.append([c, p, canon.enc(Fraction(x, 64)), 0])
        rng.shuffle(rows)
        for t, r in enumerate(rows):
            r[3] = t
        return rows

    def _gen_queries(self, rng, rows, nq=None, sort=False):
        chrs = sorted({r[0] for r in rows})
        absent = [c for c in [0, 1, 2, 3, 6, 8, 11, 30, -1] if c not in chrs]
        nq = nq or rng.randint(1, 12)
        q = []
        for _ in range(nq):
            u = rng.random()
            if u < 0.12:
                q.append((rng.choice(absent), rng.randint(0, 500)))
                continue
            c = rng.choice(chrs)
            ph = sorted(int(r[1]) for r in rows if r[0] == c)
            if u < 0.4:
                q.append((c, rng.choice(ph)))
            elif u < 0.8:
                i = rng.randrange(len(ph) - 1)
                if ph[i + 1] - ph[i] > 1:
                    q.append((c, rng.randint(ph[i] + 1, ph[i + 1] - 1)))
                else:
                    q.append((c, ph[i]))
            elif u < 0.9:
                q.append((c, ph[0] - rng.randint(1, 50)))
            else:
                q.append((c, ph[-1] + rng.randint(1, 50)))
        if sort:
            q.sort()
        return [a for a, _ in q], [b for _, b in q]

    def corpus(self):
        rows = [[2, 10, 0, 0], [1, 30, "1/2", 1], [1, 10, "1/10", 2], [2, 40, "9/10", 3], [1, 20, "1/4", 4],
                [2, 20, "3/10", 5]]
        rows_d = [[2, 10, 0, 0], [1, 30, "1/2", 1], [1, 10, "1/8", 2], [2, 40, "7/8", 3], [1, 20, "1/4", 4],
                  [2, 20, "3/8", 5]]
        out = []
        for fn in ("haldane", "kosambi"):
            out.append({"kind": "mapfn", "fn": fn,
                        "d": [0, "1/1048576", "1/8", "1/2", 1, 3, 6, 20, 50, "inf"]})
            out.append({"kind": "mapfn", "fn": fn, "d": ["inf"]})
            out.append({"kind": "mapfn", "fn": fn, "d": [0]})
        for cls in ("std", "ext"):
            out.append({"kind": "interp", "cls": cls, "auto_group": True, "rows": rows_d,
                        "perm": [5, 3, 1, 0, 2, 4], "qchr": [1, 1, 1, 2, 2, 3, 1], "qphy": [10, 15, 40, 5, 40, 7, 0],
                        "qsorted": False})
            out.append({"kind": "interp", "cls": cls, "auto_group": False, "rows": rows_d,
                        "perm": [1, 0, 3, 2, 5, 4], "qchr": [1, 1, 1, 2, 2, 2, 3], "qphy": [10, 15, 30, 10, 25, 40, 7],
                        "qsorted": True})
            # a map with one chromosome and exactly two markers; queries only outside / at the knots
            out.append({"kind": "interp", "cls": cls, "auto_group": True,
                        "rows": [[4, 100, "3/4", 0], [4, 50, "1/4", 1]], "perm": [1, 0],
                        "qchr": [4, 4, 4, 4, 5], "qphy": [50, 100, 0, 150, 75], "qsorted": True})
            out.append({"kind": "gdist", "cls": cls, "chr": [1, 1, 1, 2, 2, 2],
                        "gen": ["1/8", "1/4", "1/2", 0, "3/8", "7/8"], "slices": None})
            out.append({"kind": "gdist", "cls": cls, "chr": [3], "gen": ["1/8"], "slices": None})
            out.append({"kind": "gdist", "cls": cls, "chr": [1, 2, 1], "gen": ["5/32", "25/64", "25/32"], "slices": None})
            out.append({"kind": "gdist", "cls": cls, "chr": [5, 5, 2, 2, 2], "gen": ["1/8", "nan", "1/2", "1/2", 1],
                        "slices": {"ast": 1, "asp": 4, "rst": 0, "rsp": 3, "cst": 2, "csp": None}})
        for fn in ("haldane", "kosambi"):
            out.append({"kind": "xoprob", "cls": "std", "fn": fn, "phased": True, "rows": rows,
                        "mchr": [2, 1, 1, 2, 3], "mphy": [15, 12, 25, 35, 5]})
            out.append({"kind": "xoprob", "cls": "ext", "fn": fn, "phased": False, "rows": rows_d,
                        "mchr": [2, 1, 1, 2, 3, 3, 1], "mphy": [15, 12, 25, 35, 5, 9, 30]})
        # editing histories: one pass of remove_discrepancies leaves [0, 5, 2, 6]; the spline is the old one
        # until build_spline is called
        rows_e = [[1, 10, 0, 0], [1, 20, 5, 1], [1, 30, 1, 2], [1, 40, 2, 3], [1, 50, 6, 4], [2, 5, 0, 5], [2, 9, 1, 6]]
        for cls in ("std", "ext"):
            out.append({"kind": "edit", "cls": cls, "auto_group": True, "rows": rows_e,
                        "ops": [{"op": "rd"}, {"op": "build"}, {"op": "rd"}, {"op": "remove", "idx": [0]},
                                {"op": "select", "idx": [2, 0, 1]}],
                        "qchr": [1, 1, 1, 2, 3], "qphy": [30, 25, 45, 7, 1]})
            out.append({"kind": "edit", "cls": cls, "auto_group": False, "rows": list(reversed(rows_e)),
                        "ops": [{"op": "remove", "idx": [1, 3]}, {"op": "build"}, {"op": "rd"}],
                        "qchr": [1, 1, 2], "qphy": [30, 25, 7]})
        rows_k = [[1, 10, 0, 0], [1, 20, "1/2", 1], [1, 30, "3/4", 2], [1, 40, "3/2", 3], [1, 50, 2, 4],
                  [2, 5, 0, 5], [2, 9, 1, 6], [2, 13, "5/4", 7], [2, 20, 3, 8], [2, 31, 4, 9]]
        for kind in ("slinear", "previous", "next", "zero", "nearest", "nearest-up", "quadratic", "cubic"):
            for cls in ("std", "ext"):
                out.append({"kind": "spline", "cls": cls, "spline_kind": kind, "rows": rows_k,
                            "perm": [9, 8, 7, 6, 5, 4, 3, 2, 1, 0],
                            "qchr": [1, 1, 1, 1, 1, 1, 2, 3, 2], "qphy": [10, 15, 20, 25, 5, 60, 7, 1, 31]})
        rows_p = [[1, p, canon.enc(Fraction(gp, 16)), t] for t, (p, gp) in enumerate(
            [(10, 0), (12, 1), (19, 2), (20, 4), (31, 5), (40, 9), (41, 10), (60, 16), (75, 17), (100, 32)])] + \
                 [[2, 5, 0, 10], [2, 50, "1/2", 11], [2, 51, 1, 12]]
        for nt_, m_ in ((20, None), (None, "1/2"), (15, "1/2"), (7, None), (None, 1)):
            out.append({"kind": "edit", "cls": "ext", "auto_group": True, "rows": rows_p,
                        "ops": [{"op": "prune", "nt": nt_, "M": m_}, {"op": "build"}],
                        "qchr": [1, 1, 2], "qphy": [10, 55, 30]})
        out.append({"kind": "sortdup", "cls": "ext",
                    "rows": [[1, 10, "1/2", 0], [1, 10, "1/2", 1], [1, 10, "1/4", 2], [1, 5, 1, 3], [1, 10, "1/2", 4],
                             [0, 10, "1/2", 5], [1, 5, 1, 6]]})
        # one matrix placed on a map, then on a DIFFERENT map (and map function); and a matrix constructed
        # with unrelated vrnt_genpos / vrnt_xoprob: the answer must come from the map actually passed
        rows_b = [[1, 10, 0, 0], [1, 30, 2, 1], [2, 10, "1/2", 2], [2, 40, "3/4", 3], [3, 1, 0, 4], [3, 9, 1, 5]]
        other = {"haldane": "kosambi", "kosambi": "haldane"}
        for fn in ("haldane", "kosambi"):
            out.append({"kind": "xoprob", "cls": "std", "fn": fn, "phased": True, "rows": rows_d, "rows2": rows_b,
                        "mchr": [2, 1, 1, 2, 3], "mphy": [15, 12, 25, 35, 5], "preset": None,
                        "steps": [{"op": "xoprob", "map": 0, "fn": fn}, {"op": "xoprob", "map": 1, "fn": other[fn]},
                                  {"op": "genpos", "map": 0, "fn": fn}, {"op": "xoprob", "map": 0, "fn": fn}]})
            out.append({"kind": "xoprob", "cls": "std", "fn": fn, "phased": False, "rows": rows_d, "rows2": rows_b,
                        "mchr": [2, 1, 1, 2, 3], "mphy": [15, 12, 25, 35, 5],
                        "preset": {"genpos": [5, "11/2", 6, "13/2", 7], "xoprob": ["1/4", "1/8", "1/16", "1/32", "1/64"]},
                        "steps": [{"op": "xoprob", "map": 1, "fn": fn}, {"op": "genpos", "map": 0, "fn": fn}]})
            out.append({"kind": "xoprob", "cls": "ext", "fn": fn, "phased": True, "rows": rows_b, "rows2": rows_d,
                        "mchr": [1, 1, 2], "mphy": [12, 25, 35],
                        "preset": {"genpos": [9, 8, 7], "xoprob": None},
                        "steps": [{"op": "genpos", "map": 0, "fn": fn}, {"op": "xoprob", "map": 1, "fn": fn}]})
        return out

    def generate(self, rng, n, tier):
        out = []
        for _ in range(n):
            u = rng.random()
            cls = rng.choice(["std", "ext"])
            if u < 0.15:
                pool = [0, 0, Fraction(1, 2 ** 40), Fraction(1, 1024), Fraction(1, 64), Fraction(1, 8), Fraction(1, 4),
                        Fraction(1, 2), 1, Fraction(3, 2), 2, 3, Fraction(9, 2), 6, 7, Fraction(15, 2), 10, 12, 14, 15,
                        20, 40, 700, "inf"]
                k = rng.randint(1, 10)
                d = [rng.choice(pool) if rng.random() < 0.6 else Fraction(rng.randint(0, 16 * 256), 256)
                     for _ in range(k)]
                out.append({"kind": "mapfn", "fn": rng.choice(["haldane", "kosambi"]),
                            "d": [x if isinstance(x, str) else canon.enc(Fraction(x)) for x in d]})
            elif u < 0.35:
                nrun = rng.choice([1, 2, 2, 3, 4])
                labels = rng.sample([0, 1, 2, 3, 5, 8, 13], nrun)
                if rng.random() < 0.7:
                    labels.sort()
                chr_, gen = [], []
                for c in labels:
                    nm = rng.choice([1, 2, 3, 3, 4, 6])
                    g = [rng.randint(0, 256) for _ in range(nm)]
                    if rng.random() < 0.75:
                        g.sort()
                    for x in g:
                        chr_.append(c)
                        gen.append("nan" if rng.random() < 0.04 else canon.enc(Fraction(x, 64)))
                if rng.random() < 0.12 and len(chr_) >= 3:
                    # labels NOT contiguous (outside the documented precondition of gdist1g): only the
                    # literal loop model is compared there, on the cells the loop writes
                    z = list(zip(chr_, gen))
                    rng.shuffle(z)
                    chr_, gen = [a for a, _ in z], [b for _, b in z]
                sl = None
                if rng.random() < 0.4:
                    n_ = len(chr_)
                    pick = lambda: rng.choice([None, rng.randint(0, n_)])
                    sl = {k: pick() for k in ("ast", "asp", "rst", "rsp", "cst", "csp")}
                out.append({"kind": "gdist", "cls": cls, "chr": chr_, "gen": gen, "slices": sl})
            elif u < 0.47:
                # history of editing calls on ONE map object (remove / select / remove_discrepancies /
                # build_spline), interrogated after every call
                rows = self._gen_map(rng)
                n0 = len(rows)
                ops = []
                n_est = n0
                for _ in range(rng.randint(1, 4)):
                    w = rng.random()
                    if w < 0.3 and n_est > 2:
                        kk = rng.randint(1, min(2, n_est - 1))
                        ops.append({"op": "remove", "idx": sorted(rng.sample(range(n_est), kk))})
                        n_est -= kk
                    elif w < 0.5 and n_est > 2:
                        kk = rng.randint(max(1, n_est - 2), n_est)
                        ops.append({"op": "select", "idx": rng.sample(range(n_est), kk)})
                        n_est = kk
                    elif w < 0.7:
                        ops.append({"op": "rd"})
                        n_est = 0         # size unknown from here on: no index-based calls any more
                    elif w < 0.85 and cls == "ext":
                        mode = rng.choice(["nt", "M", "both"])
                        ops.append({"op": "prune",
                                    "nt": None if mode == "M" else rng.choice([3, 7, 20, 50, 200, 5000, 300000]),
                                    "M": None if mode == "nt" else canon.enc(Fraction(rng.choice([1, 2, 4, 8, 16, 48]), 16))})
                        n_est = 0
                    else:
                        ops.append({"op": "build"})
                qchr, qphy = self._gen_queries(rng, rows, nq=rng.randint(2, 8))
                out.append({"kind": "edit", "cls": cls, "auto_group": rng.random() < 0.8, "rows": rows,
                            "ops": ops, "qchr": qchr, "qphy": qphy})
            elif u < 0.53:
                # spline kinds other than the default: step kinds and slinear through the Lean model, quadratic and
                # cubic against the kind-independent part of the clause only
                kind = rng.choice(["slinear", "previous", "next", "zero", "nearest", "nearest-up", "quadratic", "cubic"])
                rows = self._gen_map(rng)
                if kind in ("quadratic", "cubic"):
                    # these need >= 3 / 4 knots per chromosome: top every chromosome up to 5 markers
                    extra = []
                    for c in sorted({r[0] for r in rows}):
                        ph = [int(r[1]) for r in rows if r[0] == c]
                        while len(ph) + sum(1 for e in extra if e[0] == c) < 5:
                            np_ = max(ph + [e[1] for e in extra if e[0] == c]) + rng.randint(1, 30)
                            extra.append([c, np_, canon.enc(Fraction(rng.randint(0, 192), 64)), 0])
                    rows = rows + extra
                    rng.shuffle(rows)
                    for t, r in enumerate(rows):
                        r[3] = t
                qchr, qphy = self._gen_queries(rng, rows)
                perm = list(range(len(rows)))
                rng.shuffle(perm)
                out.append({"kind": "spline", "cls": cls, "spline_kind": kind, "rows": rows, "perm": perm,
                            "qchr": qchr, "qphy": qphy})
            elif u < 0.56:
                # duplicated sort keys with different riding columns: the stored order shows the STABILITY of the
                # three-pass lexsort (extended class only; such maps are outside the property's quantifier)
                rows = self._gen_map(rng, nchr=rng.choice([1, 2]))
                extra = []
                for r in rng.sample(rows, min(len(rows), rng.randint(1, 4))):
                    d = list(r)
                    if rng.random() < 0.5:
                        d[2] = canon.enc(Fraction(rng.randint(0, 192), 64))     # same (chr, phy), other genpos
                    extra.append(d)
                rows = rows + extra
                rng.shuffle(rows)
                for t, r in enumerate(rows):
                    r[3] = t
                out.append({"kind": "sortdup", "cls": "ext", "rows": rows})
            elif u < 0.75:
                rows = self._gen_map(rng)
                qsorted = rng.random() < 0.5
                qchr, qphy = self._gen_queries(rng, rows, sort=qsorted)
                perm = list(range(len(rows)))
                rng.shuffle(perm)
                out.append({"kind": "interp", "cls": cls, "auto_group": rng.random() < 0.7, "rows": rows,
                            "perm": perm, "qchr": qchr, "qphy": qphy, "qsorted": qsorted})
            else:
                rows = self._gen_map(rng)
                mchr, mphy = self._gen_queries(rng, rows, nq=rng.randint(1, 14))
                # variants of a matrix: distinct (chr, phy) so that the grouping order is determined
                seen, c2, p2 = set(), [], []
                for c, p in zip(mchr, mphy):
                    if (c, p) not in seen:
                        seen.add((c, p))
                        c2.append(c)
                        p2.append(p)
                fn = rng.choice(["haldane", "kosambi"])
                case = {"kind": "xoprob", "cls": cls, "fn": fn,
                        "phased": rng.random() < 0.5, "rows": rows, "mchr": c2, "mphy": p2}
                if rng.random() < 0.7:
                    # history on ONE matrix object: several placements on two different maps / map functions,
                    # optionally starting from unrelated preset positions / probabilities
                    labels = sorted({r[0] for r in rows})
                    if rng.random() < 0.3 and len(labels) > 1:
                        labels = labels[:-1] + [31]        # one chromosome replaced by another one
                    case["rows2"] = self._gen_map(rng, labels=labels, like=rows)
                    nst = rng.randint(1, 4)
                    steps = [{"op": rng.choice(["xoprob", "xoprob", "genpos"]), "map": rng.randint(0, 1),
                              "fn": rng.choice(["haldane", "kosambi"])} for _ in range(nst)]
                    if nst >= 2 and all(st["map"] == steps[0]["map"] for st in steps):
                        steps[-1]["map"] = 1 - steps[0]["map"]
                    case["steps"] = steps
                    case["preset"] = None
                    if rng.random() < 0.5:
                        nv = len(c2)
                        case["preset"] = {
                            "genpos": [canon.enc(Fraction(rng.randint(200, 900), 64)) for _ in range(nv)],
                            "xoprob": ([canon.enc(Fraction(rng.randint(1, 31), 64)) for _ in range(nv)]
                                       if rng.random() < 0.6 else None)}
                out.append(case)
        return out

    # ------------------------------------------------------------------ implementation
    def run_impl(self, case):
        k = case["kind"]
        if k == "mapfn":
            fn = _mapfn(case["fn"])
            d = numpy.array([_f(x) for x in case["d"]], dtype=float)
            d0 = d.copy()
            r = fn.mapfn(d)
            dinv = fn.invmapfn(r)
            return {"r": canon.enc(r), "dinv": canon.enc(dinv),
                    "input_untouched": bool(numpy.array_equal(d, d0))}
        if k == "gdist":
            base = [[1, 10, 0, 0], [1, 20, "1/2", 1]]
            g = _build_map(case["cls"], base)
            chr_ = numpy.array(case["chr"], dtype=int)
            gen = numpy.array([_f(x) for x in case["gen"]], dtype=float)
            obs = {"d1": canon.enc(g.gdist1g(chr_, gen)), "d2": canon.enc(g.gdist2g(chr_, gen))}
            sl = case.get("slices")
            if sl:
                obs["d1s"] = canon.enc(g.gdist1g(chr_, gen, sl["ast"], sl["asp"]))
                obs["d2s"] = canon.enc(g.gdist2g(chr_, gen, sl["rst"], sl["rsp"], sl["cst"], sl["csp"]))
            return obs
        if k == "interp":
            rows = case["rows"]
            g = _build_map(case["cls"], rows, case["auto_group"])
            stored0, tags_ok0 = _stored(case["cls"], g)     # before any call that may group as a side effect
            meta0 = None
            if g.is_grouped():
                meta0 = [[int(a), int(b), int(c), int(d)] for a, b, c, d in
                         zip(g.vrnt_chrgrp_name, g.vrnt_chrgrp_stix, g.vrnt_chrgrp_spix, g.vrnt_chrgrp_len)]
            qchr = numpy.array(case["qchr"], dtype=int)
            qphy = numpy.array(case["qphy"], dtype=int)
            out = g.interp_genpos(qchr, qphy)
            obs = {"stored": stored0, "tags_ok": tags_ok0, "meta": meta0, "out": canon.enc(out)}
            if case["auto_group"]:
                obs["congruence"] = canon.enc(g.congruence())
                obs["is_congruent"] = bool(g.is_congruent())
            # a second map object from the same rows supplied in another order
            g2 = _build_map(case["cls"], [rows[i] for i in case["perm"]], case["auto_group"])
            stored2, tags_ok2 = _stored(case["cls"], g2)
            obs["out2"] = canon.enc(g2.interp_genpos(qchr, qphy))
            obs["stored2"] = stored2
            obs["tags_ok"] = tags_ok0 and tags_ok2
            # interp_gmap: new map object carrying the interpolated positions
            if case["cls"] == "std":
                gm = g.interp_gmap(qchr, qphy)
            else:
                gm = g.interp_gmap(qchr, qphy, qphy + 1)
            obs["gmap_genpos"] = canon.enc(gm.vrnt_genpos)
            obs["gmap_labels_ok"] = bool(numpy.array_equal(gm.vrnt_chrgrp, qchr) and
                                         numpy.array_equal(gm.vrnt_phypos, qphy))
            obs["d2p"] = canon.enc(g.gdist2p(qchr, qphy))
            if case["qsorted"]:
                obs["d1p"] = canon.enc(g.gdist1p(qchr, qphy))
            # distances of the stored map itself
            # distances of the stored map itself (the constructor grouped it, so its own label array must
            # meet the precondition of gdist1g)
            if case["auto_group"]:
                g3 = _build_map(case["cls"], rows, True)
                obs["d1_stored"] = canon.enc(g3.gdist1g(g3.vrnt_chrgrp, g3.vrnt_genpos))
                obs["d2_stored"] = canon.enc(g3.gdist2g(g3.vrnt_chrgrp, g3.vrnt_genpos))
                obs["stored3"] = _stored(case["cls"], g3)[0]
            return obs
        if k == "spline":
            def build(rows):
                if case["cls"] == "std":
                    m_ = _mods()
                    chr_ = numpy.array([r[0] for r in rows], dtype=int)
                    phy = numpy.array([int(Fraction(r[1])) for r in rows], dtype=int)
                    gen = numpy.array([_f(r[2]) for r in rows], dtype=float)
                    return m_["sgm"].StandardGeneticMap(chr_, phy, gen, spline_kind=case["spline_kind"])
                # the extended constructor builds its spline with the default kind whatever `spline_kind` says:
                # build the requested kind explicitly
                g_ = _build_map("ext", rows)
                g_.build_spline(kind=case["spline_kind"])
                return g_
            qchr = numpy.array(case["qchr"], dtype=int)
            qphy = numpy.array(case["qphy"], dtype=int)
            g = build(case["rows"])
            g2 = build([case["rows"][i] for i in case["perm"]])
            return {"out": canon.enc(g.interp_genpos(qchr, qphy)), "out2": canon.enc(g2.interp_genpos(qchr, qphy)),
                    "kind_stored": str(g.spline_kind)}
        if k == "sortdup":
            g = _build_map(case["cls"], case["rows"])
            stored, tags_ok = _stored(case["cls"], g)
            return {"stored": stored, "tags_ok": tags_ok}
        if k == "edit":
            g = _build_map(case["cls"], case["rows"], case["auto_group"])
            qchr = numpy.array(case["qchr"], dtype=int)
            qphy = numpy.array(case["qphy"], dtype=int)
            done, snaps = [], []
            built_from, _ = _stored(case["cls"], g)        # rows the current spline was built from

            def counts_ok():
                _, cnt = numpy.unique(g.vrnt_chrgrp, return_counts=True)
                return len(cnt) > 0 and bool((cnt >= 2).all())
            for o in case["ops"]:
                n = len(g.vrnt_chrgrp)
                if o["op"] == "remove":
                    if not o["idx"] or max(o["idx"]) >= n or n - len(o["idx"]) < 1:
                        continue
                    g.remove(numpy.array(o["idx"], dtype=int))
                elif o["op"] == "select":
                    if not o["idx"] or max(o["idx"]) >= n:
                        continue
                    g.select(numpy.array(o["idx"], dtype=int))
                elif o["op"] == "rd":
                    g.remove_discrepancies()
                elif o["op"] == "prune":
                    g.prune(nt=o["nt"], M=None if o["M"] is None else _f(o["M"]))
                elif o["op"] == "build":
                    if not counts_ok():            # interp1d needs two knots per chromosome
                        continue
                    g.build_spline()
                    built_from, _ = _stored(case["cls"], g)
                for step in (o, {"op": "interp", "qchr": case["qchr"], "qphy": case["qphy"]}):
                    if step["op"] == "interp":
                        outv = canon.enc(g.interp_genpos(qchr, qphy))
                    else:
                        outv = None
                    stored, tags_ok = _stored(case["cls"], g)
                    meta = None
                    if g.is_grouped():
                        meta = [[int(a), int(b), int(c), int(d)] for a, b, c, d in
                                zip(g.vrnt_chrgrp_name, g.vrnt_chrgrp_stix, g.vrnt_chrgrp_spix, g.vrnt_chrgrp_len)]
                    done.append(step)
                    snaps.append({"stored": stored, "tags_ok": tags_ok, "meta": meta, "out": outv,
                                  "built_from": built_from})
            # is_congruent() groups an ungrouped map: ask last
            return {"done": done, "snaps": snaps, "is_congruent": bool(g.is_congruent())}
        if k == "xoprob":
            m = _mods()
            maps = [_build_map(case["cls"], case["rows"])]
            if case.get("rows2"):
                maps.append(_build_map(case["cls"], case["rows2"]))
            g = maps[0]
            fn = _mapfn(case["fn"])
            nv = len(case["mchr"])
            vc = numpy.array(case["mchr"], dtype=int)
            vp = numpy.array(case["mphy"], dtype=int)
            kw = {}
            pre = case.get("preset")
            if pre:
                kw["vrnt_genpos"] = numpy.array([_f(x) for x in pre["genpos"]], dtype=float)
                if pre.get("xoprob") is not None:
                    kw["vrnt_xoprob"] = numpy.array([_f(x) for x in pre["xoprob"]], dtype=float)
            if case["phased"]:
                mat = numpy.zeros((2, 2, nv), dtype="int8")
                gm = m["dpgm"].DensePhasedGenotypeMatrix(mat, vrnt_chrgrp=vc, vrnt_phypos=vp, **kw)
            else:
                mat = numpy.zeros((2, nv), dtype="int8")
                gm = m["dgm"].DenseGenotypeMatrix(mat, vrnt_chrgrp=vc, vrnt_phypos=vp, **kw)
            gm.group_vrnt()

            def snap():
                return {"genpos": None if gm.vrnt_genpos is None else canon.enc(numpy.array(gm.vrnt_genpos)),
                        "xoprob": None if gm.vrnt_xoprob is None else canon.enc(numpy.array(gm.vrnt_xoprob))}
            snaps = [snap()]           # state after grouping, before any placement
            for st in self._steps(case):
                if st["op"] == "xoprob":
                    gm.interp_xoprob(maps[st["map"]], _mapfn(st["fn"]))
                else:
                    gm.interp_genpos(maps[st["map"]])
                snaps.append(snap())
            qc, qp = gm.vrnt_chrgrp, gm.vrnt_phypos
            gp = g.interp_genpos(qc, qp)
            return {"qchr": canon.enc(qc), "qphy": canon.enc(qp), "snaps": snaps,
                    "genpos": snaps[-1]["genpos"], "xoprob": snaps[-1]["xoprob"],
                    # the four rprob wrappers of the map-function class on the same variants
                    "r1p": canon.enc(fn.rprob1p(g, qc, qp)), "r2p": canon.enc(fn.rprob2p(g, qc, qp)),
                    "r1g": canon.enc(fn.rprob1g(g, qc, gp)), "r2g": canon.enc(fn.rprob2g(g, qc, gp))}
        raise ValueError(k)

    # ------------------------------------------------------------------ model requests
    def requests(self, case, obs):
        k = case["kind"]
        if k == "mapfn":
            return [{"op": "c11.mapfn", "fn": case["fn"], "d": case["d"]},
                    {"op": "c11.spec_mapfn", "fn": case["fn"], "d": case["d"], "r": obs["r"], "dinv": obs["dinv"]}]
        if k == "gdist":
            reqs = [{"op": "c11.gdist", "chr": case["chr"], "gen": case["gen"]},
                    {"op": "c11.spec_gdist", "chr": case["chr"], "gen": case["gen"], "d2": obs["d2"],
                     **({"d1": obs["d1"]} if _contiguous(case["chr"]) else {})}]
            if case.get("slices"):
                reqs.append({"op": "c11.gdist", "chr": case["chr"], "gen": case["gen"], **case["slices"]})
            return reqs
        if k == "interp":
            q = {"qchr": case["qchr"], "qphy": case["qphy"]}
            return [{"op": "c11.construct", "rows": case["rows"]},
                    {"op": "c11.interp", "rows": case["rows"], **q},
                    {"op": "c11.spec_interp", "rows": case["rows"], **q, "out": obs["out"], "out2": obs["out2"]},
                    {"op": "c11.gdistp", "rows": case["rows"], **q},
                    # distance clause on the *interpolated* positions (gdist1p only for sorted queries)
                    {"op": "c11.spec_gdist", "chr": case["qchr"], "gen": obs["out"], "d2": obs["d2p"],
                     **({"d1": obs["d1p"]} if self._seq_ok(case) else {})}] + (
                    # distance clause on the stored arrays of the constructed (grouped) map
                    [{"op": "c11.spec_gdist", "chr": [r[0] for r in obs["stored3"]],
                      "gen": [r[2] for r in obs["stored3"]], "d1": obs["d1_stored"], "d2": obs["d2_stored"]}]
                    if case["auto_group"] else [])
        if k == "spline":
            q = {"rows": case["rows"], "qchr": case["qchr"], "qphy": case["qphy"]}
            lin = case["spline_kind"] == "slinear"
            reqs = [{"op": "c11.spec_interp", **q, "out": obs["out"], "out2": obs["out2"], "linear": lin,
                     "one_sided_missing": case["spline_kind"] in ("previous", "next")}]
            if case["spline_kind"] not in ("quadratic", "cubic"):
                reqs.append({"op": "c11.interpk", "spline_kind": case["spline_kind"], **q})
            return reqs
        if k == "sortdup":
            return [{"op": "c11.construct", "rows": case["rows"]}]
        if k == "edit":
            reqs = [{"op": "c11.edit", "rows": case["rows"], "auto_group": case["auto_group"], "ops": obs["done"]}]
            # the interpolation clause of the property, for the map the spline was built from
            for st, sn in zip(obs["done"], obs["snaps"]):
                if st["op"] == "interp":
                    reqs.append({"op": "c11.spec_interp", "rows": sn["built_from"], "qchr": st["qchr"],
                                 "qphy": st["qphy"], "out": sn["out"], "out2": sn["out"]})
            return reqs
        if k == "xoprob":
            q = {"qchr": obs["qchr"], "qphy": obs["qphy"]}
            reqs = [{"op": "c11.rprob", "fn": case["fn"], "rows": case["rows"], **q}]
            for st, sn in zip(self._steps(case), obs["snaps"][1:]):
                rows = case["rows2"] if st["map"] == 1 else case["rows"]
                # model of this placement, and the Spec of the clause against the map ACTUALLY passed
                reqs.append({"op": "c11.xoprob", "fn": st["fn"], "rows": rows, **q})
                if st["op"] == "xoprob":
                    reqs.append({"op": "c11.spec_xoprob", "fn": st["fn"], "rows": rows, **q,
                                 "genpos": sn["genpos"] if sn["genpos"] is not None else [],
                                 "xoprob": sn["xoprob"] if sn["xoprob"] is not None else []})
                else:
                    gp = sn["genpos"] if sn["genpos"] is not None else []
                    reqs.append({"op": "c11.spec_interp", "rows": rows, **q, "out": gp, "out2": gp})
            return reqs
        raise ValueError(k)

    @staticmethod
    def _steps(case):
        return case.get("steps") or [{"op": "xoprob", "map": 0, "fn": case["fn"]}]

    @staticmethod
    def _seq_ok(case):
        return bool(case["qsorted"]) and _contiguous(case["qchr"])

    # ------------------------------------------------------------------ verdicts
    @staticmethod
    def _close_list(a, b, rel=1e-9, abs_=1e-12):
        return (isinstance(a, list) and isinstance(b, list) and len(a) == len(b)
                and all(canon.close_enc(x, y, rel, abs_) for x, y in zip(a, b)))

    def judge(self, case, obs, answers):
        k = case["kind"]
        for a in answers:
            if "err" in a:
                raise RuntimeError("driver error: " + a["err"])
        ans = [a["ok"] for a in answers]
        # every Spec op also reports the oracle's verdict on the MODEL's own output for the same input; a
        # `false` there means the oracle demands more than the proved model delivers (over-strict oracle)
        selfbad = [i for i, a in enumerate(ans) if isinstance(a, dict) and a.get("self") is False]
        v = self._judge(case, obs, ans)
        if selfbad:
            v["corr"] = False
            v["detail"] = f"Spec oracle rejects the model's own output (requests {selfbad}); " + v["detail"]
        return v

    def _judge(self, case, obs, ans):
        k = case["kind"]
        if k == "mapfn":
            m, s = ans
            # r against the Float model; the inverse is compared through the Spec (conditioning)
            corr = self._close_list(m["r"], obs["r"], 1e-12, 1e-15)
            fin = [x for x in case["d"] if x != "inf"]
            # the two inverses start from probabilities that may differ by an ulp: each is within the conditioning
            # bound `invtol` (Model/GMapSpec.invTol, Lemmas/MapFnCond) of d, so they are within twice that
            inv_ok = all(t is None or canon.close_enc(a, b, 2e-9, 2 * float(Fraction(t)) + 1e-12)
                         for a, b, t in zip(m["inv"], obs["dinv"], m["invtol"]))
            corr = corr and inv_ok
            spec = bool(s["ok"]) and obs["input_untouched"]
            nontriv = len(set(map(str, case["d"]))) >= 3 and any(Fraction(x) > 0 for x in fin)
            return {"corr": corr, "spec": spec, "nontrivial": nontriv,
                    "detail": f"mapfn[{case['fn']}] spec: {s['detail']}; model r={m['r'][:4]} impl r={obs['r'][:4]}"}
        if k == "gdist":
            m, s = ans[0], ans[1]

            def lit_ok(lit, impl):     # cells the literal loop writes must agree; unwritten cells are garbage
                return len(lit) == len(impl) and all(a is None or canon.close_enc(a, b, 1e-9, 1e-12)
                                                     for a, b in zip(lit, impl))

            def seq_ok(mm, impl, labels):
                if not lit_ok(mm["d1lit"], impl):
                    return False
                if _contiguous(labels):      # closed form = loop (theorem gdist1_loop_eq_closed_form_partial)
                    return mm["d1lit"] == mm["d1"] and self._close_list(mm["d1"], impl)
                return True
            corr = seq_ok(m, obs["d1"], case["chr"]) and len(m["d2"]) == len(obs["d2"]) and all(
                self._close_list(a, b) for a, b in zip(m["d2"], obs["d2"]))
            if case.get("slices"):
                ms = ans[2]
                sl = case["slices"]
                corr = corr and seq_ok(ms, obs["d1s"], case["chr"][sl["ast"]:sl["asp"]]) and \
                    len(ms["d2"]) == len(obs["d2s"]) and all(
                    self._close_list(a, b) for a, b in zip(ms["d2"], obs["d2s"]))
            runs = []
            for c in case["chr"]:
                if runs and runs[-1][0] == c:
                    runs[-1][1] += 1
                else:
                    runs.append([c, 1])
            nontriv = len(runs) >= 2 and any(n >= 3 for _, n in runs) and _contiguous(case["chr"])
            return {"corr": corr, "spec": bool(s["ok"]), "nontrivial": nontriv,
                    "detail": f"gdist spec: {s['detail']}; model d1={m['d1']} impl d1={obs['d1']}"}
        if k == "interp":
            mc, mi, s, mp, sg = ans[:5]
            why = []
            # (1) constructor: stored arrays, riding columns, group metadata, congruence
            exp_rows = mc["rows"] if case["auto_group"] else case["rows"]
            same_rows = (len(exp_rows) == len(obs["stored"]) and all(
                a[0] == b[0] and canon.close_enc(a[1], b[1]) and canon.close_enc(a[2], b[2]) and
                (case["cls"] == "std" or a[3] == b[3]) for a, b in zip(exp_rows, obs["stored"])))
            if not same_rows:
                why.append("stored rows differ from model")
            if case["auto_group"]:
                if obs["meta"] != mc["meta"]:
                    why.append("group metadata")
                if obs["congruence"] != mc["congruence"] or obs["is_congruent"] != all(mc["congruence"]):
                    why.append("congruence")
            elif obs["meta"] is not None:
                why.append("ungrouped map carries metadata")
            if not obs["tags_ok"]:
                why.append("riding columns detached")
            # (2) interpolation
            if not self._close_list(mi["out"], obs["out"]):
                why.append("interp_genpos")
            if mi["out"] != mi["outS"]:
                why.append("model: literal and recursive interpolation differ")
            if not self._close_list(mi["out"], obs["gmap_genpos"]) or not obs["gmap_labels_ok"]:
                why.append("interp_gmap")
            if len(mp["d2"]) != len(obs["d2p"]) or not all(self._close_list(a, b) for a, b in zip(mp["d2"], obs["d2p"])):
                why.append("gdist2p")
            if self._seq_ok(case) and not self._close_list(mp["d1"], obs["d1p"]):
                why.append("gdist1p")
            corr = not why
            # Spec: the Lean oracle on interp_genpos + "nothing depends on the supplied row order"
            spec = bool(s["ok"]) and bool(sg["ok"])
            detail = s["detail"] + "; distances of interpolated positions: " + sg["detail"]
            if case["auto_group"] and obs["stored"] != obs["stored2"]:
                spec = False
                detail += "; stored arrays depend on the supplied row order"
            if case["auto_group"]:
                ss = ans[5]
                detail += "; distances of the stored map: " + ss["detail"]
                spec = spec and bool(ss["ok"])
            qs = list(zip(case["qchr"], case["qphy"]))
            between = any(any(r[0] == c and int(r[1]) < x for r in case["rows"]) and
                          any(r[0] == c and int(r[1]) > x for r in case["rows"]) and
                          not any(r[0] == c and int(r[1]) == x for r in case["rows"]) for c, x in qs)
            srt = sorted(case["rows"], key=lambda r: (r[0], int(r[1])))
            nontriv = between and srt != case["rows"]
            return {"corr": corr, "spec": spec, "nontrivial": nontriv,
                    "detail": f"interp[{case['cls']}] spec: {detail}; corr: {why or 'ok'}; out={obs['out']} model={mi['out']}"}
        if k == "spline":
            sp = ans[0]
            why = []
            if obs["kind_stored"] != case["spline_kind"]:
                why.append("spline_kind attribute")
            if len(ans) > 1 and not self._close_list(ans[1]["out"], obs["out"]):
                why.append("interp_genpos differs from the model of this spline kind")
            return {"corr": not why, "spec": bool(sp["ok"]), "nontrivial": len(case["qchr"]) >= 2,
                    "detail": f"spline[{case['cls']},{case['spline_kind']}] spec: {sp['detail']}; corr: {why or 'ok'}; "
                              f"out={obs['out']}" + (f" model={ans[1]['out']}" if len(ans) > 1 else "")}
        if k == "sortdup":
            mc = ans[0]

            def same(a, b):
                return len(a) == len(b) and all(x[0] == y[0] and canon.close_enc(x[1], y[1]) and
                                                canon.close_enc(x[2], y[2]) and x[3] == y[3] for x, y in zip(a, b))
            why = []
            if not same(mc["rows"], obs["stored"]):
                why.append("stored rows (incl. riding columns) differ from the lexicographic stable sort")
            if not same(mc["rows3"], obs["stored"]):
                why.append("stored rows differ from the three-pass lexsort")
            if not obs["tags_ok"]:
                why.append("riding columns detached")
            keys = [(r[0], str(r[1])) for r in case["rows"]]
            return {"corr": not why, "spec": True, "nontrivial": len(set(keys)) < len(keys),
                    "detail": f"sortdup corr: {why or 'ok'}; stored={obs['stored']}"}
        if k == "edit":
            msn = ans[0]
            why = []
            if len(msn) != len(obs["snaps"]):
                why.append("number of snapshots")
            for n, (st, a, b) in enumerate(zip(obs["done"], msn, obs["snaps"])):
                tag = f"step{n}:{st['op']}"
                same_rows = (len(a["rows"]) == len(b["stored"]) and all(
                    x[0] == y[0] and canon.close_enc(x[1], y[1]) and canon.close_enc(x[2], y[2]) and
                    (case["cls"] == "std" or x[3] == y[3]) for x, y in zip(a["rows"], b["stored"])))
                if not same_rows:
                    why.append(tag + " stored rows")
                if a["meta"] != b["meta"]:
                    why.append(tag + " group metadata")
                if not b["tags_ok"]:
                    why.append(tag + " riding columns detached")
                if st["op"] == "interp" and (a["out"] is None or not self._close_list(a["out"], b["out"])):
                    why.append(tag + " interp_genpos")
            if msn and msn[-1]["congruent"] != obs["is_congruent"]:
                why.append("is_congruent")
            specs = ans[1:]
            spec = all(x["ok"] for x in specs)
            edited = any(st["op"] in ("remove", "select", "rd", "prune") for st in obs["done"])
            return {"corr": not why, "spec": spec, "nontrivial": edited and len(obs["done"]) >= 2,
                    "detail": f"edit[{case['cls']}] spec: {[x['detail'] for x in specs if not x['ok']] or 'ok'}; "
                              f"corr: {why or 'ok'}; done={[st['op'] for st in obs['done']]}"}
        if k == "xoprob":
            mr = ans[0]
            why = []
            for key, mk in (("r1p", "r1"), ("r1g", "r1")):
                if not self._close_list(mr[mk], obs[key]):
                    why.append(key)
            for key in ("r2p", "r2g"):
                if len(mr["r2"]) != len(obs[key]) or not all(self._close_list(a, b) for a, b in zip(mr["r2"], obs[key])):
                    why.append(key)
            # the real group_vrnt must have produced a sorted arrangement of exactly the case's variants
            got = list(zip(obs["qchr"], obs["qphy"]))
            order = sorted(range(len(case["mchr"])), key=lambda i: (case["mchr"][i], case["mphy"][i]))
            if got != [(case["mchr"][i], case["mphy"][i]) for i in order]:
                why.append("matrix variants not grouped as (chr, phy)-sorted")
            # state before any placement: preset arrays carried along by the grouping, else absent
            pre = case.get("preset") or {}
            snaps = obs["snaps"]
            for key in ("genpos", "xoprob"):
                want = pre.get(key)
                if want is None:
                    if snaps[0][key] is not None:
                        why.append(f"{key} present before any placement")
                elif snaps[0][key] is None or not self._close_list([want[i] for i in order], snaps[0][key]):
                    why.append(f"preset {key} not carried along by group_vrnt")
            # every placement of the history: model of the map / map function actually passed
            spec, sdetail = True, []
            steps = self._steps(case)
            for n, st in enumerate(steps):
                mdl, sp = ans[1 + 2 * n], ans[2 + 2 * n]
                sn, prev = snaps[n + 1], snaps[n]
                tag = f"step{n}:{st['op']}(map{st['map']},{st['fn']})"
                if sn["genpos"] is None or not self._close_list(mdl["genpos"], sn["genpos"]):
                    why.append(tag + " vrnt_genpos")
                if st["op"] == "xoprob":
                    if sn["xoprob"] is None or not self._close_list(mdl["xoprob"], sn["xoprob"], 1e-9, 1e-12):
                        why.append(tag + " vrnt_xoprob")
                elif sn["xoprob"] != prev["xoprob"]:
                    why.append(tag + " changed vrnt_xoprob")
                if not sp["ok"]:
                    spec = False
                sdetail.append(f"{tag}: {sp['detail']}")
            runs = {}
            for c in obs["qchr"]:
                runs[c] = runs.get(c, 0) + 1
            nontriv = len(runs) >= 2 and any(n >= 2 for n in runs.values())
            return {"corr": not why, "spec": spec, "nontrivial": nontriv,
                    "detail": f"xoprob[{case['cls']}] spec: {'; '.join(sdetail)}; corr: {why or 'ok'}; "
                              f"final xoprob={obs['xoprob']}"}
        raise ValueError(k)

    def signature(self, case, obs, verdict):
        sig = {"kind": case["kind"]}
        for key in ("cls", "fn", "auto_group"):
            if key in case:
                sig[key] = case[key]
        return sig

    # ------------------------------------------------------------------ shrinking
    def shrink(self, case):
        k = case["kind"]
        if k == "mapfn":
            for i in range(len(case["d"])):
                if len(case["d"]) > 1:
                    yield {**case, "d": case["d"][:i] + case["d"][i + 1:]}
        elif k == "gdist":
            if case.get("slices"):
                yield {**case, "slices": None}
            for i in range(len(case["chr"])):
                if len(case["chr"]) > 1:
                    yield {**case, "chr": case["chr"][:i] + case["chr"][i + 1:],
                           "gen": case["gen"][:i] + case["gen"][i + 1:], "slices": None}
        elif k == "spline":
            for i in range(len(case["qchr"])):
                if len(case["qchr"]) > 1:
                    yield {**case, "qchr": case["qchr"][:i] + case["qchr"][i + 1:],
                           "qphy": case["qphy"][:i] + case["qphy"][i + 1:]}
        elif k == "sortdup":
            for i in range(len(case["rows"])):
                if len(case["rows"]) > 2:
                    yield {**case, "rows": case["rows"][:i] + case["rows"][i + 1:]}
        elif k == "edit":
            for i in range(len(case["ops"])):
                if len(case["ops"]) > 1:
                    yield {**case, "ops": case["ops"][:i] + case["ops"][i + 1:]}
            for i in range(len(case["qchr"])):
                if len(case["qchr"]) > 1:
                    yield {**case, "qchr": case["qchr"][:i] + case["qchr"][i + 1:],
                           "qphy": case["qphy"][:i] + case["qphy"][i + 1:]}
        elif k in ("interp", "xoprob"):
            qa, qb = ("qchr", "qphy") if k == "interp" else ("mchr", "mphy")
            if k == "xoprob":
                if case.get("preset"):
                    yield {**case, "preset": None}
                st = case.get("steps") or []
                for i in range(len(st)):
                    if len(st) > 1:
                        yield {**case, "steps": st[:i] + st[i + 1:]}
            for i in range(len(case[qa])):
                if len(case[qa]) > 1:
                    c2 = {**case, qa: case[qa][:i] + case[qa][i + 1:], qb: case[qb][:i] + case[qb][i + 1:]}
                    if k == "xoprob" and case.get("preset"):
                        pr = case["preset"]
                        c2["preset"] = {kk: (None if vv is None else vv[:i] + vv[i + 1:]) for kk, vv in pr.items()}
                    yield c2
            rows = case["rows"]
            for i in range(len(rows)):
                c = rows[i][0]
                if sum(1 for r in rows if r[0] == c) > 2:     # keep >= 2 markers per chromosome
                    new = [list(r) for j, r in enumerate(rows) if j != i]
                    for t, r in enumerate(new):
                        r[3] = t
                    c2 = {**case, "rows": new}
                    if k == "interp":
                        c2["perm"] = list(reversed(range(len(new))))
                    yield c2
            chrs = sorted({r[0] for r in rows})
            for c in chrs:
                if len(chrs) > 1:
                    new = [list(r) for r in rows if r[0] != c]
                    for t, r in enumerate(new):
                        r[3] = t
                    c2 = {**case, "rows": new}
                    if k == "interp":
                        c2["perm"] = list(reversed(range(len(new))))
                    yield c2

    # ------------------------------------------------------------------ self-test mutants
    def mutants(self):
        m = _mods()
        H = m["hmf"].HaldaneMapFunction
        K = m["kmf"].KosambiMapFunction
        S = m["sgm"].StandardGeneticMap
        E = m["egm"].ExtendedGeneticMap
        D = m["dgmm"].DenseGeneticMappableMatrix

        @contextlib.contextmanager
        def patch(obj, name, new):
            old = getattr(obj, name)
            setattr(obj, name, new)
            try:
                yield
            finally:
                setattr(obj, name, old)

        @contextlib.contextmanager
        def both(a, b):
            with a, b:
                yield

        def hald_exp_d(self, d):
            return 0.5 * (1.0 - numpy.exp(-d))

        def hald_inv_nofactor(self, r):
            return -numpy.log(1.0 - (2.0 * r))

        def kos_tanh_d(self, d):
            return 0.5 * numpy.tanh(d)

        def kos_inv_tan(self, r):
            return 0.5 * numpy.arctan(2.0 * r)

        def gdist1g_noinf(self, vrnt_chrgrp, vrnt_genpos, ast=None, asp=None):
            vg = vrnt_genpos[ast:asp]
            out = numpy.empty(vg.shape, dtype=float)
            if len(out):
                out[0] = numpy.inf
                out[1:] = vg[1:] - vg[:-1]
            return out

        def gdist2g_noabs(self, vrnt_chrgrp, vrnt_genpos, rst=None, rsp=None, cst=None, csp=None):
            mi, mj = numpy.meshgrid(vrnt_chrgrp[rst:rsp], vrnt_chrgrp[cst:csp], indexing='ij', sparse=True)
            gi, gj = numpy.meshgrid(vrnt_genpos[rst:rsp], vrnt_genpos[cst:csp], indexing='ij', sparse=True)
            out = gi - gj
            out[mi != mj] = numpy.inf
            return out

        def gdist2g_noinf(self, vrnt_chrgrp, vrnt_genpos, rst=None, rsp=None, cst=None, csp=None):
            gi, gj = numpy.meshgrid(vrnt_genpos[rst:rsp], vrnt_genpos[cst:csp], indexing='ij', sparse=True)
            return numpy.abs(gi - gj)

        def mk_interp1d_sorted(mod):
            real = mod.interp1d

            def interp1d_assume_sorted(x, y, kind='linear', fill_value=numpy.nan, assume_sorted=False, **kw):
                return real(x=x, y=y, kind=kind, fill_value=fill_value, assume_sorted=True, **kw)
            return interp1d_assume_sorted

        def mk_interp1d_nearest(mod):
            real = mod.interp1d

            def interp1d_prev(x, y, kind='linear', fill_value=numpy.nan, assume_sorted=False, **kw):
                return real(x=x, y=y, kind='previous', fill_value=fill_value, assume_sorted=assume_sorted, **kw)
            return interp1d_prev

        def interp_genpos_zero(self, vrnt_chrgrp, vrnt_phypos):
            out = numpy.empty(vrnt_phypos.shape, dtype=float)
            for i, (c, p) in enumerate(zip(vrnt_chrgrp, vrnt_phypos)):
                try:
                    out[i] = self._spline[c](p)
                except KeyError:
                    out[i] = 0.0
            return out

        def lexsort_genfirst(self, keys=None, **kw):
            return numpy.lexsort((self.vrnt_chrgrp, self.vrnt_phypos, self.vrnt_genpos))

        def lexsort_nochr(self, keys=None, **kw):
            return numpy.lexsort((self.vrnt_genpos, self.vrnt_phypos))

        def xoprob_noreset(self, gmap, gmapfn, **kw):
            self.vrnt_genpos = gmap.interp_genpos(self._vrnt_chrgrp, self._vrnt_phypos)
            d = gmap.gdist1g(self._vrnt_chrgrp, self._vrnt_genpos)
            g = self._vrnt_genpos
            d[1:] = numpy.where(numpy.isinf(d[1:]), numpy.abs(g[1:] - g[:-1]), d[1:])
            self.vrnt_xoprob = gmapfn.mapfn(d)

        def xoprob_rolled(self, gmap, gmapfn, **kw):
            self.vrnt_genpos = gmap.interp_genpos(self._vrnt_chrgrp, self._vrnt_phypos)
            self.vrnt_xoprob = numpy.roll(gmapfn.rprob1g(gmap, self._vrnt_chrgrp, self._vrnt_genpos), 1)

        def xoprob_keeps_existing_genpos(self, gmap, gmapfn, **kw):
            if self._vrnt_genpos is None:
                self.vrnt_genpos = gmap.interp_genpos(self._vrnt_chrgrp, self._vrnt_phypos)
            self.vrnt_xoprob = gmapfn.rprob1g(gmap, self._vrnt_chrgrp, self._vrnt_genpos)

        def xoprob_keeps_existing_xoprob(self, gmap, gmapfn, **kw):
            self.vrnt_genpos = gmap.interp_genpos(self._vrnt_chrgrp, self._vrnt_phypos)
            if self._vrnt_xoprob is None:
                self.vrnt_xoprob = gmapfn.rprob1g(gmap, self._vrnt_chrgrp, self._vrnt_genpos)

        def genpos_keeps_existing(self, gmap, **kw):
            if self._vrnt_genpos is None:
                self.vrnt_genpos = gmap.interp_genpos(self._vrnt_chrgrp, self._vrnt_phypos)

        def remove_without_regroup(self, indices, **kw):
            self.vrnt_chrgrp = numpy.delete(self.vrnt_chrgrp, indices)
            self.vrnt_phypos = numpy.delete(self.vrnt_phypos, indices)
            if hasattr(self, "_vrnt_stop"):
                self.vrnt_stop = numpy.delete(self.vrnt_stop, indices)
            self.vrnt_genpos = numpy.delete(self.vrnt_genpos, indices)
            if getattr(self, "_vrnt_name", None) is not None:
                self.vrnt_name = numpy.delete(self.vrnt_name, indices)
            if getattr(self, "_vrnt_fncode", None) is not None:
                self.vrnt_fncode = numpy.delete(self.vrnt_fncode, indices)

        def congruence_strict(self):
            if not self.is_grouped():
                self.group()
            out = numpy.zeros(len(self._vrnt_phypos), dtype='bool')
            for st, sp in zip(self._vrnt_chrgrp_stix, self._vrnt_chrgrp_spix):
                out[st] = True
                out[st+1:sp] = self._vrnt_genpos[st:sp-1] < self._vrnt_genpos[st+1:sp]
            return out

        def remove_discrepancies_noop(self):
            self.congruence()

        def lexsort_unstable(self, keys=None, **kw):
            n = len(self.vrnt_chrgrp)
            return numpy.lexsort((-numpy.arange(n), self.vrnt_genpos, self.vrnt_phypos, self.vrnt_chrgrp))

        def mk_build_linear_only(cls_):
            real = cls_.build_spline

            def build_spline_linear_only(self, kind='linear', fill_value='extrapolate', **kw):
                real(self, 'linear', fill_value)
                self.spline_kind = kind
            return build_spline_linear_only

        real_prune = E.prune

        def prune_spacing_doubled(self, nt=None, M=None):
            return real_prune(self, nt=None if nt is None else 2 * nt, M=None if M is None else 2 * M)

        return [
            ("prune_spacing_doubled", lambda: patch(E, "prune", prune_spacing_doubled)),
            ("build_spline_ignores_kind", lambda: both(patch(S, "build_spline", mk_build_linear_only(S)),
                                                       patch(E, "build_spline", mk_build_linear_only(E)))),
            ("remove_without_regroup", lambda: both(patch(S, "remove", remove_without_regroup),
                                                    patch(E, "remove", remove_without_regroup))),
            ("congruence_strict", lambda: both(patch(S, "congruence", congruence_strict),
                                               patch(E, "congruence", congruence_strict))),
            ("remove_discrepancies_noop", lambda: both(patch(S, "remove_discrepancies", remove_discrepancies_noop),
                                                       patch(E, "remove_discrepancies", remove_discrepancies_noop))),
            ("lexsort_not_stable", lambda: both(patch(S, "lexsort", lexsort_unstable),
                                                patch(E, "lexsort", lexsort_unstable))),
            ("interp_xoprob_keeps_existing_genpos", lambda: patch(D, "interp_xoprob", xoprob_keeps_existing_genpos)),
            ("interp_xoprob_keeps_existing_xoprob", lambda: patch(D, "interp_xoprob", xoprob_keeps_existing_xoprob)),
            ("interp_genpos_keeps_existing", lambda: patch(D, "interp_genpos", genpos_keeps_existing)),
            ("haldane_exp_minus_d", lambda: patch(H, "mapfn", hald_exp_d)),
            ("haldane_inverse_without_half", lambda: patch(H, "invmapfn", hald_inv_nofactor)),
            ("kosambi_tanh_d", lambda: patch(K, "mapfn", kos_tanh_d)),
            ("kosambi_inverse_arctan", lambda: patch(K, "invmapfn", kos_inv_tan)),
            ("gdist1g_no_inf_at_run_starts", lambda: both(patch(S, "gdist1g", gdist1g_noinf),
                                                          patch(E, "gdist1g", gdist1g_noinf))),
            ("gdist2g_without_abs", lambda: both(patch(S, "gdist2g", gdist2g_noabs), patch(E, "gdist2g", gdist2g_noabs))),
            ("gdist2g_without_inf", lambda: both(patch(S, "gdist2g", gdist2g_noinf), patch(E, "gdist2g", gdist2g_noinf))),
            ("interp1d_assume_sorted", lambda: both(patch(m["sgm"], "interp1d", mk_interp1d_sorted(m["sgm"])),
                                                    patch(m["egm"], "interp1d", mk_interp1d_sorted(m["egm"])))),
            ("interp1d_previous_not_linear", lambda: both(patch(m["sgm"], "interp1d", mk_interp1d_nearest(m["sgm"])),
                                                          patch(m["egm"], "interp1d", mk_interp1d_nearest(m["egm"])))),
            ("keyerror_gives_zero", lambda: both(patch(S, "interp_genpos", interp_genpos_zero),
                                                 patch(E, "interp_genpos", interp_genpos_zero))),
            ("lexsort_genpos_primary", lambda: both(patch(S, "lexsort", lexsort_genfirst),
                                                    patch(E, "lexsort", lexsort_genfirst))),
            ("lexsort_ignores_chromosome", lambda: both(patch(S, "lexsort", lexsort_nochr),
                                                        patch(E, "lexsort", lexsort_nochr))),
            ("xoprob_not_reset_at_chromosome_start", lambda: patch(D, "interp_xoprob", xoprob_noreset)),
            ("xoprob_rolled_by_one", lambda: patch(D, "interp_xoprob", xoprob_rolled)),
        ]


PROP = C11()
