"""C20 — the breeding-programme loop applies operators in order on independent replicates.

* `pre_build()` parses reset/advance/evolve (and initialize/is_initialized) of
  RecurrentSelectionBreedingProgram with `ast` and regenerates
  lean/PybropsModel/Generated/C20Schedule.lean; `WellFormed C20Schedule.evolve` (closed by `decide`
  in Props/C20.lean) is the obligation that breaks when the call skeleton of the source changes.
* correspondence: the real class is run with scripted operator / logbook / initialisation stubs
  (in-place mutation, fresh returns, aliasing) that record every call; the Lean driver runs the
  regenerated schedule with the same script; the two traces must be equal.
* Spec: `Program.specTrace` (Lean) evaluated on the trace recorded from the real class.
"""
import ast
import contextlib
import copy
import io
import json
import os

from .. import bridge, compat
from ..core import Prop

compat.install()

SRC = os.path.join(compat.REPO, "pybrops", "breed", "arch", "RecurrentSelectionBreedingProgram.py")
GEN = os.path.join(bridge.LEAN, "PybropsModel", "Generated", "C20Schedule.lean")

FIVE = ["genome", "geno", "pheno", "bval", "gmod"]
OPS = {("pselop", "pselect"): "pselect", ("mateop", "mate"): "mate",
       ("evalop", "evaluate"): "evaluate", ("sselop", "sselect"): "sselect"}
LOGS = {"log_initialize": "initialize", "log_pselect": "pselect", "log_mate": "mate",
        "log_evaluate": "evaluate", "log_sselect": "sselect"}


# ====================================================================== translator (ast -> Lean)
class Untranslatable(Exception):
    pass


def _self_attr(node):
    """`self.X` / `self._X` -> "X", else None"""
    if isinstance(node, ast.Attribute) and isinstance(node.value, ast.Name) and node.value.id == "self":
        return node.attr[1:] if node.attr.startswith("_") else node.attr
    return None


def _reg(node, what):
    a = _self_attr(node)
    if a in FIVE:
        return a
    if isinstance(node, ast.Name) and node.id in ("mcfg", "misc"):
        return node.id
    raise Untranslatable(f"{what}: not a container variable: {ast.unparse(node)}")


def _kwargs(call, need_misc_as, what):
    """keyword arguments of an operator / logbook call -> list of registers in the canonical
    keyword order [mcfg?, genome, geno, pheno, bval, gmod, misc]"""
    if call.args:
        raise Untranslatable(f"{what}: positional arguments")
    kw = {}
    star = None
    for k in call.keywords:
        if k.arg is None:
            if star is not None:
                raise Untranslatable(f"{what}: two ** arguments")
            star = k.value
        else:
            if k.arg in kw:
                raise Untranslatable(f"{what}: duplicate keyword {k.arg}")
            kw[k.arg] = k.value
    for name in ("t_cur", "t_max"):
        if name not in kw or _self_attr(kw[name]) != name:
            raise Untranslatable(f"{what}: {name} must be self._{name}")
        del kw[name]
    out = []
    if "mcfg" in kw:
        out.append(_reg(kw.pop("mcfg"), what))
    for name in FIVE:
        if name not in kw:
            raise Untranslatable(f"{what}: keyword {name} missing")
        out.append(_reg(kw.pop(name), what))
    if need_misc_as == "miscout":
        if "miscout" not in kw or star is not None:
            raise Untranslatable(f"{what}: miscout = misc expected")
        out.append(_reg(kw.pop("miscout"), what))
    else:
        if star is None:
            raise Untranslatable(f"{what}: **misc expected")
        out.append(_reg(star, what))
    if kw:
        raise Untranslatable(f"{what}: unexpected keywords {sorted(kw)}")
    return out


def _is_call(node, owner_pred, method=None):
    return (isinstance(node, ast.Call) and isinstance(node.func, ast.Attribute)
            and owner_pred(node.func.value) and (method is None or node.func.attr == method))


def _is_self(n):
    return isinstance(n, ast.Name) and n.id == "self"


def _is_lbook(n):
    return isinstance(n, ast.Name) and n.id == "lbook"


def _stmt(node, guarded=False):
    """one Python statement -> list of Lean `Stmt` terms"""
    u = ast.unparse(node)
    # docstrings
    if isinstance(node, ast.Expr) and isinstance(node.value, ast.Constant) and isinstance(node.value.value, str):
        return []
    if isinstance(node, ast.Pass):
        return [".skip"]
    # if verbose: print(...)
    if isinstance(node, ast.If) and isinstance(node.test, ast.Name) and node.test.id == "verbose" and not node.orelse:
        for b in node.body:
            if not (isinstance(b, ast.Expr) and isinstance(b.value, ast.Call)
                    and isinstance(b.value.func, ast.Name) and b.value.func.id == "print"):
                raise Untranslatable("statement under `if verbose:` is not a print: " + ast.unparse(b))
        return [".skip"]
    # if loginit: lbook.log_initialize(...)
    if isinstance(node, ast.If) and isinstance(node.test, ast.Name) and node.test.id == "loginit" and not node.orelse:
        out = []
        for b in node.body:
            r = _stmt(b, guarded=True)
            for s in r:
                if not s.startswith(".log "):
                    raise Untranslatable("only logbook calls may stand under `if loginit:`: " + ast.unparse(b))
            out += r
        return out
    # if not self.is_initialized(): self.initialize()
    if isinstance(node, ast.If) and not node.orelse and isinstance(node.test, ast.UnaryOp) \
            and isinstance(node.test.op, ast.Not) and _is_call(node.test.operand, _is_self, "is_initialized") \
            and not node.test.operand.args and not node.test.operand.keywords \
            and len(node.body) == 1 and isinstance(node.body[0], ast.Expr) \
            and _is_call(node.body[0].value, _is_self, "initialize") \
            and not node.body[0].value.args and not node.body[0].value.keywords:
        return [".initIfNeeded"]
    # misc = {}
    if isinstance(node, ast.Assign) and len(node.targets) == 1 and isinstance(node.targets[0], ast.Name) \
            and node.targets[0].id == "misc" and isinstance(node.value, ast.Dict) and not node.value.keys:
        return [".newMisc"]
    # self.X = copy.deepcopy(self.start_Y)   /   self.t_cur = 0
    if isinstance(node, ast.Assign) and len(node.targets) == 1 and _self_attr(node.targets[0]) is not None:
        tgt = _self_attr(node.targets[0])
        v = node.value
        if tgt == "t_cur" and isinstance(v, ast.Constant) and v.value == 0 and type(v.value) is int:
            return [".resetT"]
        if tgt in FIVE and isinstance(v, ast.Call) and isinstance(v.func, ast.Attribute) \
                and isinstance(v.func.value, ast.Name) and v.func.value.id == "copy" \
                and v.func.attr == "deepcopy" and len(v.args) == 1 and not v.keywords:
            src = _self_attr(v.args[0])
            if src and src.startswith("start_") and src[6:] in FIVE:
                return [f".copyStart .{tgt} {FIVE.index(src[6:])}"]
        raise Untranslatable("assignment not understood: " + u)
    # self.t_cur += 1 / lbook.rep += 1
    if isinstance(node, ast.AugAssign) and isinstance(node.op, ast.Add) \
            and isinstance(node.value, ast.Constant) and node.value.value == 1 and type(node.value.value) is int:
        if _self_attr(node.target) == "t_cur":
            return [".tick"]
        if isinstance(node.target, ast.Attribute) and _is_lbook(node.target.value) and node.target.attr == "rep":
            return [".incRep"]
        raise Untranslatable("augmented assignment not understood: " + u)
    # a, self.genome, ... = self._pselop.pselect(...)
    if isinstance(node, ast.Assign) and len(node.targets) == 1 and isinstance(node.targets[0], ast.Tuple) \
            and isinstance(node.value, ast.Call) and isinstance(node.value.func, ast.Attribute):
        f = node.value.func
        key = (_self_attr(f.value), f.attr)
        if key not in OPS:
            raise Untranslatable("call of an unknown operator: " + u[:120])
        rets = [_reg(t, "assignment target") for t in node.targets[0].elts]
        args = _kwargs(node.value, "miscout", OPS[key])
        return [f".call .{OPS[key]} {_lean_regs(args)} {_lean_regs(rets)}"]
    if isinstance(node, ast.Expr) and isinstance(node.value, ast.Call):
        c = node.value
        # lbook.log_X(...)
        if _is_call(c, _is_lbook) and c.func.attr in LOGS:
            args = _kwargs(c, "**", c.func.attr)
            return [f".log .{LOGS[c.func.attr]} {'true' if guarded else 'false'} {_lean_regs(args)}"]
        # self.reset()
        if _is_call(c, _is_self, "reset") and not c.args and not c.keywords:
            return [".callReset"]
        # self.advance(ngen = ngen, lbook = lbook, verbose = verbose, **kwargs)
        if _is_call(c, _is_self, "advance") and not c.args:
            kw = {k.arg: k.value for k in c.keywords}
            ok = all(isinstance(kw.get(n), ast.Name) and kw[n].id == n for n in ("ngen", "lbook"))
            extra = set(kw) - {"ngen", "lbook", "verbose", None}
            if ok and not extra:
                return [".callAdvance"]
        raise Untranslatable("call not understood: " + u[:120])
    raise Untranslatable("statement not understood: " + u[:120])


def _lean_regs(rs):
    return "[" + ", ".join("." + r for r in rs) + "]"


def _method(cls, name):
    for n in cls.body:
        if isinstance(n, ast.FunctionDef) and n.name == name:
            return n
    raise Untranslatable(f"method {name} not found")


def _split_loop(fn, count_name):
    """body of a method with exactly one top-level `for _ in range(<count_name>)` loop
    -> (pre, loop body, post) as lists of Lean statements"""
    pre, body, post = [], None, []
    for node in fn.body:
        if isinstance(node, ast.For):
            if body is not None:
                raise Untranslatable(f"{fn.name}: two loops")
            it = node.iter
            if not (isinstance(it, ast.Call) and isinstance(it.func, ast.Name) and it.func.id == "range"
                    and len(it.args) == 1 and isinstance(it.args[0], ast.Name) and it.args[0].id == count_name
                    and not node.orelse and isinstance(node.target, ast.Name)):
                raise Untranslatable(f"{fn.name}: loop header not understood: " + ast.unparse(node)[:80])
            body = []
            for b in node.body:
                body += _stmt(b)
        elif body is None:
            pre += _stmt(node)
        else:
            post += _stmt(node)
    if body is None:
        raise Untranslatable(f"{fn.name}: no loop over range({count_name})")
    return pre, body, post


def _norm(node):
    return ast.dump(node, annotate_fields=False, include_attributes=False)


def translate(src_text):
    """-> dict of the seven statement lists (Lean terms).  Raises Untranslatable."""
    tree = ast.parse(src_text)
    cls = None
    for n in tree.body:
        if isinstance(n, ast.ClassDef) and n.name == "RecurrentSelectionBreedingProgram":
            cls = n
    if cls is None:
        raise Untranslatable("class RecurrentSelectionBreedingProgram not found")
    reset = []
    for node in _method(cls, "reset").body:
        reset += _stmt(node)
    apre, agen, apost = _split_loop(_method(cls, "advance"), "ngen")
    epre, erep, epost = _split_loop(_method(cls, "evolve"), "nrep")
    # the two helpers the schedule relies on must be what the model assumes
    init = [n for n in _method(cls, "initialize").body
            if not (isinstance(n, ast.Expr) and isinstance(n.value, ast.Constant))]
    want_init = ast.parse("self.start_genome, self.start_geno, self.start_pheno, self.start_bval, self.start_gmod"
                          " = self._initop.initialize(**kwargs)").body
    if [_norm(n) for n in init] != [_norm(n) for n in want_init]:
        raise Untranslatable("initialize(): body is not the assignment of the five start containers")
    isin = [n for n in _method(cls, "is_initialized").body
            if not (isinstance(n, ast.Expr) and isinstance(n.value, ast.Constant))]
    want_isin = ast.parse("return (self._start_genome is not None and self._start_geno is not None and "
                          "self._start_pheno is not None and self._start_bval is not None and "
                          "self._start_gmod is not None)").body
    if [_norm(n) for n in isin] != [_norm(n) for n in want_isin]:
        raise Untranslatable("is_initialized(): body is not the conjunction of five `is not None` tests")
    return {"evolvePre": epre, "evolveRep": erep, "evolvePost": epost, "reset": reset,
            "advancePre": apre, "advanceGen": agen, "advancePost": apost}


def render(sched, note):
    lines = ["/-", "REGENERATED on every run by harness/props/c20.py (pre_build) from",
             "pybrops/breed/arch/RecurrentSelectionBreedingProgram.py — do not edit.", note, "-/",
             "import PybropsModel.Model.Program", "", "namespace C20Schedule", "open Program", "",
             "def evolve : Schedule where"]
    for k in ("evolvePre", "evolveRep", "evolvePost", "reset", "advancePre", "advanceGen", "advancePost"):
        items = sched[k]
        if not items:
            lines.append(f"  {k} := []")
        else:
            lines.append(f"  {k} := [")
            lines.append(",\n".join("    " + s for s in items))
            lines.append("  ]")
    lines += ["", "end C20Schedule", ""]
    return "\n".join(lines)


EMPTY = {k: [] for k in ("evolvePre", "evolveRep", "evolvePost", "reset", "advancePre", "advanceGen", "advancePost")}


def regenerate():
    """-> (ok, message)"""
    try:
        text = open(SRC, encoding="utf-8", newline=None).read()
        sched = translate(text)
        body = render(sched, "translation: ok")
        ok, msg = True, ""
    except (Untranslatable, SyntaxError, OSError) as e:
        msg = f"{type(e).__name__}: {e}"
        body = render(EMPTY, "translation FAILED (" + msg.replace("-/", "- /")[:300] + "): empty schedule, not well formed")
        ok = False
    os.makedirs(os.path.dirname(GEN), exist_ok=True)
    old = open(GEN).read() if os.path.exists(GEN) else None
    if old != body:
        with bridge.Lock():
            with open(GEN, "w") as f:
                f.write(body)
    return ok, msg


# ====================================================================== instrumented stubs
class Recorder:
    """identity registry (keeps every object alive so ids are never reused) and the trace"""

    def __init__(self):
        self.objs = []
        self.trace = []
        self.prog = None
        self.script = []
        self.used = set()

    def oid(self, o):
        for i, x in enumerate(self.objs):
            if x is o:
                return i + 1
        self.objs.append(o)
        return len(self.objs)

    @staticmethod
    def val(o):
        if o is None:
            return None
        if not isinstance(o, dict):
            return [-999]
        return [int(x) for x in o.get("h", [])]

    def start_vals(self):
        p = self.prog
        return [self.val(getattr(p, "_start_" + n, None)) for n in FIVE]

    def start_ids(self):
        p = self.prog
        out = []
        for n in FIVE:
            o = getattr(p, "_start_" + n, None)
            out.append(None if o is None else self.oid(o))
        return out

    def next_action(self, kind):
        """the first not yet consumed action written for calls of this kind"""
        for i, a in enumerate(self.script):
            if i not in self.used and a["k"] == kind:
                self.used.add(i)
                return a
        return None

    @staticmethod
    def mutate(objs, muts):
        for o, m in zip(objs, muts):
            if m is not None and isinstance(o, dict):
                o.setdefault("h", []).append(m)

    @staticmethod
    def select(objs, rets):
        out = []
        for tag, x in rets:
            if tag == "arg":
                out.append(objs[x] if x < len(objs) else objs[0])
            else:
                out.append({"h": list(x)})
        return out


DEFAULT_RETS = {
    "pselect": [["new", []]] + [["arg", i] for i in range(5)],
    "mate": [["arg", i] for i in range(1, 6)],
    "evaluate": [["arg", i] for i in range(5)],
    "sselect": [["arg", i] for i in range(5)],
}


def _stub_classes():
    compat.import_pybrops()
    from pybrops.breed.op.init.InitializationOperator import InitializationOperator
    from pybrops.breed.op.psel.ParentSelectionOperator import ParentSelectionOperator
    from pybrops.breed.op.mate.MatingOperator import MatingOperator
    from pybrops.breed.op.eval.EvaluationOperator import EvaluationOperator
    from pybrops.breed.op.ssel.SurvivorSelectionOperator import SurvivorSelectionOperator
    from pybrops.breed.op.log.Logbook import Logbook

    def op_call(rec, kind, objs, t_cur, t_max):
        ev = {"kind": "op:" + kind, "t": int(t_cur), "tmax": int(t_max), "rep": int(rec.lbook.rep),
              "args": [rec.oid(o) for o in objs], "argVals": [rec.val(o) for o in objs],
              "startVals": rec.start_vals()}
        a = rec.next_action("op:" + kind)
        if a is None:
            rets = rec.select(objs, DEFAULT_RETS[kind])
        else:
            rec.mutate(objs, a.get("muts", []))
            rets = rec.select(objs, a.get("rets", []))
        ev["rets"] = [rec.oid(o) for o in rets]
        ev["retVals"] = [rec.val(o) for o in rets]
        rec.trace.append(ev)
        return tuple(rets)

    class Init(InitializationOperator):
        def __init__(self, rec):
            self.rec = rec

        def initialize(self, **kwargs):
            rec = self.rec
            ev = {"kind": "init", "t": int(rec.prog.t_cur), "tmax": int(rec.prog.t_max), "rep": int(rec.lbook.rep),
                  "args": [], "argVals": [], "startVals": rec.start_vals()}
            a = rec.next_action("init")
            rets = rec.select([], a["rets"] if a is not None else [["new", []]] * 5)
            ev["rets"] = [rec.oid(o) for o in rets]
            ev["retVals"] = [rec.val(o) for o in rets]
            rec.trace.append(ev)
            return tuple(rets)

    class PSel(ParentSelectionOperator):
        def __init__(self, rec):
            self.rec = rec

        def pselect(self, genome, geno, pheno, bval, gmod, t_cur, t_max, miscout=None, **kwargs):
            return op_call(self.rec, "pselect", [genome, geno, pheno, bval, gmod, miscout], t_cur, t_max)

    class Mate(MatingOperator):
        def __init__(self, rec):
            self.rec = rec

        def mate(self, mcfg, genome, geno, pheno, bval, gmod, t_cur, t_max, miscout=None, **kwargs):
            return op_call(self.rec, "mate", [mcfg, genome, geno, pheno, bval, gmod, miscout], t_cur, t_max)

    class Eval(EvaluationOperator):
        def __init__(self, rec):
            self.rec = rec

        def evaluate(self, genome, geno, pheno, bval, gmod, t_cur, t_max, miscout=None, **kwargs):
            return op_call(self.rec, "evaluate", [genome, geno, pheno, bval, gmod, miscout], t_cur, t_max)

    class SSel(SurvivorSelectionOperator):
        def __init__(self, rec):
            self.rec = rec

        def sselect(self, genome, geno, pheno, bval, gmod, t_cur, t_max, miscout=None, **kwargs):
            return op_call(self.rec, "sselect", [genome, geno, pheno, bval, gmod, miscout], t_cur, t_max)

    class Book(Logbook):
        def __init__(self, rec, rep0):
            self.rec = rec
            self._rep = rep0
            self._data = {}

        @property
        def data(self):
            return self._data

        @data.setter
        def data(self, value):
            self._data = value

        @property
        def rep(self):
            return self._rep

        @rep.setter
        def rep(self, value):
            self._rep = value

        def _log(self, kind, objs, t_cur, t_max, misc):
            rec = self.rec
            ev = {"kind": "log:" + kind, "t": int(t_cur), "tmax": int(t_max), "rep": int(self._rep),
                  "args": [rec.oid(o) for o in objs] + [0],
                  "argVals": [rec.val(o) for o in objs] + [[int(x) for x in misc.get("h", [])]],
                  "startVals": rec.start_vals(), "rets": [], "retVals": []}
            a = rec.next_action("log:" + kind)
            if a is not None:
                rec.mutate(objs, a.get("muts", []))
            rec.trace.append(ev)

        def log_initialize(self, genome, geno, pheno, bval, gmod, t_cur, t_max, **kwargs):
            self._log("initialize", [genome, geno, pheno, bval, gmod], t_cur, t_max, kwargs)

        def log_pselect(self, mcfg, genome, geno, pheno, bval, gmod, t_cur, t_max, **kwargs):
            self._log("pselect", [mcfg, genome, geno, pheno, bval, gmod], t_cur, t_max, kwargs)

        def log_mate(self, mcfg, genome, geno, pheno, bval, gmod, t_cur, t_max, **kwargs):
            self._log("mate", [mcfg, genome, geno, pheno, bval, gmod], t_cur, t_max, kwargs)

        def log_evaluate(self, genome, geno, pheno, bval, gmod, t_cur, t_max, **kwargs):
            self._log("evaluate", [genome, geno, pheno, bval, gmod], t_cur, t_max, kwargs)

        def log_sselect(self, genome, geno, pheno, bval, gmod, t_cur, t_max, **kwargs):
            self._log("sselect", [genome, geno, pheno, bval, gmod], t_cur, t_max, kwargs)

        def reset(self):
            self._data = {}
            self._rep = 0

        def write(self, filename):
            pass

    return Init, PSel, Mate, Eval, SSel, Book


_STUBS = None


def stubs():
    global _STUBS
    if _STUBS is None:
        _STUBS = _stub_classes()
    return _STUBS


def _prog_module():
    compat.import_pybrops()
    import pybrops.breed.arch.RecurrentSelectionBreedingProgram as m
    return m


# ====================================================================== canonical renumbering
def renumber(start_ids, trace, log_misc_zero, shift=0):
    """identities -> 1, 2, … by first appearance (start containers first); 0 (after the shift) is
    kept.  `shift` = 1 for the model, whose heap addresses start at 0."""
    m = {0: 0}

    def f(i):
        if i is None:
            return None
        i += shift
        if i not in m:
            m[i] = len(m)
        return m[i]

    s = [f(i) for i in start_ids]
    out = []
    for e in trace:
        e = dict(e)
        args = list(e["args"])
        if log_misc_zero and e["kind"].startswith("log:") and args:
            args[-1] = -shift
        e["args"] = [f(i) for i in args]
        e["rets"] = [f(i) for i in e["rets"]]
        out.append(e)
    return s, out, f


N_ARGS = {"pselect": 6, "mate": 7, "evaluate": 6, "sselect": 6}
N_RETS = {"pselect": 6, "mate": 5, "evaluate": 5, "sselect": 5}
N_LOG = {"initialize": 5, "pselect": 6, "mate": 6, "evaluate": 5, "sselect": 5}


class C20(Prop):
    PID = "C20"
    MODULE = "PybropsModel.Props.C20"
    N_QUICK = 220
    N_THOROUGH = 6000
    RULE = ("RecurrentSelectionBreedingProgram.evolve run with scripted operator / logbook / initialisation "
            "stubs: nrep 0-4, ngen 0-5, loginit on/off, start containers given (possibly the same dict for two "
            "slots), partly missing or produced by the initialisation operator, one or two successive evolve "
            "calls; every operator call mutates handed containers in place with a unique token and returns "
            "per slot either the handed object, another handed object (alias) or a fresh container with unique "
            "content; logbook calls may mutate too.  Non-trivial = nrep >= 2, ngen >= 1, at least one in-place "
            "mutation in the initial evaluation of a replicate and at least one fresh return")
    TRUSTED = ["copy.deepcopy returns an object graph sharing no mutable state with its argument "
               "(modelled as allocation of a new cell with equal content)",
               "the ast -> Lean translator of harness/props/c20.py (statement list of reset/advance/evolve); "
               "checked on every run by comparing the trace of the regenerated schedule with the real class",
               "Python attribute/property mechanics of the class (setters check_is_dict / check_is_int)"]
    ASSUMPTIONS = ["operators, logbook and initialisation operator are reached only through the references "
                   "they are handed (they hold no reference to the stored start containers)",
                   "operators return dicts and tuples of the documented arity; nrep, ngen are non-negative ints"]

    # ------------------------------------------------------------------ obligations
    def pre_build(self):
        return regenerate()

    # ------------------------------------------------------------------ generation
    @staticmethod
    def n_calls(run, init):
        per_rep = 1 + (1 if run["loginit"] else 0) + 8 * run["ngen"]
        return (1 if init else 0) + run["nrep"] * per_rep

    def _script(self, rng, runs, needs_init, tok, style):
        """actions in call order for the canonical schedule"""
        def fresh():
            tok[0] += 1
            return tok[0]

        def op_action(kind, first_eval=False):
            na, nr = N_ARGS[kind], N_RETS[kind]
            off = 1 if kind == "mate" else 0          # position of genome among the arguments
            pm = {"pure": 0.0, "inplace": 0.9, "fresh": 0.2, "mixed": 0.5}[style]
            muts = [fresh() if rng.random() < pm else None for _ in range(na)]
            if first_eval and style != "pure":
                for i in range(5):
                    muts[off + i] = fresh()           # mutate all five working copies of the reset state
            rets = []
            for i in range(nr):
                slot = i - (1 if kind == "pselect" else 0)     # container slot of this return value (-1 = mcfg)
                r = rng.random()
                pf = {"pure": 0.5, "inplace": 0.1, "fresh": 0.9, "mixed": 0.45}[style]
                if slot < 0:
                    rets.append(["new", [fresh()]] if r < 0.8 else ["arg", rng.randrange(na)])
                elif r < pf:
                    rets.append(["new", [fresh(), fresh()][:rng.randint(1, 2)]])
                elif r < pf + 0.12:
                    rets.append(["arg", rng.randrange(na)])   # alias of some handed object
                else:
                    rets.append(["arg", off + slot])
            return {"k": "op:" + kind, "muts": muts, "rets": rets}

        def log_action(kind):
            n = N_LOG[kind]
            pm = 0.15 if style in ("mixed", "inplace") else 0.0
            return {"k": "log:" + kind, "muts": [fresh() if rng.random() < pm else None for _ in range(n)]}

        script = []
        first = True
        for run in runs:
            if first and needs_init:
                rets = [["new", [fresh()]] for _ in range(5)]
                if rng.random() < 0.3:        # the operator returns the same dict for two slots
                    rets[rng.randrange(1, 5)] = ["new", list(rets[0][1])]
                script.append({"k": "init", "rets": rets})
            first = False
            for _ in range(run["nrep"]):
                script.append(op_action("evaluate", first_eval=True))
                if run["loginit"]:
                    script.append(log_action("initialize"))
                for _ in range(run["ngen"]):
                    for kind in ("pselect", "mate", "evaluate", "sselect"):
                        script.append(op_action(kind))
                        script.append(log_action(kind))
        return script

    def _case(self, rng, nrep, ngen, loginit=True, style="mixed", start_mode="given", second=None):
        tok = [100]
        if start_mode == "given":
            cells = [[10 * (i + 1), 10 * (i + 1) + 1][:rng.randint(0, 2)] + [i + 1] for i in range(5)]
            start = [0, 1, 2, 3, 4]
        elif start_mode == "shared":      # the same dict object stored in two start slots
            cells = [[i + 1, 7] for i in range(4)]
            start = [0, 1, 1, 2, 3]
            rng.shuffle(start)
        elif start_mode == "partial":     # one container missing -> initialisation operator replaces all five
            cells = [[i + 1] for i in range(5)]
            start = [0, 1, 2, 3, 4]
            start[rng.randrange(5)] = None
        else:                              # "init": nothing given
            cells = []
            start = [None] * 5
        runs = [{"nrep": nrep, "ngen": ngen, "loginit": loginit}]
        if rng.random() < 0.1:
            runs[0]["verbose"] = True      # the `if verbose: print(...)` statements are no-ops of the model
        if second:
            runs.append(second)
        needs_init = any(s is None for s in start)
        script = self._script(rng, runs, needs_init, tok, style)
        return {"kind": f"evolve:{start_mode}:{style}" + (":two-calls" if second else ""),
                "tmax": rng.choice([0, 3, 7, 20]), "rep0": rng.choice([0, 0, 1, 5, -2]),
                "cells": cells, "start": start, "runs": runs, "script": script, "style": style,
                "start_mode": start_mode}

    def corpus(self):
        import random
        rng = random.Random(20)
        out = [
            self._case(rng, 0, 0), self._case(rng, 1, 0), self._case(rng, 0, 3), self._case(rng, 1, 1),
            self._case(rng, 2, 2, style="inplace"), self._case(rng, 3, 2, style="fresh"),
            self._case(rng, 2, 1, loginit=False), self._case(rng, 2, 2, style="pure"),
            self._case(rng, 2, 1, start_mode="init"), self._case(rng, 2, 1, start_mode="partial"),
            self._case(rng, 2, 2, start_mode="shared"),
            self._case(rng, 2, 1, second={"nrep": 2, "ngen": 2, "loginit": True}),
            self._case(rng, 4, 5, style="mixed"),
        ]
        for c in out:
            c["_corpus"] = "builtin"
        return out

    def generate(self, rng, n, tier):
        out = []
        for _ in range(n):
            nrep = rng.choice([0, 1, 2, 2, 2, 3, 3, 4])
            ngen = rng.choice([0, 1, 1, 2, 2, 3, 4, 5])
            if tier == "thorough" and rng.random() < 0.05:
                nrep, ngen = rng.randint(4, 8), rng.randint(4, 9)
            style = rng.choice(["mixed", "mixed", "mixed", "inplace", "fresh", "pure"])
            mode = rng.choice(["given"] * 6 + ["shared", "partial", "init", "init"])
            second = None
            if rng.random() < 0.12:
                second = {"nrep": rng.randint(1, 2), "ngen": rng.randint(0, 2), "loginit": rng.random() < 0.8}
            out.append(self._case(rng, nrep, ngen, loginit=rng.random() < 0.8, style=style, start_mode=mode,
                                  second=second))
        return out

    # ------------------------------------------------------------------ implementation
    def run_impl(self, case):
        Init, PSel, Mate, Eval, SSel, Book = stubs()
        mod = _prog_module()
        rec = Recorder()
        rec.script = case["script"]
        cells = [{"h": list(c)} for c in case["cells"]]
        start = [None if i is None else cells[i] for i in case["start"]]
        book = Book(rec, case["rep0"])
        rec.lbook = book
        prog = mod.RecurrentSelectionBreedingProgram(
            Init(rec), PSel(rec), Mate(rec), Eval(rec), SSel(rec), case["tmax"],
            start_genome=start[0], start_geno=start[1], start_pheno=start[2], start_bval=start[3],
            start_gmod=start[4])
        rec.prog = prog
        runs = []
        for run in case["runs"]:
            rec.trace = []
            before_ids = rec.start_ids()
            before_vals = rec.start_vals()
            with contextlib.redirect_stdout(io.StringIO()):
                prog.evolve(nrep=run["nrep"], ngen=run["ngen"], lbook=book, loginit=run["loginit"],
                            verbose=bool(run.get("verbose", False)))
            runs.append({"trace": rec.trace, "start_before": before_ids, "V0given": before_vals,
                         "start_after": rec.start_ids(), "startVals_after": rec.start_vals(),
                         "rep": int(book.rep), "t": int(prog.t_cur)})
        return {"runs": runs, "script_left": len(case["script"]) - len(rec.used)}

    # ------------------------------------------------------------------ model requests
    def requests(self, case, obs):
        reqs = [{"op": "c20.run", "cells": case["cells"], "start": case["start"], "tmax": case["tmax"],
                 "rep0": case["rep0"], "script": case["script"], "runs": case["runs"]}]
        for run, o in zip(case["runs"], obs["runs"]):
            reqs.append({"op": "c20.spec", "nrep": run["nrep"], "ngen": run["ngen"], "loginit": run["loginit"],
                         "V0given": o["V0given"], "trace": o["trace"], "startVals_after": o["startVals_after"]})
        return reqs

    @staticmethod
    def _canon_run(r, log_misc_zero, shift=0):
        s, tr, f = renumber(r["start_before"], r["trace"], log_misc_zero, shift)
        return {"start_before": s, "trace": tr, "start_after": [f(i) for i in r["start_after"]],
                "startVals_after": r["startVals_after"], "rep": r["rep"], "t": r["t"]}

    def judge(self, case, obs, answers):
        for a in answers:
            if "err" in a:
                raise RuntimeError("driver error: " + a["err"])
        model = answers[0]["ok"]["runs"]
        corr = len(model) == len(obs["runs"])
        detail = []
        if not corr:
            detail.append(f"model completed {len(model)} evolve calls, implementation {len(obs['runs'])}")
        for i, (m, o) in enumerate(zip(model, obs["runs"])):
            if m["bad"]:
                corr = False
                detail.append(f"run {i}: model says the code raises")
                continue
            cm = self._canon_run(m, True, 1)
            co = self._canon_run(o, True)
            if cm != co:
                corr = False
                detail.append(f"run {i}: " + _first_diff(cm, co))
        spec = True
        sdetail = []
        for i, a in enumerate(answers[1:]):
            if not a["ok"]["ok"]:
                spec = False
            sdetail.append(f"run {i} Spec: {a['ok']['detail']}")
        detail = sdetail + ["correspondence: " + (d if (d := "; ".join(detail)) else "model trace = implementation trace")]
        run0 = case["runs"][0]
        sc = case["script"]
        nontriv = (run0["nrep"] >= 2 and run0["ngen"] >= 1
                   and any(m is not None for a in sc for m in a.get("muts", []))
                   and any(r[0] == "new" for a in sc[1:] for r in a.get("rets", [])))
        return {"corr": corr, "spec": spec, "nontrivial": nontriv, "detail": "; ".join(detail)}

    def signature(self, case, obs, verdict):
        return {"kind": case.get("kind"), "style": case.get("style"), "start_mode": case.get("start_mode")}

    # ------------------------------------------------------------------ shrinking
    def shrink(self, case):
        """drop the second evolve call / the last replicate / the last generation of every replicate
        (keeping the remaining scripted actions as they are), then neutralise single actions"""
        runs = case["runs"]
        if len(runs) > 1:
            yield self._reshape(case, [(0, runs[0]["nrep"], runs[0]["ngen"])])
        shape = [(i, r["nrep"], r["ngen"]) for i, r in enumerate(runs)]
        for j, (i, nrep, ngen) in enumerate(shape):
            if nrep > 0:
                yield self._reshape(case, shape[:j] + [(i, nrep - 1, ngen)] + shape[j + 1:])
            if ngen > 0:
                yield self._reshape(case, shape[:j] + [(i, nrep, ngen - 1)] + shape[j + 1:])
        if case.get("start_mode") != "given" and all(s is not None for s in case["start"]):
            c = copy.deepcopy(case)
            c["cells"] = [[i + 1] for i in range(5)]
            c["start"] = [0, 1, 2, 3, 4]
            c["start_mode"] = "given"
            yield c
        for i, a in enumerate(case["script"][:40]):
            if any(m is not None for m in a.get("muts", [])):
                c = copy.deepcopy(case)
                c["script"][i]["muts"] = [None] * len(a["muts"])
                yield c

    @staticmethod
    def _chunks(case):
        """the script of a generated case, split as [init actions], then per run a list of replicates,
        each (head actions, [generation actions])"""
        sc = list(case["script"])
        pos = 0
        init = []
        if sc and sc[0]["k"] == "init":
            init = [sc[0]]
            pos = 1
        out = []
        for r in case["runs"]:
            reps = []
            for _ in range(r["nrep"]):
                nh = 2 if r["loginit"] else 1
                head = sc[pos:pos + nh]
                pos += nh
                gens = []
                for _ in range(r["ngen"]):
                    gens.append(sc[pos:pos + 8])
                    pos += 8
                reps.append((head, gens))
            out.append(reps)
        return init, out

    def _reshape(self, case, shape):
        """shape = [(index of the run to keep, nrep, ngen)]"""
        init, chunks = self._chunks(case)
        c = copy.deepcopy(case)
        c["runs"] = []
        script = list(init)
        for i, nrep, ngen in shape:
            c["runs"].append(dict(case["runs"][i], nrep=nrep, ngen=ngen))
            for head, gens in chunks[i][:nrep]:
                script += head
                for g in gens[:ngen]:
                    script += g
        c["script"] = copy.deepcopy(script)
        return c

    # ------------------------------------------------------------------ self-test mutants
    def mutants(self):
        mod = _prog_module()
        cls = mod.RecurrentSelectionBreedingProgram
        src = open(SRC, encoding="utf-8", newline=None).read()

        def variant(edit):
            """class with methods recompiled from edited source text (in memory only)"""
            text = edit(src)
            assert text != src, "mutant edit did not apply"
            ns = {}
            exec(compile(text, "<mutant of RecurrentSelectionBreedingProgram>", "exec"), ns)
            return ns["RecurrentSelectionBreedingProgram"]

        @contextlib.contextmanager
        def patched(names, newcls):
            old = {n: cls.__dict__[n] for n in names}
            for n in names:
                setattr(cls, n, newcls.__dict__[n])
            try:
                yield
            finally:
                for n, f in old.items():
                    setattr(cls, n, f)

        def mk(names, edit):
            return lambda: patched(names, variant(edit))

        def reset_assign(s):
            for n in FIVE:
                s = s.replace(f"self.{n} = copy.deepcopy(self.start_{n})", f"self.{n} = self.start_{n}")
            return s

        def swap_psel_mate(s):
            a = s.index("            misc = {}\n            mcfg, self.genome")
            b = s.index("            misc = {}\n            self.genome, self.geno, self.pheno, self.bval, self.gmod = self._mateop.mate(")
            c = s.index("            ####################################################################\n"
                        "            ######################## evaluate genotypes")
            psel, mate = s[a:b], s[b:c]
            # `mcfg` must exist before the (now first) mating call
            return s[:a] + "            mcfg = {}\n" + mate + psel + s[c:]

        eval_call = ("            self.genome, self.geno, self.pheno, self.bval, self.gmod = self._evalop.evaluate(\n"
                     "                genome = self._genome,\n                geno = self._geno,\n"
                     "                pheno = self._pheno,\n                bval = self._bval,\n"
                     "                gmod = self._gmod,\n                t_cur = self._t_cur,\n"
                     "                t_max = self._t_max,\n                miscout = misc\n            )\n"
                     "            lbook.log_evaluate(")

        return [
            ("reset_assigns_start_containers", mk(["reset"], reset_assign)),
            ("reset_shallow_copy", mk(["reset"], lambda s: s.replace("copy.deepcopy(self.start_geno)", "copy.copy(self.start_geno)"))),
            ("reset_copies_wrong_container", mk(["reset"], lambda s: s.replace("copy.deepcopy(self.start_bval)", "copy.deepcopy(self.start_pheno)"))),
            ("reset_keeps_clock", mk(["reset"], lambda s: s.replace("        self.t_cur = 0                                  # reset time", "        pass"))),
            ("advance_t_cur_not_incremented", mk(["advance"], lambda s: s.replace("            self._t_cur += 1", "            pass"))),
            ("advance_mate_before_pselect", mk(["advance"], swap_psel_mate)),
            ("advance_evaluate_not_assigned_back", mk(["advance"], lambda s: s.replace(
                eval_call, eval_call.replace("self.genome, self.geno, self.pheno, self.bval, self.gmod = ", "_unused = ")))),
            ("advance_sselect_gets_stale_geno", mk(["advance"], lambda s: s.replace(
                "self._sselop.sselect(\n                genome = self._genome,\n                geno = self._geno,",
                "self._sselop.sselect(\n                genome = self._genome,\n                geno = self._genome,"))),
            ("advance_log_mate_dropped", mk(["advance"], lambda s: s.replace("            lbook.log_mate(", "            (lambda **k: None)("))),
            ("advance_one_generation_short", mk(["advance"], lambda s: s.replace("for _ in range(ngen):", "for _ in range(max(ngen - 1, 0)):"))),
            ("evolve_no_reset", mk(["evolve"], lambda s: s.replace("            self.reset()\n", "            self.reset() if r == 0 else None\n"))),
            ("evolve_initial_evaluation_skipped", mk(["evolve"], lambda s: s.replace(
                "            self.genome, self.geno, self.pheno, self.bval, self.gmod = self._evalop.evaluate(\n                genome = self._genome,\n                geno = self._geno,\n                pheno = self._pheno,\n                bval = self._bval,\n                gmod = self._gmod,\n                t_cur = self._t_cur,\n                t_max = self._t_max,\n                miscout = misc\n            )\n            if loginit:",
                "            if loginit:"))),
            ("evolve_clock_starts_at_one", mk(["evolve"], lambda s: s.replace(
                "            self.reset()\n", "            self.reset()\n            self.t_cur += 1\n").replace(
                "            # increment t_cur from 0 to 1 (first generation)\n            self.t_cur += 1", "            pass"))),
            ("evolve_rep_counter_not_incremented", mk(["evolve"], lambda s: s.replace("            lbook.rep += 1", "            pass"))),
            ("evolve_log_initialize_dropped", mk(["evolve"], lambda s: s.replace("            if loginit:", "            if False:"))),
            ("evolve_evaluates_start_containers", mk(["evolve"], lambda s: s.replace(
                "            self.reset()\n", "            self.reset()\n            self._geno = self._start_geno\n"))),
        ]


def _first_diff(a, b, path=""):
    if type(a) is not type(b):
        return f"{path}: model {a!r} != implementation {b!r}"
    if isinstance(a, dict):
        for k in a:
            if k not in b:
                return f"{path}.{k}: missing in implementation"
            if a[k] != b[k]:
                return _first_diff(a[k], b[k], f"{path}.{k}")
        return f"{path}: keys differ"
    if isinstance(a, list):
        if len(a) != len(b):
            return f"{path}: length model {len(a)} != implementation {len(b)}"
        for i, (x, y) in enumerate(zip(a, b)):
            if x != y:
                return _first_diff(x, y, f"{path}[{i}]")
    return f"{path}: model {a!r} != implementation {b!r}"


PROP = C20()
