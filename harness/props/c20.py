"""C20 — the breeding-programme loop applies operators in order on independent replicates.

* `pre_build()` parses reset/advance/evolve (and initialize/is_initialized) of
  RecurrentSelectionBreedingProgram with `ast` and regenerates
  lean/PybropsModel/Generated/C20Schedule.lean statement by statement, in source order, with the
  keyword arguments and local variable names as written (locals are numbered, nothing is
  normalised).  `WellFormed C20Schedule.evolve` — a dataflow analysis by symbolic execution, closed
  by `decide` in Props/C20.lean — is the obligation that breaks when the dataflow of the source
  changes.
* correspondence: the real class (or a subclass) is driven through histories of API calls (`evolve`,
  `reset`, `advance`; attribute re-assignments `start_X = …`, `t_max = …`, `t_cur = …`; a second
  logbook; a call interrupted by a failing operator) with scripted operator / logbook /
  initialisation stubs that record every call.  The start containers are object graphs (dict -> list
  -> dict / numpy array …, up to 4 levels, shared objects, cycles); the stubs mutate what they are
  handed in place at every level, mutate objects they KEPT from earlier calls, return handed objects,
  aliases or fresh containers.  The Lean driver runs the regenerated schedule on the same graph with
  the same script; the two traces (with the depth-5 unfolding of every container at every call) must
  be equal.
* Spec: `Program.specFull` (= `specTrace` + the replicate-counter clause) / `specAdvance` / the reset
  clause (Lean) evaluated on what was recorded from the real class; the initial state is what the
  harness handed to the constructor (or what the initialisation operator returned).
"""
import ast
import contextlib
import copy
import io
import json
import os

from .. import bridge, compat
from ..core import Prop

compat.install()

SRC = os.path.join(compat.REPO, "pybrops", "breed", "arch", "RecurrentSelectionBreedingProgram.py")
GEN = os.path.join(bridge.LEAN, "PybropsModel", "Generated", "C20Schedule.lean")

FIVE = ["genome", "geno", "pheno", "bval", "gmod"]
OPS = {("pselop", "pselect"): "pselect", ("mateop", "mate"): "mate",
       ("evalop", "evaluate"): "evaluate", ("sselop", "sselect"): "sselect"}
LOGS = {"log_initialize": "initialize", "log_pselect": "pselect", "log_mate": "mate",
        "log_evaluate": "evaluate", "log_sselect": "sselect"}
KWS = FIVE + ["mcfg"]


# ====================================================================== translator (ast -> Lean)
class Untranslatable(Exception):
    pass


def _self_attr(node):
    """`self.X` / `self._X` -> "X", else None"""
    if isinstance(node, ast.Attribute) and isinstance(node.value, ast.Name) and node.value.id == "self":
        return node.attr[1:] if node.attr.startswith("_") else node.attr
    return None


class Scope:
    """local variables of one method, numbered in order of first appearance from `base`"""
    RESERVED = {"self", "lbook", "ngen", "nrep", "verbose", "loginit", "kwargs", "copy", "r", "_"}

    def __init__(self, base):
        self.base = base
        self.names = {}

    def reg(self, node, what):
        a = _self_attr(node)
        if a in FIVE:
            return "." + a
        if isinstance(node, ast.Name) and node.id not in self.RESERVED:
            if node.id not in self.names:
                self.names[node.id] = self.base + len(self.names)
            return f"(.loc {self.names[node.id]})"
        raise Untranslatable(f"{what}: not a container variable: {ast.unparse(node)}")

    def is_var(self, node):
        return _self_attr(node) in FIVE or (isinstance(node, ast.Name) and node.id not in self.RESERVED)


def _kwargs(call, misc_kw, what, sc):
    """keyword arguments of an operator / logbook call, in source order -> Lean list of (Kw × Reg)"""
    if call.args:
        raise Untranslatable(f"{what}: positional arguments")
    out = []
    seen = set()
    for k in call.keywords:
        if k.arg is None:                    # **m
            if misc_kw != "**":
                raise Untranslatable(f"{what}: unexpected ** argument")
            name, val = "misc", k.value
        elif k.arg in ("t_cur", "t_max"):
            if _self_attr(k.value) != k.arg:
                raise Untranslatable(f"{what}: {k.arg} must be self._{k.arg}")
            seen.add(k.arg)
            continue
        elif k.arg == "miscout":
            if misc_kw != "miscout":
                raise Untranslatable(f"{what}: unexpected keyword miscout")
            name, val = "misc", k.value
        elif k.arg in KWS:
            name, val = k.arg, k.value
        else:
            raise Untranslatable(f"{what}: unexpected keyword {k.arg}")
        if name in seen:
            raise Untranslatable(f"{what}: keyword {name} given twice")
        seen.add(name)
        out.append(f"(.{name}, {sc.reg(val, what)})")
    for name in ("t_cur", "t_max"):
        if name not in seen:
            raise Untranslatable(f"{what}: keyword {name} missing")
    return "[" + ", ".join(out) + "]"


def _is_call(node, owner_pred, method=None):
    return (isinstance(node, ast.Call) and isinstance(node.func, ast.Attribute)
            and owner_pred(node.func.value) and (method is None or node.func.attr == method))


def _is_self(n):
    return isinstance(n, ast.Name) and n.id == "self"


def _is_lbook(n):
    return isinstance(n, ast.Name) and n.id == "lbook"


def _start_slot(node):
    a = _self_attr(node)
    if a and a.startswith("start_") and a[6:] in FIVE:
        return FIVE.index(a[6:])
    return None


def _stmt(node, sc, guarded=False):
    """one Python statement -> list of Lean `Stmt` terms"""
    u = ast.unparse(node)
    # docstrings
    if isinstance(node, ast.Expr) and isinstance(node.value, ast.Constant) and isinstance(node.value.value, str):
        return []
    if isinstance(node, ast.Pass):
        return [".skip"]
    # if verbose: print(...)
    if isinstance(node, ast.If) and isinstance(node.test, ast.Name) and node.test.id == "verbose" and not node.orelse:
        for b in node.body:
            if not (isinstance(b, ast.Expr) and isinstance(b.value, ast.Call)
                    and isinstance(b.value.func, ast.Name) and b.value.func.id == "print"):
                raise Untranslatable("statement under `if verbose:` is not a print: " + ast.unparse(b))
        return [".skip"]
    # if loginit: lbook.log_initialize(...)
    if isinstance(node, ast.If) and isinstance(node.test, ast.Name) and node.test.id == "loginit" and not node.orelse:
        out = []
        for b in node.body:
            r = _stmt(b, sc, guarded=True)
            for s in r:
                if not s.startswith(".log "):
                    raise Untranslatable("only logbook calls may stand under `if loginit:`: " + ast.unparse(b))
            out += r
        return out
    # if ngen is None: ngen = self._t_max
    if isinstance(node, ast.If) and not node.orelse and isinstance(node.test, ast.Compare) \
            and isinstance(node.test.left, ast.Name) and node.test.left.id == "ngen" \
            and len(node.test.ops) == 1 and isinstance(node.test.ops[0], ast.Is) \
            and isinstance(node.test.comparators[0], ast.Constant) and node.test.comparators[0].value is None \
            and len(node.body) == 1 and isinstance(node.body[0], ast.Assign) \
            and len(node.body[0].targets) == 1 and isinstance(node.body[0].targets[0], ast.Name) \
            and node.body[0].targets[0].id == "ngen" and _self_attr(node.body[0].value) == "t_max":
        return [".ngenDefault"]
    # if not self.is_initialized(): self.initialize()
    if isinstance(node, ast.If) and not node.orelse and isinstance(node.test, ast.UnaryOp) \
            and isinstance(node.test.op, ast.Not) and _is_call(node.test.operand, _is_self, "is_initialized") \
            and not node.test.operand.args and not node.test.operand.keywords \
            and len(node.body) == 1 and isinstance(node.body[0], ast.Expr) \
            and _is_call(node.body[0].value, _is_self, "initialize") \
            and not node.body[0].value.args and not node.body[0].value.keywords:
        return [".initIfNeeded"]
    if isinstance(node, ast.Assign) and len(node.targets) == 1 and not isinstance(node.targets[0], ast.Tuple):
        tgt, v = node.targets[0], node.value
        # self.t_cur = 0
        if _self_attr(tgt) == "t_cur":
            if isinstance(v, ast.Constant) and v.value == 0 and type(v.value) is int:
                return [".setT0"]
            raise Untranslatable("assignment to the clock not understood: " + u)
        if sc.is_var(tgt):
            # x = {}
            if isinstance(v, ast.Dict) and not v.keys:
                return [f".newDict {sc.reg(tgt, u)}"]
            # x = copy.deepcopy(self.start_Y)
            if isinstance(v, ast.Call) and isinstance(v.func, ast.Attribute) \
                    and isinstance(v.func.value, ast.Name) and v.func.value.id == "copy" \
                    and v.func.attr == "deepcopy" and len(v.args) == 1 and not v.keywords \
                    and _start_slot(v.args[0]) is not None:
                return [f".copyStart {sc.reg(tgt, u)} {_start_slot(v.args[0])}"]
            # x = dict(self.start_Y) / copy.copy(self.start_Y): a shallow copy
            if isinstance(v, ast.Call) and len(v.args) == 1 and not v.keywords and _start_slot(v.args[0]) is not None \
                    and ((isinstance(v.func, ast.Name) and v.func.id == "dict")
                         or (isinstance(v.func, ast.Attribute) and isinstance(v.func.value, ast.Name)
                             and v.func.value.id == "copy" and v.func.attr == "copy")):
                return [f".shallowCopyStart {sc.reg(tgt, u)} {_start_slot(v.args[0])}"]
            # x = {k: copy.copy(v) for k, v in self.start_Y.items()}: a copy that stops two levels down
            if isinstance(v, ast.DictComp) and len(v.generators) == 1 and not v.generators[0].ifs \
                    and isinstance(v.generators[0].target, ast.Tuple) and len(v.generators[0].target.elts) == 2 \
                    and all(isinstance(e, ast.Name) for e in v.generators[0].target.elts) \
                    and _is_call(v.generators[0].iter, lambda n: _start_slot(n) is not None, "items") \
                    and not v.generators[0].iter.args and isinstance(v.key, ast.Name) \
                    and v.key.id == v.generators[0].target.elts[0].id:
                var = v.generators[0].target.elts[1].id
                val = v.value
                shallow = (isinstance(val, ast.Call) and not val.keywords and (
                    (len(val.args) == 1 and isinstance(val.args[0], ast.Name) and val.args[0].id == var
                     and ((isinstance(val.func, ast.Name) and val.func.id in ("list", "dict"))
                          or (isinstance(val.func, ast.Attribute) and isinstance(val.func.value, ast.Name)
                              and val.func.value.id == "copy" and val.func.attr == "copy")))
                    or (not val.args and isinstance(val.func, ast.Attribute) and val.func.attr == "copy"
                        and isinstance(val.func.value, ast.Name) and val.func.value.id == var)))
                if shallow:
                    return [f".levelCopyStart {sc.reg(tgt, u)} {_start_slot(v.generators[0].iter.func.value)} 2"]
                if isinstance(val, ast.Name) and val.id == var:      # {k: v for ...} = dict(x)
                    return [f".shallowCopyStart {sc.reg(tgt, u)} {_start_slot(v.generators[0].iter.func.value)}"]
            # x = self.start_Y
            if _start_slot(v) is not None:
                return [f".aliasStart {sc.reg(tgt, u)} {_start_slot(v)}"]
            # x = y
            if sc.is_var(v):
                return [f".move {sc.reg(tgt, u)} {sc.reg(v, u)}"]
        raise Untranslatable("assignment not understood: " + u)
    # self.t_cur += 1 / lbook.rep += 1
    if isinstance(node, ast.AugAssign) and isinstance(node.op, ast.Add) \
            and isinstance(node.value, ast.Constant) and node.value.value == 1 and type(node.value.value) is int:
        if _self_attr(node.target) == "t_cur":
            return [".tick"]
        if isinstance(node.target, ast.Attribute) and _is_lbook(node.target.value) and node.target.attr == "rep":
            return [".incRep"]
        raise Untranslatable("augmented assignment not understood: " + u)
    # a, self.genome, ... = self._pselop.pselect(...)
    if isinstance(node, ast.Assign) and len(node.targets) == 1 and isinstance(node.targets[0], ast.Tuple) \
            and isinstance(node.value, ast.Call) and isinstance(node.value.func, ast.Attribute):
        f = node.value.func
        key = (_self_attr(f.value), f.attr)
        if key not in OPS:
            raise Untranslatable("call of an unknown operator: " + u[:120])
        args = _kwargs(node.value, "miscout", OPS[key], sc)
        rets = "[" + ", ".join(sc.reg(t, "assignment target") for t in node.targets[0].elts) + "]"
        return [f".call .{OPS[key]} {args} {rets}"]
    if isinstance(node, ast.Expr) and isinstance(node.value, ast.Call):
        c = node.value
        # lbook.log_X(...)
        if _is_call(c, _is_lbook) and c.func.attr in LOGS:
            args = _kwargs(c, "**", c.func.attr, sc)
            return [f".log .{LOGS[c.func.attr]} {'true' if guarded else 'false'} {args}"]
        # self.reset()
        if _is_call(c, _is_self, "reset") and not c.args and not c.keywords:
            return [".callReset"]
        # self.advance(ngen = ngen, lbook = lbook, verbose = verbose, **kwargs)
        if _is_call(c, _is_self, "advance") and not c.args:
            kw = {k.arg: k.value for k in c.keywords}
            ok = all(isinstance(kw.get(n), ast.Name) and kw[n].id == n for n in ("ngen", "lbook"))
            extra = set(kw) - {"ngen", "lbook", "verbose", None}
            if ok and not extra:
                return [".callAdvance"]
        raise Untranslatable("call not understood: " + u[:120])
    raise Untranslatable("statement not understood: " + u[:120])


def _method(cls, name):
    for n in cls.body:
        if isinstance(n, ast.FunctionDef) and n.name == name:
            return n
    raise Untranslatable(f"method {name} not found")


def _split_loop(fn, count_name, sc):
    """body of a method with exactly one top-level `for _ in range(<count_name>)` loop
    -> (pre, loop body, post) as lists of Lean statements"""
    pre, body, post = [], None, []
    for node in fn.body:
        if isinstance(node, ast.For):
            if body is not None:
                raise Untranslatable(f"{fn.name}: two loops")
            it = node.iter
            if not (isinstance(it, ast.Call) and isinstance(it.func, ast.Name) and it.func.id == "range"
                    and len(it.args) == 1 and isinstance(it.args[0], ast.Name) and it.args[0].id == count_name
                    and not node.orelse and isinstance(node.target, ast.Name)):
                raise Untranslatable(f"{fn.name}: loop header not understood: " + ast.unparse(node)[:80])
            body = []
            for b in node.body:
                body += _stmt(b, sc)
        elif body is None:
            pre += _stmt(node, sc)
        else:
            post += _stmt(node, sc)
    if body is None:
        raise Untranslatable(f"{fn.name}: no loop over range({count_name})")
    return pre, body, post


def _norm(node):
    return ast.dump(node, annotate_fields=False, include_attributes=False)


def translate(src_text):
    """-> (dict of the seven statement lists (Lean terms), {method: {local name: number}}).
    Raises Untranslatable."""
    tree = ast.parse(src_text)
    cls = None
    for n in tree.body:
        if isinstance(n, ast.ClassDef) and n.name == "RecurrentSelectionBreedingProgram":
            cls = n
    if cls is None:
        raise Untranslatable("class RecurrentSelectionBreedingProgram not found")
    s_reset, s_adv, s_evo = Scope(200), Scope(100), Scope(0)
    reset = []
    for node in _method(cls, "reset").body:
        reset += _stmt(node, s_reset)
    apre, agen, apost = _split_loop(_method(cls, "advance"), "ngen", s_adv)
    epre, erep, epost = _split_loop(_method(cls, "evolve"), "nrep", s_evo)
    # the two helpers the schedule relies on must be what the model assumes
    init = [n for n in _method(cls, "initialize").body
            if not (isinstance(n, ast.Expr) and isinstance(n.value, ast.Constant))]
    want_init = ast.parse("self.start_genome, self.start_geno, self.start_pheno, self.start_bval, self.start_gmod"
                          " = self._initop.initialize(**kwargs)").body
    if [_norm(n) for n in init] != [_norm(n) for n in want_init]:
        raise Untranslatable("initialize(): body is not the assignment of the five start containers")
    isin = [n for n in _method(cls, "is_initialized").body
            if not (isinstance(n, ast.Expr) and isinstance(n.value, ast.Constant))]
    want_isin = ast.parse("return (self._start_genome is not None and self._start_geno is not None and "
                          "self._start_pheno is not None and self._start_bval is not None and "
                          "self._start_gmod is not None)").body
    if [_norm(n) for n in isin] != [_norm(n) for n in want_isin]:
        raise Untranslatable("is_initialized(): body is not the conjunction of five `is not None` tests")
    sched = {"evolvePre": epre, "evolveRep": erep, "evolvePost": epost, "reset": reset,
             "advancePre": apre, "advanceGen": agen, "advancePost": apost}
    return sched, {"evolve": s_evo.names, "advance": s_adv.names, "reset": s_reset.names}


def render(sched, note, names=None):
    lines = ["/-", "REGENERATED on every run by harness/props/c20.py (pre_build) from",
             "pybrops/breed/arch/RecurrentSelectionBreedingProgram.py — do not edit.", note]
    for m, d in (names or {}).items():
        if d:
            lines.append(f"locals of {m}: " + ", ".join(f"{k} = loc {v}" for k, v in d.items()))
    lines += ["-/", "import PybropsModel.Model.Program", "", "namespace C20Schedule", "open Program", "",
              "def evolve : Schedule where"]
    for k in ("evolvePre", "evolveRep", "evolvePost", "reset", "advancePre", "advanceGen", "advancePost"):
        items = sched[k]
        if not items:
            lines.append(f"  {k} := []")
        else:
            lines.append(f"  {k} := [")
            lines.append(",\n".join("    " + s for s in items))
            lines.append("  ]")
    lines += ["", "end C20Schedule", ""]
    return "\n".join(lines)


EMPTY = {k: [] for k in ("evolvePre", "evolveRep", "evolvePost", "reset", "advancePre", "advanceGen", "advancePost")}


def regenerate():
    """-> (ok, message)"""
    try:
        text = open(SRC, encoding="utf-8", newline=None).read()
        sched, names = translate(text)
        body = render(sched, "translation: ok", names)
        ok, msg = True, ""
    except (Untranslatable, SyntaxError, OSError) as e:
        msg = f"{type(e).__name__}: {e}"
        body = render(EMPTY, "translation FAILED (" + msg.replace("-/", "- /")[:300] + "): empty schedule, not well formed")
        ok = False
    os.makedirs(os.path.dirname(GEN), exist_ok=True)
    old = open(GEN).read() if os.path.exists(GEN) else None
    if old != body:
        with bridge.Lock():
            with open(GEN, "w") as f:
                f.write(body)
    return ok, msg


# ====================================================================== object graphs of containers
# Conventions shared with lean/PybropsModel/Drv/C20.lean: a dict is a cell with data [-9] whose references
# are its values in insertion order (the list under "h" first); a list of ints is a cell holding them; a
# list of objects is a cell [-8]; a numpy integer array is a cell [-7, values...]; a tuple of objects is a cell
# [-6] (immutable); an instance of a plain class (`Box`) is a cell [-5] whose references are its attribute
# values in insertion order (attribute "h" first).  A dict / Box without references is EMPTY (`{}`).
# A numpy array of dtype=object is a cell [-4] (1-D) / [-4, c] (2-D with c columns; c = 0: 0-d) whose references are its
# ELEMENTS in C order (per-individual ragged record lists, arrays of unequal length, dicts, class instances):
# `ndarray.copy()` / `numpy.array(x)` / `x[:]`-style copies of such an array are SHALLOW (the elements are
# shared), only copy.deepcopy copies the elements too.
DEPTH = 5


class Box:
    """a plain Python object with attributes (copied by copy.deepcopy through its __dict__)"""


def graph_of(case):
    """-> (nodes [{"d": data, "r": refs}], start [node index | None]) of the start containers"""
    if "graph" in case:
        return case["graph"], case["start"]
    inner = {i: j for i, j in case.get("share", [])}      # cells[i]["h"] is the list object of cells[j]
    nodes = []
    for i, c in enumerate(case["cells"]):
        nodes.append({"d": [-9], "r": [2 * inner.get(i, i) + 1]})
        nodes.append({"d": list(c), "r": []})
    return nodes, [None if x is None else 2 * x for x in case["start"]]


def build_objects(nodes):
    import numpy
    objs = []
    for n in nodes:
        d = n["d"]
        if d == [-9]:
            objs.append({})
        elif d == [-5]:
            objs.append(Box())
        elif d[:1] == [-8]:
            objs.append([])
        elif d[:1] == [-6]:
            objs.append(None)                 # tuples are immutable: built below, children first
        elif d[:1] == [-7]:
            objs.append(numpy.array(d[1:], dtype=numpy.int64))
        elif d[:1] == [-4]:
            a = numpy.empty(len(n["r"]), dtype=object)          # elements are stored below, one by one
            if d == [-4, 0]:
                assert len(n["r"]) == 1
                a = numpy.empty((), dtype=object)               # a 0-d array wrapping one object
            objs.append(a if (len(d) == 1 or d[1] == 0) else a.reshape(-1, d[1]))
        else:
            objs.append(list(d))
    # the generator gives the elements of a tuple higher indices than the tuple (or they are not tuples)
    for i in range(len(nodes) - 1, -1, -1):
        if nodes[i]["d"][:1] == [-6]:
            elems = [objs[r] for r in nodes[i]["r"]]
            assert all(e is not None for e in elems), "tuple node refers to a tuple that is not built yet"
            objs[i] = tuple(elems)
    for n, o in zip(nodes, objs):
        if isinstance(o, dict):
            for j, r in enumerate(n["r"]):
                o["h" if j == 0 else f"k{j}"] = objs[r]
        elif isinstance(o, Box):
            for j, r in enumerate(n["r"]):
                setattr(o, "h" if j == 0 else f"k{j}", objs[r])
        elif n["d"][:1] == [-8]:
            for r in n["r"]:
                o.append(objs[r])
        elif n["d"][:1] == [-4]:
            for idx, r in zip(numpy.ndindex(o.shape), n["r"]):
                o[idx] = objs[r]                 # a full integer index stores the object itself
            assert all(o[idx] is objs[r] for idx, r in zip(numpy.ndindex(o.shape), n["r"]))
    return objs


def _is_int(x):
    import numpy
    return isinstance(x, (int, numpy.integer)) and not isinstance(x, (bool, numpy.bool_))


def data_children(o):
    """(data, children) of one object, see the conventions above"""
    t = type(o)
    if t is list:
        for x in o:                          # fast path: a list of Python ints
            if type(x) is not int:
                break
        else:
            return list(o), []
        if all(_is_int(x) for x in o):
            return [int(x) for x in o], []
        return [-8], list(o)
    if t is dict:
        return [-9], list(o.values())
    import numpy
    if isinstance(o, dict):
        return [-9], list(o.values())
    if isinstance(o, Box):
        return [-5], list(vars(o).values())
    if isinstance(o, numpy.ndarray) and o.dtype == object:
        return ([-4] if o.ndim == 1 else [-4, int(o.shape[-1]) if o.ndim else 0]), \
            [o[idx] for idx in numpy.ndindex(o.shape)]
    if isinstance(o, numpy.ndarray):
        try:
            if o.dtype.kind in "iu":
                return [-7] + o.ravel().tolist(), []
            return [-7] + [int(x) for x in o.ravel()], []
        except Exception:
            return [-7, -999], []
    if isinstance(o, tuple) and o and not all(_is_int(x) for x in o):
        return [-6], list(o)
    if isinstance(o, (list, tuple)):
        if all(_is_int(x) for x in o):
            return [int(x) for x in o], []
        return [-8], list(o)
    return [-999], []


def view(o, k=DEPTH, depth=0, out=None):
    """depth-bounded pre-order unfolding of the object graph below `o` (= Program.view)"""
    if out is None:
        out = []
    d, ch = data_children(o)
    out.append([depth] + d)
    if k > 0:
        for c in ch:
            view(c, k - 1, depth + 1, out)
    return out


def walk(o, path):
    for i in path:
        ch = data_children(o)[1]
        if i >= len(ch):
            return None
        o = ch[i]
    return o


def mut_obj(o, tok):
    """in-place mutation by kind (= Drv.C20.mutCell)"""
    import numpy
    if isinstance(o, dict):
        h = o.setdefault("h", [])
        if isinstance(h, list):
            h.append(tok)
    elif isinstance(o, Box):
        h = vars(o).setdefault("h", [])
        if isinstance(h, list):
            h.append(tok)
    elif isinstance(o, numpy.ndarray) and o.dtype == object:
        pass                        # its elements are mutated (addressed by path), the array of references is not
    elif isinstance(o, numpy.ndarray):
        if o.size >= 1:
            o.ravel()[-1] = tok
    elif isinstance(o, list):
        if all(_is_int(x) for x in o):
            o.append(tok)


# ====================================================================== instrumented stubs
class Recorder:
    """identity registry (keeps every object alive so ids are never reused) and the trace"""

    def __init__(self):
        self.objs = []
        self.ids = {}
        self.trace = []
        self.prog = None
        self.script = []
        self.used = set()
        self.seen = []          # every object the operators / logbook were handed or returned, in order
        self.auto = None        # [next token]: unscripted calls mutate every handed container (second programme)
        self.depth = DEPTH      # how deep the observations unfold the object graphs

    def oid(self, o):
        k = id(o)
        if k not in self.ids:
            self.objs.append(o)
            self.ids[k] = len(self.objs)
        return self.ids[k]

    def val(self, o):
        if o is None:
            return None
        return view(o, self.depth)

    def attr(self, name):
        """a container of the programme, through its public property (private attribute as fallback)"""
        p = self.prog
        try:
            return getattr(p, name)
        except Exception:
            return getattr(p, "_" + name, None)

    def start_vals(self):
        return [self.val(self.attr("start_" + n)) for n in FIVE]

    def start_ids(self):
        out = []
        for n in FIVE:
            o = self.attr("start_" + n)
            out.append(None if o is None else self.oid(o))
        return out

    def next_action(self, kind):
        """the first not yet consumed action written for calls of this kind"""
        for i, a in enumerate(self.script):
            if i not in self.used and a["k"] == kind:
                self.used.add(i)
                return a
        return None

    @staticmethod
    def mutate(objs, muts):
        for o, m in zip(objs, muts):
            if m is not None and o is not None:
                mut_obj(o, m)

    @staticmethod
    def deep(roots, ms):
        for i, path, tok in ms:
            if i < len(roots) and roots[i] is not None:
                t = walk(roots[i], path)
                if t is not None:
                    mut_obj(t, tok)

    @staticmethod
    def select(objs, rets):
        out = []
        for tag, x in rets:
            if tag == "arg":
                out.append(objs[x] if x < len(objs) else objs[0])
            elif tag == "empty":
                out.append({})                      # a legitimately EMPTY container (falsy)
            else:
                out.append({"h": list(x)})
        return out


def _nat(x):
    """clock values are naturals in the model: a negative (or non-integer) clock is recorded as a value no
    Spec accepts instead of one the protocol cannot carry"""
    try:
        x = int(x)
    except Exception:
        return 10 ** 9
    return x if x >= 0 else 10 ** 9 + abs(x)


class StubAbort(Exception):
    """raised by a scripted operator to interrupt an evolve/advance call on purpose"""


class RetiredOperatorApplied(Exception):
    """an operator / logbook the user has replaced by another one was applied"""


def _alive(stub, what):
    if getattr(stub, "retired", False):
        raise RetiredOperatorApplied(f"the {what} that the user replaced by another one was applied")


DEFAULT_RETS = {
    "pselect": [["new", []]] + [["arg", i] for i in range(5)],
    "mate": [["arg", i] for i in range(1, 6)],
    "evaluate": [["arg", i] for i in range(5)],
    "sselect": [["arg", i] for i in range(5)],
}


def _stub_classes():
    compat.import_pybrops()
    from pybrops.breed.op.init.InitializationOperator import InitializationOperator
    from pybrops.breed.op.psel.ParentSelectionOperator import ParentSelectionOperator
    from pybrops.breed.op.mate.MatingOperator import MatingOperator
    from pybrops.breed.op.eval.EvaluationOperator import EvaluationOperator
    from pybrops.breed.op.ssel.SurvivorSelectionOperator import SurvivorSelectionOperator
    from pybrops.breed.op.log.Logbook import Logbook

    def op_call(rec, kind, objs, t_cur, t_max):
        ev = {"kind": "op:" + kind, "t": _nat(t_cur), "tmax": _nat(t_max), "rep": int(rec.lbook.rep),
              "args": [rec.oid(o) for o in objs], "argVals": [rec.val(o) for o in objs],
              "startVals": rec.start_vals()}
        a = rec.next_action("op:" + kind)
        if a is not None and a.get("raise"):
            # the operator fails — possibly after it has already changed what it was handed (`muts`)
            rec.mutate(objs, a.get("muts", []))
            raise StubAbort("scripted operator failure in " + kind)
        if a is None:
            if rec.auto is not None:
                for o in objs:
                    if o is not None:
                        rec.auto[0] += 1
                        mut_obj(o, rec.auto[0])
            rets = rec.select(objs, DEFAULT_RETS[kind])
        else:
            rec.deep(rec.seen, a.get("late", []))      # objects kept from EARLIER calls, mutated now
            rec.mutate(objs, a.get("muts", []))
            rec.deep(objs, a.get("deep", []))
            rets = rec.select(objs, a.get("rets", []))
        rec.seen += list(objs) + list(rets)
        ev["rets"] = [rec.oid(o) for o in rets]
        ev["retVals"] = [rec.val(o) for o in rets]
        rec.trace.append(ev)
        return tuple(rets)

    class Init(InitializationOperator):
        def __init__(self, rec):
            self.rec = rec

        def initialize(self, **kwargs):
            _alive(self, "initialisation operator")
            rec = self.rec
            ev = {"kind": "init", "t": _nat(rec.prog.t_cur), "tmax": _nat(rec.prog.t_max), "rep": int(rec.lbook.rep),
                  "args": [], "argVals": [], "startVals": rec.start_vals()}
            a = rec.next_action("init")
            rets = rec.select([], a["rets"] if a is not None else [["new", []]] * 5)
            ev["rets"] = [rec.oid(o) for o in rets]
            ev["retVals"] = [rec.val(o) for o in rets]
            rec.trace.append(ev)
            return tuple(rets)

    class PSel(ParentSelectionOperator):
        def __init__(self, rec):
            self.rec = rec

        def pselect(self, genome, geno, pheno, bval, gmod, t_cur, t_max, miscout=None, **kwargs):
            _alive(self, "parent selection operator")
            return op_call(self.rec, "pselect", [genome, geno, pheno, bval, gmod, miscout], t_cur, t_max)

    class Mate(MatingOperator):
        def __init__(self, rec):
            self.rec = rec

        def mate(self, mcfg, genome, geno, pheno, bval, gmod, t_cur, t_max, miscout=None, **kwargs):
            _alive(self, "mating operator")
            return op_call(self.rec, "mate", [mcfg, genome, geno, pheno, bval, gmod, miscout], t_cur, t_max)

    class Eval(EvaluationOperator):
        def __init__(self, rec):
            self.rec = rec

        def evaluate(self, genome, geno, pheno, bval, gmod, t_cur, t_max, miscout=None, **kwargs):
            _alive(self, "evaluation operator")
            return op_call(self.rec, "evaluate", [genome, geno, pheno, bval, gmod, miscout], t_cur, t_max)

    class SSel(SurvivorSelectionOperator):
        def __init__(self, rec):
            self.rec = rec

        def sselect(self, genome, geno, pheno, bval, gmod, t_cur, t_max, miscout=None, **kwargs):
            _alive(self, "survivor selection operator")
            return op_call(self.rec, "sselect", [genome, geno, pheno, bval, gmod, miscout], t_cur, t_max)

    class Book(Logbook):
        def __init__(self, rec, rep0):
            self.rec = rec
            self._rep = rep0
            self._data = {}

        @property
        def data(self):
            return self._data

        @data.setter
        def data(self, value):
            self._data = value

        @property
        def rep(self):
            return self._rep

        @rep.setter
        def rep(self, value):
            self._rep = value

        def _log(self, kind, objs, t_cur, t_max, misc):
            _alive(self, "logbook")
            rec = self.rec
            ev = {"kind": "log:" + kind, "t": _nat(t_cur), "tmax": _nat(t_max), "rep": int(self._rep),
                  "args": [rec.oid(o) for o in objs] + [0],
                  "argVals": [rec.val(o) for o in objs] + [rec.val(dict(misc))],
                  "startVals": rec.start_vals(), "rets": [], "retVals": []}
            a = rec.next_action("log:" + kind)
            if a is not None:
                rec.deep(rec.seen, a.get("late", []))
                rec.mutate(objs, a.get("muts", []))
                rec.deep(objs, a.get("deep", []))
            rec.seen += list(objs)
            rec.trace.append(ev)

        def log_initialize(self, genome, geno, pheno, bval, gmod, t_cur, t_max, **kwargs):
            self._log("initialize", [genome, geno, pheno, bval, gmod], t_cur, t_max, kwargs)

        def log_pselect(self, mcfg, genome, geno, pheno, bval, gmod, t_cur, t_max, **kwargs):
            self._log("pselect", [mcfg, genome, geno, pheno, bval, gmod], t_cur, t_max, kwargs)

        def log_mate(self, mcfg, genome, geno, pheno, bval, gmod, t_cur, t_max, **kwargs):
            self._log("mate", [mcfg, genome, geno, pheno, bval, gmod], t_cur, t_max, kwargs)

        def log_evaluate(self, genome, geno, pheno, bval, gmod, t_cur, t_max, **kwargs):
            self._log("evaluate", [genome, geno, pheno, bval, gmod], t_cur, t_max, kwargs)

        def log_sselect(self, genome, geno, pheno, bval, gmod, t_cur, t_max, **kwargs):
            self._log("sselect", [genome, geno, pheno, bval, gmod], t_cur, t_max, kwargs)

        def reset(self):
            self._data = {}
            self._rep = 0

        def write(self, filename):
            pass

    return Init, PSel, Mate, Eval, SSel, Book


_STUBS = None
_FALSY = {}


def stubs():
    global _STUBS
    if _STUBS is None:
        _STUBS = _stub_classes()
    return _STUBS


STUB_NAMES = ["initop", "pselop", "mateop", "evalop", "sselop", "lbook"]


def stub_class(name, how=None):
    """the stub class for `name`; `how` = "len" / "bool": a subclass whose instances are FALSY
    (`__len__` returning 0 — e.g. a logbook without records, an operator with an empty queue — or
    `__bool__` returning False).  Being falsy is a legitimate trait of an implementation."""
    base = stubs()[STUB_NAMES.index(name)]
    if not how:
        return base
    key = (name, how)
    if key not in _FALSY:
        if how == "len":
            _FALSY[key] = type("Empty" + base.__name__, (base,), {"__len__": lambda self: 0})
        else:
            _FALSY[key] = type("Falsy" + base.__name__, (base,), {"__bool__": lambda self: False})
    return _FALSY[key]


def _prog_module():
    compat.import_pybrops()
    import pybrops.breed.arch.RecurrentSelectionBreedingProgram as m
    return m


# ====================================================================== canonical renumbering
class Renumber:
    """identities -> 1, 2, … by first appearance across the whole case; 0 (after the shift) is kept.
    `shift` = 1 for the model, whose heap addresses start at 0."""

    def __init__(self, shift):
        self.m = {0: 0}
        self.shift = shift

    def __call__(self, i):
        if i is None:
            return None
        i += self.shift
        if i not in self.m:
            self.m[i] = len(self.m)
        return self.m[i]

    def call(self, c):
        """canonical form of one call record (model or implementation)"""
        f = self
        out = {"start_before": [f(i) for i in c["start_before"]]}
        tr = []
        for e in c["trace"]:
            e = dict(e)
            args = list(e["args"])
            if e["kind"].startswith("log:") and args:
                args[-1] = -self.shift           # the identity of `**misc` is not observable
            e["args"] = [f(i) for i in args]
            e["rets"] = [f(i) for i in e["rets"]]
            tr.append(e)
        out["trace"] = tr
        out["work"] = [f(i) for i in c["work"]]
        out["workVals"] = c["workVals"]
        out["start_after"] = [f(i) for i in c["start_after"]]
        out["startVals_after"] = c["startVals_after"]
        out["rep"] = c["rep"]
        out["t"] = c["t"]
        out["tmax"] = c.get("tmax")
        return out


N_ARGS = {"pselect": 6, "mate": 7, "evaluate": 6, "sselect": 6}
N_RETS = {"pselect": 6, "mate": 5, "evaluate": 5, "sselect": 5}
N_LOG = {"initialize": 5, "pselect": 6, "mate": 6, "evaluate": 5, "sselect": 5}


def _pack(trace, prev):
    """the trace with `startVals` replaced by "=" where it equals that of the previous event (lossless)"""
    out = []
    for e in trace:
        if e["startVals"] == prev:
            out.append(dict(e, startVals="="))
        else:
            out.append(e)
        prev = e["startVals"]
    return out


def _unpack(trace):
    out = []
    prev = None
    for e in trace:
        if e["startVals"] == "=":
            e = dict(e, startVals=prev)
        prev = e["startVals"]
        out.append(e)
    return out


def _unify_copies(trace, known=()):
    """Identity canonicalisation for the Spec oracle (never fires on the unchanged tree, where the logbook is
    handed the very objects the operator returned).  The Spec accepts a handover when the received object is
    the returned one OR has equal contents.  A programme that stores a COPY of what an operator returned hands
    the logbook an object never seen before whose contents equal those of a returned container; when the
    logbook then changes that copy in place, the next operator receives it with contents that no longer equal
    the contents at return.  The copy IS the state the predecessor returned: from its first appearance (as an
    argument of a logbook call, with contents equal to those of exactly the container the preceding operator
    call returned) it is identified with that container."""
    seen = set(known)
    alias = {}
    out = []
    prev_op = None
    for e in trace:
        e = dict(e)
        args = [alias.get(i, i) for i in e["args"]]
        if e["kind"].startswith("log:") and prev_op is not None:
            taken = set(args)
            for j, (i, v) in enumerate(zip(args, e["argVals"])):
                if i and i not in seen and i not in alias.values():
                    cands = [r for r, rv in zip(prev_op["rets"], prev_op["retVals"]) if rv == v and r not in taken]
                    if cands:
                        alias[i] = cands[0]
                        taken.add(cands[0])
                        args[j] = cands[0]
        e["args"] = args
        e["rets"] = [alias.get(i, i) for i in e["rets"]]
        seen.update(e["args"])
        seen.update(e["rets"])
        if e["kind"].startswith("op:"):
            prev_op = e
        out.append(e)
    return out


def _calls(case):
    """the API calls of a case (older replay files have `runs` = evolve calls only)"""
    if "calls" in case:
        return case["calls"]
    return [dict(r, m="evolve") for r in case["runs"]]


REP1 = 40       # replicate counter of the second logbook before its first use


def _bookkeeping(case):
    """per call: (t_max in force, logbook index, replicate counter of that logbook before the call),
    computed from the case alone"""
    tmax = case["tmax"]
    reps = [case["rep0"], case.get("rep1", REP1)]
    cur = 0
    out = []
    for c in _calls(case):
        if c["m"] in ("evolve", "advance"):
            cur = c.get("book", 0)
        out.append((tmax, cur, reps[cur]))
        if c["m"] == "evolve":
            reps[cur] += (c["abort_rep"] + 1) if c.get("abort") else c["nrep"]
        elif c["m"] == "set_tmax":
            tmax = c["value"]
    return out


def _plain(case):
    """no attribute assignments, interrupted calls or second logbook: the shrinker can reshape the calls"""
    return all(c["m"] in ("evolve", "reset", "advance") and not c.get("abort") and not c.get("book")
               for c in _calls(case))


class C20(Prop):
    PID = "C20"
    MODULE = "PybropsModel.Props.C20"
    N_QUICK = 110
    N_THOROUGH = 2000
    RULE = ("RecurrentSelectionBreedingProgram (and a subclass inheriting its methods) driven through sequences of "
            "API calls — evolve(nrep 0-4, ngen 0-5 or None, loginit on/off; also 130 generations, 260 replicates), "
            "reset(), advance(ngen) incl. advance after an evolve and reset between advances; keyword, positional, "
            "defaulted, extra-keyword and numpy-integer argument forms; between calls the user may re-assign start_* "
            "(a new container, an EMPTY one, None), t_max, t_cur (also back to 0), replace an operator by another "
            "instance, hand over another logbook, run a SECOND programme object, or meet an operator that fails "
            "(possibly after mutating what it was handed, possibly in the very first evaluation) — with scripted "
            "operator / logbook / initialisation stubs: start containers given (flat; nested up to 4 levels of dict / "
            "list / tuple / class instance / numpy array with sharing between containers and cycles; a chain 12 levels "
            "deep; a 1030-element list, a 1100-element array, a dict with 131 values; EMPTY dicts `{}`, empty lists, "
            "zero-length arrays; the same dict for two slots; containers whose TOP-LEVEL values — or values inside a "
            "list of arrays, or at any depth — are numpy arrays of dtype=object, 0-d / 1-D / 2-D, holding mutable "
            "elements: ragged record lists, arrays of unequal length, a dict / class instance per individual, the "
            "same element twice), partly missing or produced by the initialisation "
            "operator; every operator call mutates handed containers in place with a unique token (at the top and at "
            "every level below), may mutate objects it kept from EARLIER calls, and returns per slot either the handed "
            "object, another handed object (alias), a fresh container with unique content or a fresh EMPTY container "
            "(also for the mating configuration); logbook calls may mutate too; logbook and operators may be FALSY "
            "objects (`__len__` = 0 or `__bool__` = False).  Non-trivial = first call is evolve with nrep >= 2, "
            "ngen >= 1 (or the case has a direct reset/advance call or a between-calls event), at least one in-place "
            "mutation and at least one fresh return")
    TRUSTED = ["copy.deepcopy is modelled on an object-graph heap (cells holding references, any nesting depth, "
               "sharing and cycles): every cell that existed at initialisation is copied and its internal references "
               "redirected, so the copy of a start container is an isomorphic disjoint graph at every level "
               "(theorems view_copy / Good.extend; copies that stop k levels down are modelled too (levelCopy) and "
               "refuted by shallow_level_counterexample); that Python's memoised traversal computes the same graph "
               "up to unreachable garbage — for dicts, lists, tuples, numpy arrays and instances of plain classes — "
               "is trusted.  A numpy array of dtype=object is a cell whose references are its elements "
               "(numpy's __deepcopy__ copies them with the caller's memo; `ndarray.copy()` / `numpy.array(x)` share "
               "them = levelCopy, theorem object_array_shallow_copy_counterexample); that correspondence is checked "
               "on every run, cycles THROUGH an object array are not generated (numpy's __deepcopy__ does not "
               "memoise the array before its elements)",
               "the ast -> Lean translator of harness/props/c20.py (one Lean statement per Python statement, "
               "nothing normalised; initialize() / is_initialized() must be textually the five-container assignment / "
               "the conjunction of five `is not None` tests); checked on every run by comparing the trace of the "
               "regenerated schedule with the real class",
               "Python attribute/property mechanics of the class (setters check_is_dict / check_is_int) and "
               "keyword-argument binding.  Re-assignment of t_cur / t_max and a different logbook per call are covered "
               "by theorem history_with_reassignment_meets_spec; re-assignment of start_*, replacement of an operator "
               "instance, a second programme object, falsy logbook / operator objects and a call interrupted by a "
               "failing operator are covered by the correspondence check and the Spec oracle only (in the model the "
               "first is a caller-side allocation, the next three are no-ops, the last is not run)",
               "identity canonicalisation before the Spec oracle (harness, _unify_copies): an object first seen as an "
               "argument of a logbook call whose contents equal those of a container the preceding operator call "
               "returned is identified with that container (a programme that stores a copy of what an operator "
               "returned); it never fires on the unchanged tree"]
    ASSUMPTIONS = ["operators and logbook may keep every reference they are ever handed or return and mutate it in "
                   "any later call (theorem evolve_meets_spec_of_footprint); at the time of a call they hold no "
                   "reference into the object graphs of the stored start containers, and the initialisation "
                   "operator does not keep what it returns",
                   "operators return dicts (possibly empty) and tuples of the documented arity; nrep, ngen are "
                   "non-negative integers (Python or numpy; ngen may be None for evolve, documented as 'use t_max')",
                   "reset()/advance() are called directly only on an initialised programme, advance() only when "
                   "working containers exist",
                   "a start container that is an EMPTY dict is a given container (is_initialized tests `is not None`): "
                   "the initialisation operator is applied only when a start container is None"]

    # ------------------------------------------------------------------ obligations
    def pre_build(self):
        return regenerate()

    # ------------------------------------------------------------------ generation
    @staticmethod
    def _nested_graph(rng):
        """object graph of five start containers nested up to 4 levels (dict -> list of objects -> dict /
        array / list ...), with a numpy array somewhere, optionally an object shared between two containers,
        a reference from one start container to another and a cycle.  Every dict has its "h" list first."""
        nodes = []
        cnt = [0]

        def add(d, r=()):
            nodes.append({"d": list(d), "r": list(r)})
            return len(nodes) - 1

        def num():
            cnt[0] += 1
            return cnt[0]

        def leaf():
            # now and then an EMPTY list
            return add([num() for _ in range(rng.randint(1, 2) if rng.random() < 0.9 else 0)])

        def arr():
            # now and then a zero-length array
            return add([-7] + [num() for _ in range(rng.randint(1, 3) if rng.random() < 0.93 else 0)])

        def objarr(depth):
            # a numpy array of dtype=object: per-individual records (ragged lists, arrays of unequal length,
            # now and then a nested object); 1-D, now and then 2-D, now and then of length zero
            i = add([-4])
            k = rng.choice([0, 1, 2, 2, 3, 4])
            elems = [(leaf() if rng.random() < 0.5 else arr()) if (depth <= 1 or rng.random() < 0.7)
                     else sub(depth - 1) for _ in range(k)]
            nodes[i]["r"] = elems
            if k == 4 and rng.random() < 0.5:
                nodes[i]["d"] = [-4, 2]
            return i

        def sub(depth):
            r = rng.random()
            if depth <= 0:
                return leaf() if r < 0.5 else arr()
            if rng.random() < 0.12:
                return objarr(depth)
            if r < 0.12:
                return leaf()
            if r < 0.3:
                return arr()
            if r < 0.35:
                return add([-9])                       # an EMPTY dict
            if r < 0.6:
                i = add([-8])
                nodes[i]["r"] = [sub(depth - 1) for _ in range(rng.randint(1, 2))]
                return i
            if r < 0.7:                                # a tuple of objects (elements get higher indices)
                i = add([-6])
                nodes[i]["r"] = [sub(depth - 1) for _ in range(rng.randint(1, 2))]
                return i
            if r < 0.8:                                # an instance of a plain class with attributes
                i = add([-5])
                nodes[i]["r"] = [leaf()] + [sub(depth - 1) for _ in range(rng.randint(0, 2))]
                return i
            i = add([-9])
            nodes[i]["r"] = [leaf()] + [sub(depth - 1) for _ in range(rng.randint(0, 2))]
            return i

        roots = []
        for _ in range(5):
            i = add([-9])
            first = len(nodes)
            nodes[i]["r"] = [leaf()] + [sub(3) for _ in range(rng.randint(1, 2))]
            roots.append((i, first, len(nodes)))
        # a chain that is certainly 4 levels deep below one container: dict -> list -> dict -> array
        i0 = roots[rng.randrange(5)][0]
        a = add([-7, num(), num()])
        d = add([-9], [leaf(), a])
        nodes[i0]["r"].append(add([-8], [d]))
        # ... and one through a tuple and a class instance below another: dict -> tuple -> Box -> list
        i1 = roots[rng.randrange(5)][0]
        tpl = add([-6])
        bx = add([-5])
        nodes[bx]["r"] = [add([num()]), add([-7, num()])]
        nodes[tpl]["r"] = [bx]
        nodes[i1]["r"].append(tpl)
        r = rng.random()
        if r < 0.35:          # one inner object shared by two start containers
            x, y = rng.sample(range(5), 2)
            lo, hi = roots[y][1], roots[y][2]
            nodes[roots[x][0]]["r"].append(rng.randrange(lo, hi))
        elif r < 0.5:         # a start container stored inside another one
            x, y = rng.sample(range(5), 2)
            nodes[roots[x][0]]["r"].append(roots[y][0])
        elif r < 0.65:        # a cycle: an inner dict refers back to its container
            nodes[d]["r"].append(i0)
        return nodes, [t[0] for t in roots]

    @staticmethod
    def _paths(nodes, root, maxlen=4):
        """paths (child indices) from `root` to every object that can be mutated in place"""
        out = []
        stack = [(root, [])]
        while stack:
            n, pth = stack.pop()
            if nodes[n]["d"][:1] not in ([-8], [-6], [-4]):
                out.append(pth)
            if len(pth) < maxlen:
                for j, r in enumerate(nodes[n]["r"]):
                    stack.append((r, pth + [j]))
        out.sort(key=lambda q: (len(q), q))
        return out

    def _script(self, rng, calls, needs_init, tok, style, tmax, paths=None, p_late=0.0, p_empty=0.0, start=None):
        """actions in call order.  `paths`: per start slot the mutable paths of a nested start container;
        `p_late`: probability that a call also mutates an object kept from an EARLIER call; `p_empty`:
        probability that a returned container / mating configuration is a new EMPTY dict `{}`"""
        def fresh():
            tok[0] += 1
            return tok[0]

        nseen = [0]
        rep_base = [0]          # index in `seen` of the arguments of the current replicate's first evaluation

        def late():
            if nseen[0] == 0 or rng.random() >= p_late:
                return []
            out = []
            for _ in range(rng.randint(1, 2)):
                r = rng.random()
                if r < 0.4:
                    i = rep_base[0] + rng.randrange(5)            # a working copy handed at the replicate's start
                elif r < 0.8:
                    i = rng.randrange(max(0, nseen[0] - 30), nseen[0])
                else:
                    i = rng.randrange(nseen[0])
                pth = rng.choice([[], [], [0]]) if not paths else rng.choice(paths[rng.randrange(5)])
                out.append([min(i, nseen[0] - 1), pth, fresh()])
            return out

        def op_action(kind, first_eval=False):
            na, nr = N_ARGS[kind], N_RETS[kind]
            off = 1 if kind == "mate" else 0          # position of genome among the arguments
            pm = {"pure": 0.0, "inplace": 0.9, "fresh": 0.2, "mixed": 0.5, "sparse": 0.03}[style]
            muts = [fresh() if rng.random() < pm else None for _ in range(na)]
            if first_eval and style != "pure":
                for i in range(5):
                    muts[off + i] = fresh()           # mutate all five working copies of the reset state
            deep = []
            if paths and style != "pure":
                if first_eval:
                    for i in range(5):                # ... at every level, the deepest object included
                        ps = paths[i]
                        for pth in {tuple(ps[-1]), tuple(rng.choice(ps)), tuple(rng.choice(ps))}:
                            deep.append([off + i, list(pth), fresh()])
                elif rng.random() < 0.4:
                    i = rng.randrange(5)
                    deep.append([off + i, rng.choice(paths[i]), fresh()])
            rets = []
            for i in range(nr):
                slot = i - (1 if kind == "pselect" else 0)     # container slot of this return value (-1 = mcfg)
                r = rng.random()
                pf = {"pure": 0.5, "inplace": 0.1, "fresh": 0.9, "mixed": 0.45, "sparse": 0.05}[style]
                if p_empty and rng.random() < (3 * p_empty if slot < 0 else p_empty):
                    rets.append(["empty", []])
                elif slot < 0:
                    rets.append(["new", [fresh()]] if r < 0.8 else ["arg", rng.randrange(na)])
                elif r < pf:
                    rets.append(["new", [fresh(), fresh()][:rng.randint(1, 2)]])
                elif r < pf + 0.12:
                    rets.append(["arg", rng.randrange(na)])   # alias of some handed object
                else:
                    rets.append(["arg", off + slot])
            a = {"k": "op:" + kind, "muts": muts, "rets": rets}
            if deep:
                a["deep"] = deep
            lt = late()
            if lt:
                a["late"] = lt
            if first_eval:
                rep_base[0] = nseen[0]
                a["first"] = True
            nseen[0] += na + nr
            return a

        def log_action(kind):
            n = N_LOG[kind]
            pm = 0.15 if style in ("mixed", "inplace") else 0.0
            a = {"k": "log:" + kind, "muts": [fresh() if rng.random() < pm else None for _ in range(n)]}
            if paths and pm and rng.random() < 0.15:
                i = rng.randrange(5)
                a["deep"] = [[(1 if kind in ("pselect", "mate") else 0) + i, rng.choice(paths[i]), fresh()]]
            lt = late()
            if lt:
                a["late"] = lt
            nseen[0] += n
            return a

        def gens(n):
            out = []
            for _ in range(n):
                for kind in ("pselect", "mate", "evaluate", "sselect"):
                    out.append(op_action(kind))
                    out.append(log_action(kind))
            return out

        script = []
        missing = {i for i, x in enumerate(start or []) if x is None} if start is not None else \
            ({0} if needs_init else set())
        for c in calls:
            seg = []
            inited = not missing
            if c["m"] == "evolve":
                if not inited:
                    rets = [["new", [fresh()]] for _ in range(5)]
                    if rng.random() < 0.3:        # equal contents in two slots
                        rets[rng.randrange(1, 5)] = ["new", list(rets[0][1])]
                    if p_empty:                   # the initialisation operator returns empty containers
                        for i in rng.sample(range(5), rng.randint(1, 3)):
                            rets[i] = ["empty", []]
                    seg.append({"k": "init", "rets": rets})
                    missing.clear()
                ngen = c["ngen"] if c["ngen"] is not None else tmax
                for _ in range(c["nrep"]):
                    seg.append(op_action("evaluate", first_eval=True))
                    if c["loginit"]:
                        seg.append(log_action("initialize"))
                    seg += gens(ngen)
                if c.get("abort"):
                    # an operator fails in the middle of this call: keep the actions up to a randomly chosen
                    # operator call, which raises instead of returning
                    # (also the very first evaluation of the call; the failing operator may already have
                    # mutated what it was handed when it raises: the next call must not see that)
                    ops_at = [i for i, a in enumerate(seg) if a["k"].startswith("op:")]
                    k = ops_at[0] if c.get("abort_first") else rng.choice(ops_at)
                    seg = seg[:k + 1]
                    c["abort_rep"] = sum(1 for a in seg if a.get("first")) - 1     # replicate it happens in
                    seg[k] = {"k": seg[k]["k"], "raise": True,
                              "muts": seg[k].get("muts", []) if rng.random() < 0.7 else []}
                    for a in seg:
                        a["ab"] = True
            elif c["m"] == "advance":
                seg = gens(c["ngen"])
            elif c["m"] == "set_start" and c.get("content") is None and not c.get("empty"):
                missing.add(c["slot"])
            elif c["m"] == "set_start":
                missing.discard(c["slot"])
            elif c["m"] == "set_tmax":
                tmax = c["value"]
            script += seg
        for a in script:
            a.pop("first", None)
        return script

    def _case(self, rng, calls, style="mixed", start_mode="given", tmax=None, tag="evolve", p_late=0.0,
              subclass=False, p_empty=0.0, falsy=None, _none_slot=None, _empties=None):
        tok = [100]
        share = []
        graph = None
        paths = None
        if start_mode == "given":
            cells = [[10 * (i + 1), 10 * (i + 1) + 1][:rng.randint(0, 2)] + [i + 1] for i in range(5)]
            start = [0, 1, 2, 3, 4]
        elif start_mode == "nested":      # containers nested several levels deep (see _nested_graph)
            cells = []
            graph, start = self._nested_graph(rng)
            paths = [self._paths(graph, r) for r in start]
        elif start_mode == "empty":       # one to five of the given start containers are EMPTY dicts `{}`
            cells = []
            k = rng.choice([1, 1, 2, 3, 5]) if _empties is None else _empties
            empties = set(rng.sample(range(5), k))
            graph, start = [], []
            for i in range(5):
                start.append(len(graph))
                if i in empties:
                    graph.append({"d": [-9], "r": []})
                else:
                    graph.append({"d": [-9], "r": [len(graph) + 1]})
                    graph.append({"d": [10 * (i + 1), i + 1][:rng.randint(0, 2)], "r": []})   # maybe an empty list
        elif start_mode == "objarr":
            # what a container of per-individual records looks like: a dict whose TOP-LEVEL values are numpy
            # arrays of dtype=object holding mutable elements (ragged record lists, marker vectors of unequal
            # length, a dict / class instance per individual), beside ordinary numeric arrays and lists
            cells = []
            graph, start = [], []
            cnt = [0]

            def gadd(d, r=()):
                graph.append({"d": list(d), "r": list(r)})
                return len(graph) - 1

            def gnum():
                cnt[0] += 1
                return cnt[0]

            k = rng.choice([1, 2, 2, 3, 5]) if _empties is None else _empties
            with_arr = set(rng.sample(range(5), k))
            for i in range(5):
                root = gadd([-9])
                start.append(root)
                refs = [gadd([gnum() for _ in range(rng.randint(0, 2))])]            # "h"
                if i not in with_arr or rng.random() < 0.5:
                    refs.append(gadd([-7] + [gnum() for _ in range(rng.randint(1, 3))]))   # a numeric array (control)
                if i in with_arr:
                    for _ in range(rng.randint(1, 2)):
                        oa = gadd([-4])
                        n = rng.choice([1, 2, 2, 3, 4])
                        elems = []
                        for j in range(n):
                            r = rng.random()
                            if r < 0.45:      # a ragged record list
                                elems.append(gadd([gnum() for _ in range(1 + (j % 3))]))
                            elif r < 0.8:     # a marker vector, lengths unequal
                                elems.append(gadd([-7] + [gnum() for _ in range(1 + (j % 3))]))
                            elif r < 0.9:     # a dict per individual
                                elems.append(gadd([-9], [gadd([gnum()])]))
                            else:             # a class instance per individual
                                elems.append(gadd([-5], [gadd([gnum()])]))
                        if n >= 2 and rng.random() < 0.2:
                            elems[-1] = elems[0]          # the same record object stored twice
                        graph[oa]["r"] = elems
                        if n == 4 and rng.random() < 0.5:
                            graph[oa]["d"] = [-4, 2]
                        elif n == 1 and rng.random() < 0.5:
                            graph[oa]["d"] = [-4, 0]      # a 0-d object array wrapping one record
                        if rng.random() < 0.3:
                            # ... inside a LIST of arrays (one array per trait), beside a numeric array
                            oa = gadd([-8], [gadd([-7] + [gnum() for _ in range(rng.randint(1, 2))]), oa])
                        refs.append(oa)
                graph[root]["r"] = refs
            paths = [self._paths(graph, r) for r in start]
        elif start_mode == "deep":        # one container nested a dozen levels deep: dict -> list -> dict -> ...
            cells = []
            graph, start = [], []
            for i in range(5):
                start.append(len(graph))
                graph.append({"d": [-9], "r": [len(graph) + 1]})
                graph.append({"d": [10 * (i + 1), i + 1], "r": []})
            k = rng.randrange(5)
            paths = [[[], [0]] for _ in range(5)]
            parent, pth = start[k], []
            for lvl in range(6):
                lst, dct, hh = len(graph), len(graph) + 1, len(graph) + 2
                graph.append({"d": [-8], "r": [dct]})
                graph.append({"d": [-9], "r": [hh]})
                graph.append({"d": [500 + lvl], "r": []})
                graph[parent]["r"].append(lst)
                pth = pth + [len(graph[parent]["r"]) - 1, 0]
                paths[k] += [list(pth), pth + [0]]
                parent = dct
            paths = [sorted(p, key=lambda q: (len(q), q)) for p in paths]
        elif start_mode == "big":         # sizes past 127 / 1024: a long list, a long array, a dict with many values
            cells = []
            graph, start = [], []
            for i in range(5):
                start.append(len(graph))
                graph.append({"d": [-9], "r": [len(graph) + 1]})
                graph.append({"d": [10 * (i + 1), i + 1], "r": []})
            graph[start[0] + 1]["d"] = list(range(20000, 21030))                     # "h" of genome: 1030 integers
            graph.append({"d": [-7] + list(range(30000, 31100)), "r": []})           # an array of 1100 integers
            graph[start[1]]["r"].append(len(graph) - 1)
            for j in range(130):                                                     # 131 values in one dict
                graph.append({"d": [40000 + j], "r": []})
                graph[start[2]]["r"].append(len(graph) - 1)
            paths = [[[], [0]], [[], [0], [1]], [[], [0], [64], [130]], [[], [0]], [[], [0]]]
        elif start_mode == "shared":      # the same dict object stored in two start slots
            cells = [[i + 1, 7] for i in range(4)]
            start = [0, 1, 1, 2, 3]
            rng.shuffle(start)
        elif start_mode == "shared-inner":   # two start dicts hold the very same inner list object
            cells = [[i + 1, 7] for i in range(5)]
            start = [0, 1, 2, 3, 4]
            i, j = rng.sample(range(5), 2)
            share = [[i, j]]
        elif start_mode == "partial":     # one container missing -> initialisation operator replaces all five
            cells = [[i + 1] for i in range(5)]
            start = [0, 1, 2, 3, 4]
            start[rng.randrange(5) if _none_slot is None else _none_slot] = None
        else:                              # "init": nothing given
            cells = []
            start = [None] * 5
        if tmax is None:
            tmax = rng.choice([0, 3, 7, 20])
        needs_init = any(x is None for x in start)
        script = self._script(rng, calls, needs_init, tok, style, tmax, paths=paths, p_late=p_late, p_empty=p_empty,
                              start=start)
        case = {"kind": f"{tag}:{start_mode}:{style}" + (":late" if p_late else "") + (":empty-rets" if p_empty else "")
                + (":falsy" if falsy else ""),
                "tmax": tmax, "rep0": rng.choice([0, 0, 1, 5, -2]),
                "cells": cells, "share": share, "start": start, "calls": calls, "script": script, "style": style,
                "start_mode": start_mode}
        if graph is not None:
            case["graph"] = graph
        if start_mode == "deep":
            case["depth"] = 15
        if subclass:
            case["subclass"] = True
        if falsy:
            case["falsy"] = dict(falsy)
        return case

    @staticmethod
    def _ev(nrep, ngen, loginit=True, verbose=False, form=None):
        c = {"m": "evolve", "nrep": nrep, "ngen": ngen, "loginit": loginit}
        if verbose:
            c["verbose"] = True
        if form:
            c["form"] = form
        return c

    def corpus(self):
        import random
        rng = random.Random(20)
        ev = self._ev
        out = [
            self._case(rng, [ev(0, 0)]), self._case(rng, [ev(1, 0)]), self._case(rng, [ev(0, 3)]),
            self._case(rng, [ev(1, 1)]),
            self._case(rng, [ev(2, 2)], style="inplace"), self._case(rng, [ev(3, 2)], style="fresh"),
            self._case(rng, [ev(2, 1, loginit=False)]), self._case(rng, [ev(2, 2)], style="pure"),
            self._case(rng, [ev(2, 1)], start_mode="init"), self._case(rng, [ev(2, 1)], start_mode="partial"),
            self._case(rng, [ev(2, 2)], start_mode="shared"),
            self._case(rng, [ev(2, 2)], start_mode="shared-inner", style="inplace"),
            self._case(rng, [ev(2, 1), ev(2, 2)], tag="two-evolves"),
            self._case(rng, [ev(4, 5)], style="mixed"),
            # clock beyond t_max, zero generations with t_max > 0
            self._case(rng, [ev(2, 5)], tmax=3), self._case(rng, [ev(2, 4)], tmax=0),
            self._case(rng, [ev(2, 0)], tmax=3),
            # direct calls: reset, advance, advance after an evolve, reset between advances
            self._case(rng, [{"m": "reset"}], tag="api"),
            self._case(rng, [{"m": "reset"}, {"m": "advance", "ngen": 2}], tag="api"),
            self._case(rng, [ev(1, 2), {"m": "advance", "ngen": 2}], tag="api"),
            self._case(rng, [{"m": "reset"}, {"m": "advance", "ngen": 1}, {"m": "reset"},
                             {"m": "advance", "ngen": 2}, {"m": "advance", "ngen": 1}], tag="api", style="inplace"),
            self._case(rng, [ev(2, 1), {"m": "reset"}, {"m": "advance", "ngen": 0}, ev(1, 1)], tag="api",
                       start_mode="init"),
            # ngen = None (documented: use t_max; regression cases of D36, fixed by 89fb67b3)
            self._case(rng, [ev(0, None)], tmax=3, tag="ngen-none"),
            self._case(rng, [ev(2, None)], tmax=2, tag="ngen-none"),
            # containers nested several levels deep: only a copy of EVERY level keeps the start state apart
            self._case(rng, [ev(2, 1)], start_mode="nested", style="inplace"),
            self._case(rng, [ev(3, 2)], start_mode="nested", style="mixed"),
            self._case(rng, [ev(2, 1), {"m": "reset"}, {"m": "advance", "ngen": 1}], start_mode="nested",
                       style="inplace", tag="api"),
            # operators / logbook that keep what they were handed and mutate it in a LATER call (nothing at once)
            self._case(rng, [ev(3, 2)], style="pure", p_late=0.7),
            self._case(rng, [ev(2, 2), ev(2, 1)], style="pure", p_late=0.7, tag="two-evolves"),
            self._case(rng, [ev(2, 2)], start_mode="nested", style="pure", p_late=0.7),
            self._case(rng, [ev(2, 1), {"m": "reset"}, {"m": "advance", "ngen": 2}, ev(1, 1)], style="mixed",
                       p_late=0.5, tag="api"),
            # sizes past small-integer limits: more than 127 / 255 generations and replicates
            self._case(rng, [ev(1, 130, loginit=False)], style="sparse", tmax=200, tag="long", start_mode="empty",
                       _empties=5),
            self._case(rng, [ev(260, 0, loginit=False)], style="sparse", tag="long", start_mode="empty", _empties=5),
            # rarely used call forms: positional arguments, defaults, extra keywords, numpy integers, a subclass
            self._case(rng, [ev(2, 1, form="positional"), {"m": "advance", "ngen": 1, "form": "positional"}],
                       tag="forms"),
            self._case(rng, [ev(2, 1, loginit=False, form="positional")], tag="forms"),
            self._case(rng, [ev(2, 2, form="default")], tag="forms"),
            self._case(rng, [ev(2, 1, form="kwargs"), {"m": "reset", "form": "kwargs"},
                             {"m": "advance", "ngen": 1, "form": "kwargs"}], tag="forms"),
            self._case(rng, [ev(2, 2, form="npint"), {"m": "advance", "ngen": 1, "form": "npint"}], tag="forms"),
            self._case(rng, [ev(2, 0, form="npint")], tag="forms"),
            self._case(rng, [ev(2, 2)], subclass=True, style="inplace", tag="forms"),
            self._case(rng, [ev(1, 1), ev(2, None)], tmax=1, subclass=True, tag="forms"),
            # the user re-assigns attributes between calls: a new start container / None (=> initialise again),
            # t_max (the default of ngen = None), the clock
            self._case(rng, [ev(2, 1), {"m": "set_start", "slot": 1, "content": [71, 72]}, ev(2, 1)], tag="reassign"),
            self._case(rng, [{"m": "reset"}, {"m": "set_start", "slot": 4, "content": [73]}, {"m": "reset"},
                             {"m": "advance", "ngen": 1}], tag="reassign", style="inplace"),
            self._case(rng, [ev(1, 1), {"m": "set_start", "slot": 2, "content": None}, ev(2, 1)], tag="reassign"),
            self._case(rng, [ev(1, None), {"m": "set_tmax", "value": 3}, ev(2, None)], tmax=1, tag="reassign"),
            self._case(rng, [{"m": "set_t", "value": 7}, ev(2, 1)], tag="reassign"),
            self._case(rng, [{"m": "reset"}, {"m": "set_t", "value": 5}, {"m": "advance", "ngen": 2}], tag="reassign"),
            # a different logbook handed to each call
            self._case(rng, [ev(2, 1), dict(ev(2, 1), book=1), ev(1, 1)], tag="books"),
            self._case(rng, [ev(1, 1), {"m": "advance", "ngen": 1, "book": 1}, dict(ev(2, 0), book=1)], tag="books"),
            # an operator fails in the middle of an evolve; the programme is then used again
            self._case(rng, [dict(ev(2, 2), abort=True), ev(2, 1)], tag="abort", style="inplace"),
            self._case(rng, [dict(ev(1, 2), abort=True), {"m": "reset"}, {"m": "advance", "ngen": 1}], tag="abort"),
            self._case(rng, [ev(1, 1), dict(ev(3, 1), abort=True), ev(2, 1)], tag="abort"),
            # ... in the very first evaluation, after the operator has already changed its working copies
            self._case(rng, [dict(ev(2, 1), abort=True, abort_first=True), ev(2, 1)], tag="abort", style="inplace"),
            self._case(rng, [dict(ev(1, 1), abort=True, abort_first=True), {"m": "reset"}, {"m": "advance", "ngen": 1}],
                       tag="abort", style="inplace"),
            # the clock set back to 0 by the user between calls
            self._case(rng, [ev(1, 1), {"m": "set_t", "value": 0}, {"m": "reset"}, {"m": "advance", "ngen": 1}],
                       tag="reassign", style="inplace"),
            self._case(rng, [ev(1, 2), {"m": "set_t", "value": 0}, ev(2, 1)], tag="reassign", style="inplace"),
            # ---- falsy but valid values: EMPTY start containers `{}` (a programme without genomic models ...)
            self._case(rng, [ev(2, 1)], start_mode="empty", style="inplace", tag="falsy"),
            self._case(rng, [ev(2, 2), {"m": "reset"}, {"m": "advance", "ngen": 1}], start_mode="empty", tag="falsy"),
            self._case(rng, [ev(2, 1), ev(1, None)], start_mode="empty", style="pure", p_late=0.6, tmax=1, tag="falsy"),
            # ... operators (and the initialisation operator) that return empty containers / an empty mating
            # configuration
            self._case(rng, [ev(2, 2)], p_empty=0.25, tag="falsy"),
            self._case(rng, [ev(3, 2), {"m": "advance", "ngen": 1}], p_empty=0.25, style="inplace", tag="falsy"),
            self._all_mcfg_empty(self._case(rng, [ev(2, 3)], style="inplace", tag="falsy")),
            self._case(rng, [ev(2, 1)], start_mode="init", p_empty=0.2, tag="falsy"),
            self._case(rng, [ev(2, 1), {"m": "set_start", "slot": 3, "empty": True}, ev(2, 1)], tag="falsy"),
            # ... a logbook / operators whose truth value is False (`__len__` = 0 or `__bool__` = False)
            self._case(rng, [ev(2, 2)], falsy={"lbook": "len"}, tag="falsy"),
            self._case(rng, [ev(2, 1), {"m": "advance", "ngen": 1}], tag="falsy", style="inplace",
                       falsy={"lbook": "bool", "pselop": "len", "mateop": "bool", "evalop": "len", "sselop": "bool",
                              "initop": "len"}),
            self._case(rng, [ev(2, 1)], start_mode="init", falsy={"initop": "bool", "evalop": "bool"}, tag="falsy"),
            # ---- the user replaces an operator by another instance between calls (the old one must not be applied)
            self._case(rng, [ev(1, 1), {"m": "set_op", "which": "pselop"}, ev(2, 1)], tag="swap-op"),
            self._case(rng, [{"m": "reset"}, {"m": "set_op", "which": "evalop"}, {"m": "advance", "ngen": 2},
                             {"m": "set_op", "which": "mateop"}, {"m": "set_op", "which": "sselop"}, ev(1, 1)],
                       tag="swap-op", style="inplace"),
            self._case(rng, [ev(1, 1), {"m": "set_op", "which": "initop"},
                             {"m": "set_start", "slot": 0, "content": None}, ev(2, 1)], tag="swap-op"),
            self._case(rng, [ev(1, 1), {"m": "set_op", "which": "initop"},
                             {"m": "set_start", "slot": 3, "content": None}, ev(2, 1)], tag="swap-op",
                       start_mode="init"),
            self._case(rng, [{"m": "set_op", "which": "evalop"}, ev(2, 1)], tag="swap-op"),
            self._case(rng, [ev(1, 1)] + [{"m": "set_op", "which": n} for n in STUB_NAMES[1:5]] + [ev(1, 1)] +
                       [{"m": "set_op", "which": n} for n in STUB_NAMES[1:5]] + [{"m": "advance", "ngen": 1}],
                       tag="swap-op"),
            # ---- read-only queries before the start containers are completed by the user: evolve must then NOT
            # initialise (and must, when a container is taken away again)
            self._case(rng, [{"m": "query"}, {"m": "set_start", "slot": 2, "content": [81, 82]}, {"m": "query"},
                             ev(2, 1), {"m": "query"}], start_mode="partial", tag="query", _none_slot=2),
            self._case(rng, [{"m": "query"}, {"m": "set_start", "slot": 4, "empty": True}, ev(2, 1),
                             {"m": "set_start", "slot": 0, "content": None}, {"m": "query"}, ev(1, 1), {"m": "query"}],
                       start_mode="partial", tag="query", _none_slot=4, style="inplace"),
            self._case(rng, [{"m": "query"}, ev(2, 1), {"m": "query"}, {"m": "reset"}, {"m": "query"},
                             {"m": "advance", "ngen": 1}], start_mode="init", tag="query"),
            # ---- two programme objects used in turn: one must not influence the other
            self._case(rng, [ev(2, 1), {"m": "other", "nrep": 2, "ngen": 1, "loginit": True},
                             {"m": "advance", "ngen": 1}, ev(1, 1)], tag="two-programs", style="inplace"),
            self._case(rng, [{"m": "other", "nrep": 1, "ngen": 1, "loginit": True}, ev(2, 1),
                             {"m": "other", "nrep": 1, "ngen": 2, "loginit": False}, {"m": "reset"},
                             {"m": "advance", "ngen": 1}], tag="two-programs"),
            # ---- nesting deeper than any fixed copy depth; sizes past 127 / 1024
            self._case(rng, [ev(2, 1)], start_mode="deep", style="inplace", tag="sizes"),
            self._case(rng, [ev(2, 1), {"m": "reset"}, {"m": "advance", "ngen": 1}], start_mode="deep", style="pure",
                       p_late=0.7, tag="sizes"),
            self._case(rng, [ev(2, 0)], start_mode="big", style="inplace", tag="sizes"),
            # ---- containers holding tuples and class instances (copied by copy.deepcopy at every level)
            self._case(rng, [ev(2, 2)], start_mode="nested", style="inplace", tag="kinds"),
            # ---- dtype / aliasing: TOP-LEVEL values that are numpy arrays of dtype=object with mutable elements
            # (ragged record lists, marker vectors of unequal length): `ndarray.copy()` shares the elements
            self._case(rng, [ev(2, 1)], start_mode="objarr", style="inplace", tag="dtype", _empties=5),
            self._case(rng, [ev(3, 2)], start_mode="objarr", style="mixed", tag="dtype"),
            self._case(rng, [ev(2, 1), {"m": "reset"}, {"m": "advance", "ngen": 1}], start_mode="objarr",
                       style="inplace", tag="dtype", _empties=3),
            self._case(rng, [{"m": "reset"}, {"m": "advance", "ngen": 1}, {"m": "reset"}], start_mode="objarr",
                       style="inplace", tag="dtype", _empties=5),
            self._case(rng, [ev(2, 2)], start_mode="objarr", style="pure", p_late=0.7, tag="dtype", _empties=5),
            self._case(rng, [ev(2, 1, loginit=False)], start_mode="objarr", style="inplace", tag="dtype",
                       _empties=1),
        ]
        for c in out:
            c["_corpus"] = "builtin"
        return out

    @staticmethod
    def _all_mcfg_empty(case):
        """every parent selection returns an EMPTY mating configuration `{}`"""
        for a in case["script"]:
            if a["k"] == "op:pselect" and a.get("rets"):
                a["rets"][0] = ["empty", []]
        case["kind"] += ":mcfg-empty"
        return case

    def generate(self, rng, n, tier):
        out = []
        ev = self._ev
        forms = [None] * 6 + ["positional", "default", "kwargs", "npint"]
        for _ in range(n):
            nrep = rng.choice([0, 1, 2, 2, 2, 3, 3, 4])
            ngen = rng.choice([0, 1, 1, 2, 2, 3, 4, 5])
            if tier == "thorough" and rng.random() < 0.05:
                nrep, ngen = rng.randint(4, 8), rng.randint(4, 9)
            style = rng.choice(["mixed", "mixed", "mixed", "inplace", "fresh", "pure"])
            mode = rng.choice(["given"] * 5 + ["nested"] * 2 + ["empty"] * 2 + ["objarr"] * 2 +
                              ["shared", "shared-inner", "partial", "init", "init"])
            if rng.random() < 0.03:
                mode = "deep"
            if tier == "thorough" and rng.random() < 0.004:
                mode = "big"
            p_late = rng.choice([0.0, 0.0, 0.0, 0.3, 0.7])
            p_empty = rng.choice([0.0, 0.0, 0.0, 0.0, 0.15, 0.3])
            falsy = None
            if rng.random() < 0.15:
                falsy = {n: rng.choice(["len", "bool"]) for n in STUB_NAMES if rng.random() < 0.5} or {"lbook": "len"}
            sub = rng.random() < 0.1
            if mode in ("nested", "deep", "objarr"):
                nrep, ngen = min(nrep, 3), min(ngen, 3)
            if mode == "big":
                nrep, ngen = max(min(nrep, 2), 2), 0
            r = rng.random()
            first = ev(nrep, ngen, loginit=rng.random() < 0.8, verbose=rng.random() < 0.1, form=rng.choice(forms))
            if r < 0.14:
                # attribute re-assignment, a second logbook, an interrupted call, a replaced operator, a second
                # programme object (flat start containers, no objects kept by the operators)
                small = lambda: ev(rng.randint(1, 2), rng.randint(0, 2), loginit=rng.random() < 0.8)
                which = rng.choice(["start", "start-none", "tmax", "t", "books", "abort", "abort", "swap-op", "swap-op",
                                    "other", "other", "query", "query"])
                mode2 = rng.choice(["given", "given", "shared", "init", "empty"])
                if which == "start":
                    pre = [small()] if (rng.random() < 0.6 or mode2 == "init") else []
                    new = {"m": "set_start", "slot": rng.randrange(5), "content": [rng.randint(60, 99)]}
                    if rng.random() < 0.3:
                        new = {"m": "set_start", "slot": new["slot"], "empty": True}
                    calls = pre + [new, rng.choice([small(), {"m": "reset"}])]
                elif which == "swap-op":
                    # operators replaced between (and before) calls; the initialisation operator matters only
                    # when a start container is taken away afterwards
                    calls = []
                    have_work = False
                    inited2 = mode2 != "init"
                    for _ in range(rng.randint(2, 4)):
                        if rng.random() < 0.5:
                            calls.append({"m": "set_op", "which": rng.choice(STUB_NAMES[:5])})
                        if not inited2 or not have_work or rng.random() < 0.6:
                            calls.append(small())
                            have_work = have_work or calls[-1]["nrep"] >= 1
                            inited2 = True
                        else:
                            calls.append({"m": "advance", "ngen": rng.randint(1, 2)})
                    if rng.random() < 0.3:
                        calls += [{"m": "set_op", "which": "initop"},
                                  {"m": "set_start", "slot": rng.randrange(5), "content": None}, small()]
                elif which == "query":
                    # the user completes a partly given programme himself (queries in between), or queries around calls
                    if rng.random() < 0.6:
                        mode2 = "partial"
                        calls = [{"m": "query"}, "FILL", {"m": "query"}, small()]
                        if rng.random() < 0.4:
                            calls += [{"m": "set_start", "slot": rng.randrange(5), "content": None}, {"m": "query"}, small()]
                    else:
                        calls = [{"m": "query"}, small(), {"m": "query"}] + \
                            rng.choice([[small()], [{"m": "reset"}, {"m": "query"}, {"m": "advance", "ngen": 1}]])
                elif which == "other":
                    oth = lambda: {"m": "other", "nrep": rng.randint(1, 2), "ngen": rng.randint(0, 2),
                                   "loginit": rng.random() < 0.8}
                    calls = ([oth()] if rng.random() < 0.5 else []) + [small(), oth()] + \
                        rng.choice([[small()], [{"m": "reset"}, {"m": "advance", "ngen": rng.randint(1, 2)}],
                                    [{"m": "advance", "ngen": rng.randint(1, 2)}],
                                    [{"m": "advance", "ngen": 1}, oth(), {"m": "advance", "ngen": 1}]])
                elif which == "start-none":
                    calls = [small(), {"m": "set_start", "slot": rng.randrange(5), "content": None}, small()]
                elif which == "tmax":
                    calls = [ev(rng.randint(0, 2), None), {"m": "set_tmax", "value": rng.randint(0, 3)},
                             ev(rng.randint(1, 2), None)]
                elif which == "t":
                    calls = [small(), {"m": "set_t", "value": rng.choice([0, 0, 1, 2, 3, 5, 9])},
                             rng.choice([small(), {"m": "advance", "ngen": rng.randint(1, 2)}])]
                    if calls[0]["nrep"] == 0:
                        calls[0]["nrep"] = 1
                elif which == "books":
                    calls = [dict(small(), book=rng.randrange(2)) for _ in range(rng.randint(2, 3))]
                    if rng.random() < 0.4 and calls[0]["nrep"] >= 1:
                        calls.insert(1, {"m": "advance", "ngen": 1, "book": rng.randrange(2)})
                else:
                    ab = dict(ev(rng.randint(1, 3), rng.randint(1, 2), loginit=rng.random() < 0.8), abort=True)
                    if rng.random() < 0.25:
                        ab["abort_first"] = True
                    nxt = rng.choice([[ev(rng.randint(1, 2), rng.randint(0, 2))],
                                      [{"m": "reset"}, {"m": "advance", "ngen": rng.randint(0, 2)}]])
                    calls = ([small()] if rng.random() < 0.3 or mode2 == "init" else []) + [ab] + nxt
                tag2 = {"start": "reassign", "start-none": "reassign", "tmax": "reassign", "t": "reassign",
                        "books": "books", "abort": "abort", "swap-op": "swap-op", "other": "two-programs",
                        "query": "query"}[which]
                none_slot = None
                if "FILL" in calls:
                    none_slot = rng.randrange(5)
                    fill = {"m": "set_start", "slot": none_slot, "content": [rng.randint(60, 99)]}
                    if rng.random() < 0.3:
                        fill = {"m": "set_start", "slot": none_slot, "empty": True}
                    calls[calls.index("FILL")] = fill
                out.append(self._case(rng, calls, style=rng.choice(["mixed", "inplace"]), start_mode=mode2, tag=tag2,
                                      tmax=rng.choice([0, 1, 2, 3]) if which == "tmax" else None,
                                      p_empty=p_empty if which in ("swap-op", "other", "query") else 0.0, falsy=falsy,
                                      _none_slot=none_slot))
            elif r < 0.62:
                c1 = self._case(rng, [first], style=style, start_mode=mode, p_late=p_late, subclass=sub,
                                p_empty=p_empty, falsy=falsy)
                if rng.random() < 0.04:
                    c1 = self._all_mcfg_empty(c1)
                out.append(c1)
            elif r < 0.72:
                second = ev(rng.randint(1, 2), rng.randint(0, 2), loginit=rng.random() < 0.8, form=rng.choice(forms))
                out.append(self._case(rng, [first, second], style=style, start_mode=mode, tag="two-evolves",
                                      p_late=p_late, subclass=sub, p_empty=p_empty, falsy=falsy))
            elif r < 0.76:
                tmax = rng.choice([0, 1, 2, 3])
                out.append(self._case(rng, [ev(rng.choice([0, 1, 2]), None, loginit=rng.random() < 0.8,
                                               form=rng.choice(forms))],
                                      style=style, start_mode=mode, tmax=tmax, tag="ngen-none", p_late=p_late,
                                      p_empty=p_empty, falsy=falsy))
            else:
                # a history of direct API calls; reset/advance need an initialised programme, advance needs
                # working containers
                calls = []
                have_work = False
                inited = mode in ("given", "shared", "nested", "shared-inner", "empty", "deep", "big", "objarr")
                for _ in range(rng.randint(1, 5)):
                    choice = rng.random()
                    if not inited or choice < 0.3:
                        k = rng.choice([1, 1, 2])
                        calls.append(ev(k, rng.randint(0, 2), loginit=rng.random() < 0.8, form=rng.choice(forms)))
                        inited, have_work = True, True
                    elif not have_work or choice < 0.55:
                        calls.append({"m": "reset"})
                        have_work = True
                    else:
                        c = {"m": "advance", "ngen": rng.choice([0, 1, 1, 2, 3])}
                        f = rng.choice(forms)
                        if f in ("positional", "kwargs", "npint"):
                            c["form"] = f
                        calls.append(c)
                out.append(self._case(rng, calls, style=style, start_mode=mode, tag="api", p_late=p_late,
                                      subclass=sub, p_empty=p_empty, falsy=falsy))
        return out

    # ------------------------------------------------------------------ implementation
    def run_impl(self, case):
        import numpy
        mod = _prog_module()
        rec = Recorder()
        rec.script = case["script"]
        rec.depth = case.get("depth", DEPTH)
        nodes, start_ix = graph_of(case)
        objs = build_objects(nodes)
        start = [None if i is None else objs[i] for i in start_ix]
        # the initial state is what the caller hands to the constructor (not what the object says it stored)
        expected = [rec.val(o) for o in start]
        falsy = case.get("falsy") or {}          # {"lbook": "len", "pselop": "bool", ...}: falsy stubs
        Book = stub_class("lbook", falsy.get("lbook"))
        books = [Book(rec, case["rep0"]), Book(rec, case.get("rep1", REP1))]
        book = books[0]
        rec.lbook = book
        base = mod.RecurrentSelectionBreedingProgram
        cls = base
        if case.get("subclass"):
            cls = type("DerivedProgram", (cls,), {"__doc__": "a subclass that inherits reset/advance/evolve"})
        ops = {n: stub_class(n, falsy.get(n))(rec) for n in STUB_NAMES[:5]}
        prog = cls(
            ops["initop"], ops["pselop"], ops["mateop"], ops["evalop"], ops["sselop"], case["tmax"],
            start_genome=start[0], start_geno=start[1], start_pheno=start[2], start_bval=start[3],
            start_gmod=start[4])
        rec.prog = prog
        other = {}                               # the second programme object (built at its first use)

        def work():
            objs = [rec.attr(n) for n in FIVE]
            return [None if o is None else rec.oid(o) for o in objs], [rec.val(o) for o in objs]

        def num(x, form):
            return numpy.int64(x) if (form == "npint" and x is not None) else x

        def run_other(c):
            """ANOTHER programme object (same class, its own operators, logbook and start containers) is
            evolved; its operators mutate everything they are handed"""
            if not other:
                r2 = Recorder()
                r2.auto = [5000]
                st2 = [{"h": [900 + i]} for i in range(4)] + [{}]
                bk2 = stub_class("lbook")(r2, 70)
                r2.lbook = bk2
                p2 = base(*[stub_class(n)(r2) for n in STUB_NAMES[:5]], case["tmax"],
                          start_genome=st2[0], start_geno=st2[1], start_pheno=st2[2], start_bval=st2[3],
                          start_gmod=st2[4])
                r2.prog = p2
                other.update(rec=r2, book=bk2, prog=p2, V0=[r2.val(o) for o in st2])
            r2, bk2, p2 = other["rec"], other["book"], other["prog"]
            r2.trace = []
            o2 = {"V0given": other["V0"], "rep_before": int(bk2.rep), "t_before": _nat(p2.t_cur), "raised": None}
            try:
                with contextlib.redirect_stdout(io.StringIO()):
                    p2.evolve(nrep=c["nrep"], ngen=c["ngen"], lbook=bk2, loginit=c["loginit"])
            except Exception as e:
                o2["raised"] = {"type": type(e).__name__, "text": f"{type(e).__name__}: {e}"[:200]}
            o2.update({"trace": r2.trace, "startVals_after": r2.start_vals(), "rep": int(bk2.rep),
                       "t": _nat(p2.t_cur)})
            return o2

        out = []
        for c in _calls(case):
            rec.trace = []
            if c["m"] in ("evolve", "advance"):
                book = books[c.get("book", 0)]       # a different logbook may be handed to each call
                rec.lbook = book
            w_ids, w_vals = work()
            o = {"m": c["m"], "start_before": rec.start_ids(), "V0given": expected,
                 "work_before": w_ids, "workVals_before": w_vals, "t_before": _nat(prog.t_cur),
                 "rep_before": int(book.rep), "raised": None}
            form = c.get("form")
            try:
                with contextlib.redirect_stdout(io.StringIO()):
                    if c["m"] == "evolve":
                        nrep, ngen = num(c["nrep"], form), num(c["ngen"], form)
                        vb = bool(c.get("verbose", False))
                        if form == "positional":
                            prog.evolve(nrep, ngen, book, c["loginit"], vb)
                        elif form == "default" and c["loginit"] and not vb:
                            prog.evolve(nrep=nrep, ngen=ngen, lbook=book)         # loginit, verbose: defaults
                        elif form == "kwargs":
                            prog.evolve(nrep=nrep, ngen=ngen, lbook=book, loginit=c["loginit"], verbose=vb,
                                        note="extra keyword", seed=None)
                        else:
                            prog.evolve(nrep=nrep, ngen=ngen, lbook=book, loginit=c["loginit"], verbose=vb)
                    elif c["m"] == "reset":
                        if form == "kwargs":
                            prog.reset(note="extra keyword")
                        else:
                            prog.reset()
                    elif c["m"] == "set_start":          # the user assigns a new start container (or None)
                        if c.get("empty"):
                            obj = {}
                        else:
                            obj = None if c.get("content") is None else {"h": list(c["content"])}
                        setattr(prog, "start_" + FIVE[c["slot"]], obj)
                        expected = list(expected)
                        expected[c["slot"]] = rec.val(obj)
                    elif c["m"] == "set_tmax":
                        prog.t_max = c["value"]
                    elif c["m"] == "set_t":
                        prog.t_cur = c["value"]
                    elif c["m"] == "set_op":
                        # the user replaces an operator by another instance (same behaviour: it consumes the
                        # same script); the replaced instance must never be applied again
                        name = c["which"]
                        ops[name].retired = True
                        ops[name] = stub_class(name, falsy.get(name))(rec)
                        setattr(prog, name, ops[name])
                    elif c["m"] == "other":
                        o["other"] = run_other(c)
                    elif c["m"] == "query":
                        # read-only use of the object: nothing may change (and nothing may be remembered wrongly)
                        o["answer"] = bool(prog.is_initialized())
                        for n in ["t_cur", "t_max"] + STUB_NAMES[:5] + ["start_" + x for x in FIVE]:
                            getattr(prog, n)
                        for n in FIVE:
                            rec.attr(n)
                    else:
                        ngen = num(c["ngen"], form)
                        if form == "positional":
                            prog.advance(ngen, book)
                        elif form == "kwargs":
                            prog.advance(ngen=ngen, lbook=book, verbose=False, note="extra keyword")
                        else:
                            prog.advance(ngen=ngen, lbook=book)
            except StubAbort as e:
                if c.get("abort"):              # the scripted operator failure this call is meant to meet
                    o["aborted"] = True
                else:
                    o["raised"] = {"type": type(e).__name__, "text": f"{type(e).__name__}: {e}"[:200]}
            except Exception as e:          # every generated call is valid: raising is a Spec violation
                o["raised"] = {"type": type(e).__name__, "text": f"{type(e).__name__}: {e}"[:200]}
            w_ids, w_vals = work()
            o.update({"trace": rec.trace, "start_after": rec.start_ids(), "startVals_after": rec.start_vals(),
                      "work": w_ids, "workVals": w_vals, "rep": int(book.rep), "t": _nat(prog.t_cur),
                      "tmax": _nat(prog.t_max)})
            out.append(o)
            if o["raised"]:
                break
            if rec.trace and rec.trace[0]["kind"] == "init" and not all(v is not None for v in expected):
                expected = rec.trace[0]["retVals"]      # initialised by the operator: that is the initial state
        return {"calls": out, "script_left": len(case["script"]) - len(rec.used)}

    # ------------------------------------------------------------------ model requests
    @staticmethod
    def _evolve_spec_req(nrep, ngen, loginit, o):
        return {"op": "c20.spec", "nrep": nrep, "ngen": ngen, "loginit": loginit,
                "V0given": o["V0given"], "trace": _pack(_unify_copies(o["trace"]), o["V0given"]),
                "startVals_after": o["startVals_after"],
                "rep_before": o["rep_before"], "rep_after": o["rep"],
                "t_before": o["t_before"], "t_after": o["t"]}

    def requests(self, case, obs):
        nodes, start_ix = graph_of(case)
        calls = _calls(case)
        bk = _bookkeeping(case)
        mcalls = []
        for c, (_, _, rep_in) in zip(calls, bk):
            if c.get("abort"):
                continue                     # an interrupted call is not run by the model (see judge)
            if c["m"] in ("set_op", "other", "query"):
                mcalls.append({"m": "noop"})         # must not affect this programme object
                continue
            m = {k: v for k, v in c.items() if k in ("m", "nrep", "ngen", "loginit", "slot", "content", "value",
                                                      "empty")}
            if c["m"] in ("evolve", "advance", "reset"):
                m["rep_in"] = rep_in
            mcalls.append(m)
        reqs = [{"op": "c20.run", "graph": nodes, "start": start_ix, "depth": case.get("depth", DEPTH),
                 "tmax": case["tmax"],
                 "rep0": case["rep0"], "script": [a for a in case["script"] if not a.get("ab")],
                 "calls": mcalls}]
        # what the programme holds between calls is what the LAST operator call on it returned (or what reset()
        # produced): `advance` must be handed that — not whatever the attributes show when it is entered
        held = None
        for c, o, (tmax, _, _) in zip(calls, obs["calls"], bk):
            if o["raised"] or o.get("aborted") or c.get("abort"):
                held = None
                continue
            if c["m"] == "advance":
                cur_ids, cur_vals = held if held is not None else (o["work_before"], o["workVals_before"])
            last_op = next((e for e in reversed(o["trace"]) if e["kind"].startswith("op:")), None)
            if c["m"] in ("evolve", "advance") and last_op is not None and len(last_op["rets"]) == 5:
                held = (last_op["rets"], last_op["retVals"])
            elif c["m"] in ("evolve", "advance") and last_op is not None:
                held = None
            elif c["m"] == "reset":
                held = (o["work"], o["workVals"])
            if c["m"] == "evolve":
                ngen = c["ngen"] if c["ngen"] is not None else tmax     # documented default
                reqs.append(self._evolve_spec_req(c["nrep"], ngen, c["loginit"], o))
            elif c["m"] == "other":
                if not o["other"]["raised"]:
                    reqs.append(self._evolve_spec_req(c["nrep"], c["ngen"], c["loginit"], o["other"]))
            elif c["m"] == "reset":
                reqs.append({"op": "c20.spec_reset", "V0": o["V0given"], "workVals": o["workVals"], "t": o["t"],
                             "startVals_after": o["startVals_after"]})
            elif c["m"] == "advance":
                reqs.append({"op": "c20.spec_advance", "ngen": c["ngen"], "t0": o["t_before"], "V0": o["V0given"],
                             "cur": cur_ids, "curVals": cur_vals,
                             "trace": _pack(_unify_copies(o["trace"], cur_ids), o["V0given"]),
                             "startVals_after": o["startVals_after"], "t_after": o["t"]})
        return reqs

    def judge(self, case, obs, answers):
        calls = _calls(case)
        detail = []
        corr = True
        if "err" in answers[0]:
            # the model could not be run on this case (never on the unchanged tree)
            raise RuntimeError("driver error: " + answers[0]["err"])
        model = answers[0]["ok"]["calls"]
        rm, ro = Renumber(1), Renumber(0)
        # the model does not run interrupted calls: align the remaining ones
        pairs = [(i, c, o) for i, (c, o) in enumerate(zip(calls, obs["calls"])) if not c.get("abort")]
        n_expected = len([c for c in calls if not c.get("abort")])
        if len(obs["calls"]) == len(calls) and len(model) != n_expected:
            corr = False
            detail.append(f"model performed {len(model)} calls, implementation {n_expected}")
        for (i, c, o), m in zip(pairs, model):
            m = dict(m, trace=_unpack(m["trace"]))
            if bool(m["bad"]) != bool(o["raised"]):
                corr = False
                detail.append(f"call {i} ({o['m']}): model raises={m['bad']}, implementation raised={o['raised']}")
            cm, co = rm.call(m), ro.call(o)
            if c["m"] == "set_start" or any(x.get("abort") for x in calls[:i]):
                # identities created by the caller / in a call the model does not run: compare contents only
                for k in ("start_before", "start_after", "work"):
                    cm.pop(k), co.pop(k)
                for e in cm["trace"] + co["trace"]:
                    e.pop("args"), e.pop("rets")
            if cm != co:
                corr = False
                detail.append(f"call {i} ({o['m']}): " + _first_diff(cm, co))
        spec = True
        sdetail = []
        it = iter(answers[1:])
        for i, (c, o) in enumerate(zip(calls, obs["calls"])):
            if o["raised"]:
                spec = False
                sdetail.append(f"call {i} ({c['m']}) raised {o['raised']['text']}")
                continue
            if c.get("abort"):
                if not o.get("aborted"):
                    # the scripted failure was never reached: the call performed fewer operator calls than scripted
                    sdetail.append(f"call {i} ({c['m']}) was scripted to be interrupted but ran to its end")
                continue
            if c["m"] == "other" and o["other"]["raised"]:
                spec = False
                sdetail.append(f"call {i} (evolve of a second programme object) raised {o['other']['raised']['text']}")
                continue
            if c["m"] == "query" and o.get("answer") != all(v is not None for v in o["V0given"]):
                spec = False
                sdetail.append(f"call {i} (query): is_initialized() answered {o.get('answer')}")
            if c["m"] in ("other", "set_op", "set_t", "set_tmax", "query"):
                # none of these may touch the stored initial state of THIS programme object
                if o["startVals_after"] != o["V0given"]:
                    spec = False
                    sdetail.append(f"call {i} ({c['m']}): the stored start containers no longer hold the initial state")
            if c["m"] not in ("evolve", "reset", "advance", "other"):
                continue
            a = next(it)
            what = "evolve of a second programme object" if c["m"] == "other" else c["m"]
            if "err" in a:
                # what was recorded from the real class is not a trace the protocol can carry: not a valid run
                spec = False
                sdetail.append(f"call {i} ({what}) Spec: recorded trace rejected by the oracle's decoder ({a['err'][:120]})")
                continue
            a = a["ok"]
            if not a["ok"]:
                spec = False
            sdetail.append(f"call {i} ({what}) Spec: {a['detail']}")
        detail = sdetail + ["correspondence: " + (d if (d := "; ".join(detail)) else "model trace = implementation trace")]
        sc = case["script"]
        c0 = calls[0]
        big = (c0["m"] == "evolve" and c0["nrep"] >= 2 and (c0["ngen"] or 0) >= 1) or \
            any(c["m"] != "evolve" for c in calls)
        nontriv = (big and any(a.get("deep") or a.get("late") or any(m is not None for m in a.get("muts", []))
                               for a in sc)
                   and any(r[0] in ("new", "empty") for a in sc[1:] for r in a.get("rets", [])))
        return {"corr": corr, "spec": spec, "nontrivial": nontriv, "detail": "; ".join(detail)}

    def signature(self, case, obs, verdict):
        return {"kind": case.get("kind"), "style": case.get("style"), "start_mode": case.get("start_mode")}

    # ------------------------------------------------------------------ shrinking
    def shrink(self, case):
        """drop a call / the last replicate / the last generation of a call (keeping the remaining
        scripted actions as they are), simplify the start containers, then neutralise single actions"""
        calls = _calls(case)
        shape = [(i, c.get("nrep"), c.get("ngen")) for i, c in enumerate(calls)] if _plain(case) else []
        if len(calls) > 1 and shape:
            yield self._reshape(case, shape[:-1])
            if calls[0]["m"] != "evolve" or all(s is not None for s in case["start"]):
                if calls[1]["m"] != "advance" or calls[0]["m"] == "reset":
                    pass
        for j, (i, nrep, ngen) in enumerate(shape):
            m = calls[i]["m"]
            if m == "evolve" and nrep > 0 and (nrep > 1 or j == len(shape) - 1 or calls[shape[j + 1][0]]["m"] != "advance"):
                yield self._reshape(case, shape[:j] + [(i, nrep - 1, ngen)] + shape[j + 1:])
            if m != "reset" and ngen:
                yield self._reshape(case, shape[:j] + [(i, nrep, ngen - 1)] + shape[j + 1:])
        if case.get("start_mode") != "given" and all(s is not None for s in case["start"]):
            c = copy.deepcopy(case)
            c.pop("graph", None)
            c.pop("depth", None)
            c["share"] = []
            c["cells"] = [[i + 1] for i in range(5)]
            c["start"] = [0, 1, 2, 3, 4]
            c["start_mode"] = "given"
            yield c
        for key in ("form", "verbose"):
            if any(key in x for x in calls):
                c = copy.deepcopy(case)
                c.pop("runs", None)
                c["calls"] = [{k: v for k, v in x.items() if k != key} for x in calls]
                yield c
        if case.get("subclass"):
            c = copy.deepcopy(case)
            c.pop("subclass")
            yield c
        for name in list(case.get("falsy") or {}):
            c = copy.deepcopy(case)
            c["falsy"].pop(name)
            yield c
        if any(r[0] == "empty" for a in case["script"] for r in a.get("rets", [])):
            c = copy.deepcopy(case)
            for a in c["script"]:
                a["rets"] = [["new", [7000 + i]] if r[0] == "empty" else r for i, r in enumerate(a.get("rets", []))]
            yield c
        for i, x in enumerate(calls):
            if x["m"] in ("set_op", "other", "query"):
                c = copy.deepcopy(case)
                c.pop("runs", None)
                c["calls"] = calls[:i] + calls[i + 1:]
                yield c
        for key in ("late", "deep"):
            if any(a.get(key) for a in case["script"]):
                c = copy.deepcopy(case)
                for a in c["script"]:
                    a.pop(key, None)
                yield c
        for i, a in enumerate(case["script"][:40]):
            if any(m is not None for m in a.get("muts", [])) or a.get("deep") or a.get("late"):
                c = copy.deepcopy(case)
                c["script"][i]["muts"] = [None] * len(a["muts"])
                c["script"][i].pop("deep", None)
                c["script"][i].pop("late", None)
                yield c

    @staticmethod
    def _chunks(case):
        """the script of a generated case, split as [init actions], then per call: for evolve a list of
        replicates (head actions, [generation actions]); for advance [generation actions]; for reset []"""
        sc = list(case["script"])
        pos = 0
        init = []
        if sc and sc[0]["k"] == "init":
            init = [sc[0]]
            pos = 1
        out = []
        for c in _calls(case):
            if c["m"] == "evolve":
                ngen = c["ngen"] if c["ngen"] is not None else case["tmax"]
                reps = []
                for _ in range(c["nrep"]):
                    nh = 2 if c["loginit"] else 1
                    head = sc[pos:pos + nh]
                    pos += nh
                    gens = []
                    for _ in range(ngen):
                        gens.append(sc[pos:pos + 8])
                        pos += 8
                    reps.append((head, gens))
                out.append(reps)
            elif c["m"] == "advance":
                gens = []
                for _ in range(c["ngen"]):
                    gens.append(sc[pos:pos + 8])
                    pos += 8
                out.append(gens)
            else:
                out.append([])
        return init, out

    def _reshape(self, case, shape):
        """shape = [(index of the call to keep, nrep, ngen)]"""
        init, chunks = self._chunks(case)
        calls = _calls(case)
        c = copy.deepcopy(case)
        c.pop("runs", None)
        c["calls"] = []
        script = list(init)
        for i, nrep, ngen in shape:
            old = calls[i]
            if old["m"] == "evolve":
                keep_none = old["ngen"] is None and ngen is None
                c["calls"].append(dict(old, nrep=nrep, ngen=ngen))
                n = case["tmax"] if keep_none else (ngen or 0)
                for head, gens in chunks[i][:nrep]:
                    script += head
                    for g in gens[:n]:
                        script += g
            elif old["m"] == "advance":
                c["calls"].append(dict(old, ngen=ngen))
                for g in chunks[i][:ngen]:
                    script += g
            else:
                c["calls"].append(dict(old))
        c["script"] = copy.deepcopy(script)
        return c

    # ------------------------------------------------------------------ self-test mutants
    def mutants(self):
        mod = _prog_module()
        cls = mod.RecurrentSelectionBreedingProgram
        src = open(SRC, encoding="utf-8", newline=None).read()

        def variant(edit):
            """class with methods recompiled from edited source text (in memory only)"""
            text = edit(src)
            assert text != src, "mutant edit did not apply"
            ns = {}
            exec(compile(text, "<mutant of RecurrentSelectionBreedingProgram>", "exec"), ns)
            return ns["RecurrentSelectionBreedingProgram"]

        @contextlib.contextmanager
        def patched(names, newcls):
            old = {n: cls.__dict__[n] for n in names}
            for n in names:
                setattr(cls, n, newcls.__dict__[n])
            try:
                yield
            finally:
                for n, f in old.items():
                    setattr(cls, n, f)

        def mk(names, edit):
            return lambda: patched(names, variant(edit))

        def reset_assign(s):
            for n in FIVE:
                s = s.replace(f"self.{n} = copy.deepcopy(self.start_{n})", f"self.{n} = self.start_{n}")
            return s

        def swap_psel_mate(s):
            a = s.index("            misc = {}\n            mcfg, self.genome")
            b = s.index("            misc = {}\n            self.genome, self.geno, self.pheno, self.bval, self.gmod = self._mateop.mate(")
            c = s.index("            ####################################################################\n"
                        "            ######################## evaluate genotypes")
            psel, mate = s[a:b], s[b:c]
            # `mcfg` must exist before the (now first) mating call
            return s[:a] + "            mcfg = {}\n" + mate + psel + s[c:]

        eval_call = ("            self.genome, self.geno, self.pheno, self.bval, self.gmod = self._evalop.evaluate(\n"
                     "                genome = self._genome,\n                geno = self._geno,\n"
                     "                pheno = self._pheno,\n                bval = self._bval,\n"
                     "                gmod = self._gmod,\n                t_cur = self._t_cur,\n"
                     "                t_max = self._t_max,\n                miscout = misc\n            )\n"
                     "            lbook.log_evaluate(")

        return [
            ("reset_assigns_start_containers", mk(["reset"], reset_assign)),
            ("reset_shallow_copy", mk(["reset"], lambda s: s.replace("copy.deepcopy(self.start_geno)", "copy.copy(self.start_geno)"))),
            ("reset_dict_copy_of_gmod", mk(["reset"], lambda s: s.replace("copy.deepcopy(self.start_gmod)", "dict(self.start_gmod)"))),
            ("reset_copies_wrong_container", mk(["reset"], lambda s: s.replace("copy.deepcopy(self.start_bval)", "copy.deepcopy(self.start_pheno)"))),
            ("reset_keeps_clock", mk(["reset"], lambda s: s.replace("        self.t_cur = 0                                  # reset time", "        pass"))),
            ("advance_t_cur_not_incremented", mk(["advance"], lambda s: s.replace("            self._t_cur += 1", "            pass"))),
            ("advance_t_cur_clamped_at_t_max", mk(["advance"], lambda s: s.replace(
                "            self._t_cur += 1", "            self._t_cur = min(self._t_cur + 1, self._t_max)"))),
            ("advance_mate_before_pselect", mk(["advance"], swap_psel_mate)),
            ("advance_evaluate_not_assigned_back", mk(["advance"], lambda s: s.replace(
                eval_call, eval_call.replace("self.genome, self.geno, self.pheno, self.bval, self.gmod = ", "_unused = ")))),
            ("advance_sselect_gets_stale_geno", mk(["advance"], lambda s: s.replace(
                "self._sselop.sselect(\n                genome = self._genome,\n                geno = self._geno,",
                "self._sselop.sselect(\n                genome = self._genome,\n                geno = self._genome,"))),
            ("advance_log_mate_dropped", mk(["advance"], lambda s: s.replace("            lbook.log_mate(", "            (lambda **k: None)("))),
            ("advance_one_generation_short", mk(["advance"], lambda s: s.replace("for _ in range(ngen):", "for _ in range(max(ngen - 1, 0)):"))),
            ("evolve_ngen_none_default_removed", mk(["evolve"], lambda s: s.replace(
                "        if ngen is None:\n            ngen = self._t_max\n", ""))),
            ("evolve_ngen_or_t_max", mk(["evolve"], lambda s: s.replace(
                "        # initialize if needed\n", "        ngen = ngen or self._t_max\n        # initialize if needed\n"))),
            ("evolve_no_reset", mk(["evolve"], lambda s: s.replace("            self.reset()\n", "            self.reset() if r == 0 else None\n"))),
            ("evolve_initial_evaluation_skipped", mk(["evolve"], lambda s: s.replace(
                "            self.genome, self.geno, self.pheno, self.bval, self.gmod = self._evalop.evaluate(\n                genome = self._genome,\n                geno = self._geno,\n                pheno = self._pheno,\n                bval = self._bval,\n                gmod = self._gmod,\n                t_cur = self._t_cur,\n                t_max = self._t_max,\n                miscout = misc\n            )\n            if loginit:",
                "            if loginit:"))),
            ("evolve_clock_starts_at_one", mk(["evolve"], lambda s: s.replace(
                "            self.reset()\n", "            self.reset()\n            self.t_cur += 1\n").replace(
                "            # increment t_cur from 0 to 1 (first generation)\n            self.t_cur += 1", "            pass"))),
            ("evolve_rep_counter_not_incremented", mk(["evolve"], lambda s: s.replace("            lbook.rep += 1", "            pass"))),
            ("evolve_log_initialize_dropped", mk(["evolve"], lambda s: s.replace("            if loginit:", "            if False:"))),
            ("evolve_evaluates_start_containers", mk(["evolve"], lambda s: s.replace(
                "            self.reset()\n", "            self.reset()\n            self._geno = self._start_geno\n"))),
            # ---- copies that stop above the deepest level (seen only with containers nested deeper)
            ("reset_two_level_copy_of_geno", mk(["reset"], lambda s: s.replace(
                "copy.deepcopy(self.start_geno)", "{k: copy.copy(v) for k, v in self.start_geno.items()}"))),
            ("reset_three_level_copy_of_pheno", mk(["reset"], lambda s: s.replace(
                "copy.deepcopy(self.start_pheno)",
                "{k: ([copy.copy(x) for x in v] if isinstance(v, list) else "
                "({a: copy.copy(b) for a, b in v.items()} if isinstance(v, dict) else copy.copy(v))) "
                "for k, v in self.start_pheno.items()}"))),
            ("reset_recursive_copy_shares_arrays", mk(["reset"], lambda s: s.replace(
                "copy.deepcopy(self.start_bval)",
                "(lambda f, x: f(f, x, 0))(lambda f, x, n: ({k: f(f, v, n + 1) for k, v in x.items()} "
                "if isinstance(x, dict) and n < 8 else ([f(f, v, n + 1) for v in x] if isinstance(x, list) and n < 8 "
                "else x)), self.start_bval)"))),
            # ---- state kept between calls
            ("reset_deepcopy_memo_kept_between_resets", mk(["reset"], lambda s: s.replace(
                "copy.deepcopy(self.start_gmod)",
                "copy.deepcopy(self.start_gmod, self.__dict__.setdefault('_memo', {}))"))),
            ("reset_copies_only_once", mk(["reset"], lambda s: s.replace(
                "        self.geno = copy.deepcopy(self.start_geno)",
                "        self.geno = self.__dict__.setdefault('_geno0', copy.deepcopy(self.start_geno))"))),
            # ---- caches that go stale when the user re-assigns an attribute / hands another logbook / a call fails
            ("reset_copies_a_snapshot_taken_at_first_reset", mk(["reset"], lambda s: s.replace(
                "copy.deepcopy(self.start_geno)",
                "copy.deepcopy(self.__dict__.setdefault('_geno_snapshot', copy.deepcopy(self.start_geno)))"))),
            ("evolve_initialisation_test_cached", mk(["evolve"], lambda s: s.replace(
                "        if not self.is_initialized():\n            self.initialize()\n",
                "        if not self.__dict__.get('_init_done') and not self.is_initialized():\n"
                "            self.initialize()\n        self._init_done = True\n"))),
            ("evolve_ngen_default_cached", mk(["evolve"], lambda s: s.replace(
                "            ngen = self._t_max\n", "            ngen = self.__dict__.setdefault('_ngen_default', self._t_max)\n"))),
            ("evolve_keeps_first_logbook", mk(["evolve"], lambda s: s.replace(
                "        # initialize if needed\n", "        lbook = self.__dict__.setdefault('_lbook', lbook)\n        # initialize if needed\n"))),
            ("evolve_not_reentrant_after_failure", mk(["evolve"], lambda s: s.replace(
                "        # initialize if needed\n",
                "        if self.__dict__.get('_running'):\n            return\n        self._running = True\n        # initialize if needed\n").replace(
                "                verbose = verbose,\n                **kwargs\n            )\n",
                "                verbose = verbose,\n                **kwargs\n            )\n        self._running = False\n"))),
            # ---- sizes
            ("advance_clock_wraps_at_128", mk(["advance"], lambda s: s.replace(
                "            self._t_cur += 1", "            self._t_cur = (self._t_cur + 1) % 128"))),
            ("evolve_rep_counter_wraps_at_256", mk(["evolve"], lambda s: s.replace(
                "            lbook.rep += 1", "            lbook.rep = (lbook.rep + 1) % 256"))),
            # ---- replicate counter
            ("evolve_rep_counter_set_from_loop_index", mk(["evolve"], lambda s: s.replace(
                "            lbook.rep += 1", "            lbook.rep = r + 1"))),
            ("evolve_rep_counter_incremented_twice", mk(["evolve"], lambda s: s.replace(
                "            lbook.rep += 1", "            lbook.rep += 1 if r == 0 else 2"))),
            # ---- rarely used call forms
            ("evolve_signature_ngen_before_nrep", mk(["evolve"], lambda s: s.replace(
                "def evolve(self, nrep, ngen, lbook,", "def evolve(self, ngen, nrep, lbook,"))),
            ("evolve_loginit_default_false", mk(["evolve"], lambda s: s.replace(
                "lbook, loginit = True, verbose = False", "lbook, loginit = False, verbose = False"))),
            ("evolve_numpy_ngen_replaced_by_t_max", mk(["evolve"], lambda s: s.replace(
                "        if ngen is None:\n", "        if not isinstance(ngen, int):\n"))),
            ("advance_signature_lbook_first", mk(["advance", "evolve"], lambda s: s.replace(
                "def advance(self, ngen, lbook,", "def advance(self, lbook, ngen,"))),
            ("evolve_rejects_extra_keywords", mk(["evolve"], lambda s: s.replace(
                "loginit = True, verbose = False, **kwargs: dict):", "loginit = True, verbose = False):").replace(
                "                verbose = verbose,\n                **kwargs\n", "                verbose = verbose\n"))),
            ("reset_only_for_exact_class", mk(["reset"], lambda s: s.replace(
                "        self.genome = copy.deepcopy(self.start_genome)",
                "        if type(self).__name__ != 'RecurrentSelectionBreedingProgram':\n"
                "            self.genome = self.start_genome; self.geno = self.start_geno; self.pheno = self.start_pheno\n"
                "            self.bval = self.start_bval; self.gmod = self.start_gmod; self.t_cur = 0\n"
                "            return\n"
                "        self.genome = copy.deepcopy(self.start_genome)"))),
            # ---- falsy but valid values (empty containers, empty mating configuration, falsy logbook / operators)
            ("is_initialized_tests_truth_value", mk(["is_initialized"], lambda s: s.replace(
                "        return (\n            (self._start_genome is not None) and\n            (self._start_geno is not None) and\n"
                "            (self._start_pheno is not None) and\n            (self._start_bval is not None) and\n"
                "            (self._start_gmod is not None)\n        )",
                "        return all((self._start_genome, self._start_geno, self._start_pheno, self._start_bval, self._start_gmod))"))),
            ("evolve_always_initializes", mk(["evolve"], lambda s: s.replace(
                "        if not self.is_initialized():\n            self.initialize()\n", "        self.initialize()\n"))),
            ("advance_skips_mating_for_empty_mcfg", mk(["advance"], lambda s: s.replace(
                "self.genome, self.geno, self.pheno, self.bval, self.gmod = self._mateop.mate(",
                "self.genome, self.geno, self.pheno, self.bval, self.gmod = "
                "(self._mateop.mate if mcfg else (lambda mcfg, genome, geno, pheno, bval, gmod, **k: (genome, geno, pheno, bval, gmod)))("))),
            ("working_setter_ignores_empty_container", mk(["pheno"], lambda s: s.replace(
                "        check_is_dict(value, \"pheno\")\n        self._pheno = value",
                "        check_is_dict(value, \"pheno\")\n        if value:\n            self._pheno = value"))),
            ("evolve_falsy_logbook_replaced_by_standin", mk(["evolve", "advance"], lambda s: s.replace(
                "        # initialize if needed\n",
                "        lbook = lbook or type('NoLog', (), {'rep': 0, '__getattr__': lambda self, n: (lambda *a, **k: None)})()\n"
                "        # initialize if needed\n"))),
            ("advance_skips_falsy_operator", mk(["advance"], lambda s: s.replace(
                "self.genome, self.geno, self.pheno, self.bval, self.gmod = self._sselop.sselect(",
                "self.genome, self.geno, self.pheno, self.bval, self.gmod = "
                "(self._sselop.sselect if self._sselop else (lambda genome, geno, pheno, bval, gmod, **k: (genome, geno, pheno, bval, gmod)))("))),
            ("is_initialized_answer_cached", mk(["is_initialized"], lambda s: s.replace(
                "        return (\n            (self._start_genome is not None) and",
                "        if '_isinit' in self.__dict__:\n            return self._isinit\n"
                "        self._isinit = (\n            (self._start_genome is not None) and").replace(
                "            (self._start_gmod is not None)\n        )",
                "            (self._start_gmod is not None)\n        )\n        return self._isinit"))),
            # ---- operators replaced by the user between calls
            ("advance_caches_operator_at_first_use", mk(["advance"], lambda s: s.replace(
                "= self._pselop.pselect(", "= self.__dict__.setdefault('_pselop_first', self._pselop).pselect("))),
            ("evolve_caches_evaluation_method", mk(["evolve"], lambda s: s.replace(
                "self.genome, self.geno, self.pheno, self.bval, self.gmod = self._evalop.evaluate(",
                "self.genome, self.geno, self.pheno, self.bval, self.gmod = self.__dict__.setdefault('_eval0', self._evalop.evaluate)("))),
            ("initialize_caches_initop", mk(["initialize"], lambda s: s.replace(
                "= self._initop.initialize(**kwargs)", "= self.__dict__.setdefault('_init0', self._initop).initialize(**kwargs)"))),
            # ---- two programme objects
            ("advance_works_on_the_programme_reset_last", mk(["reset", "advance"], lambda s: s.replace(
                "class RecurrentSelectionBreedingProgram(", "_LAST = {}\nclass RecurrentSelectionBreedingProgram(", 1).replace(
                "        self.t_cur = 0                                  # reset time",
                "        self.t_cur = 0\n        _LAST['prog'] = self").replace(
                "= self._pselop.pselect(\n                genome = self._genome,",
                "= self._pselop.pselect(\n                genome = _LAST.get('prog', self)._genome,"))),
            # ---- hand-written copies that know dicts, lists and arrays only (tuples, class instances shared)
            ("reset_recursive_copy_shares_objects_in_all_five", mk(["reset"], lambda s: (lambda cp: s.replace(
                "copy.deepcopy(self.start_genome)", cp("self.start_genome")).replace(
                "copy.deepcopy(self.start_geno)", cp("self.start_geno")).replace(
                "copy.deepcopy(self.start_pheno)", cp("self.start_pheno")).replace(
                "copy.deepcopy(self.start_bval)", cp("self.start_bval")).replace(
                "copy.deepcopy(self.start_gmod)", cp("self.start_gmod")))(
                lambda x: "(lambda f, x: f(f, x, 0))(lambda f, x, n: ({k: f(f, v, n + 1) for k, v in x.items()} "
                          "if isinstance(x, dict) and n < 8 else ([f(f, v, n + 1) for v in x] if isinstance(x, list) and n < 8 "
                          "else (tuple(f(f, v, n + 1) for v in x) if isinstance(x, tuple) and n < 8 "
                          "else (x.copy() if hasattr(x, 'copy') else x)))), " + x + ")"))),
            # ---- sizes and depths past internal constants of a hand-written copy
            ("reset_does_not_copy_large_arrays", mk(["reset"], lambda s: s.replace(
                "copy.deepcopy(self.start_geno)",
                "copy.deepcopy(self.start_geno, {id(v): v for v in self.start_geno.values() if getattr(v, 'size', 0) > 1024})"))),
            ("reset_copy_limited_to_depth_10", mk(["reset"], lambda s: (lambda cp: s.replace(
                "copy.deepcopy(self.start_genome)", cp("self.start_genome")).replace(
                "copy.deepcopy(self.start_geno)", cp("self.start_geno")).replace(
                "copy.deepcopy(self.start_pheno)", cp("self.start_pheno")).replace(
                "copy.deepcopy(self.start_bval)", cp("self.start_bval")).replace(
                "copy.deepcopy(self.start_gmod)", cp("self.start_gmod")))(
                lambda x: "(lambda f, x: f(f, x, 0))(lambda f, x, n: (copy.deepcopy(x) if not isinstance(x, (dict, list)) else "
                          "(x if n >= 10 else ({k: f(f, v, n + 1) for k, v in x.items()} if isinstance(x, dict) "
                          "else [f(f, v, n + 1) for v in x]))), " + x + ")"))),
            # ---- dtype / aliasing: copies that are deep for numeric arrays only (ndarray.copy / numpy.array of an
            # object-dtype array share its elements)
            ("reset_ndarray_copy_for_top_level_arrays_in_all_five", mk(["reset"], lambda s: (lambda cp: s.replace(
                "copy.deepcopy(self.start_genome)", cp("self.start_genome")).replace(
                "copy.deepcopy(self.start_geno)", cp("self.start_geno")).replace(
                "copy.deepcopy(self.start_pheno)", cp("self.start_pheno")).replace(
                "copy.deepcopy(self.start_bval)", cp("self.start_bval")).replace(
                "copy.deepcopy(self.start_gmod)", cp("self.start_gmod")))(
                lambda x: "{k: (v.copy() if type(v).__name__ == 'ndarray' else copy.deepcopy(v)) for k, v in "
                          + x + ".items()}"))),
            ("reset_numpy_array_copy_of_arrays_in_pheno_at_any_depth", mk(["reset"], lambda s: s.replace(
                "copy.deepcopy(self.start_pheno)",
                "copy.deepcopy(self.start_pheno, {id(a): __import__('numpy').array(a, copy=True) for a in "
                "(lambda f, x: f(f, x, 0))(lambda f, x, n: ([x] if type(x).__name__ == 'ndarray' and x.dtype == object "
                "else ([] if n > 6 else [y for v in (x.values() if isinstance(x, dict) else (x if isinstance(x, (list, tuple)) "
                "else (vars(x).values() if hasattr(x, '__dict__') else []))) for y in f(f, v, n + 1)])), self.start_pheno)})"))),
            ("reset_list_of_arrays_copied_array_by_array", mk(["reset"], lambda s: (lambda cp: s.replace(
                "copy.deepcopy(self.start_genome)", cp("self.start_genome")).replace(
                "copy.deepcopy(self.start_geno)", cp("self.start_geno")).replace(
                "copy.deepcopy(self.start_pheno)", cp("self.start_pheno")).replace(
                "copy.deepcopy(self.start_bval)", cp("self.start_bval")).replace(
                "copy.deepcopy(self.start_gmod)", cp("self.start_gmod")))(
                lambda x: "{k: ([a.copy() for a in v] if isinstance(v, list) and len(v) > 0 and "
                          "all(type(a).__name__ == 'ndarray' for a in v) else copy.deepcopy(v)) for k, v in "
                          + x + ".items()}"))),
            # ---- the clock between calls
            ("evolve_undoes_the_last_tick", mk(["evolve"], lambda s: s.replace(
                "                verbose = verbose,\n                **kwargs\n            )\n",
                "                verbose = verbose,\n                **kwargs\n            )\n"
                "            self._t_cur -= 1 if ngen > 0 else 0\n"))),
            ("advance_leaves_clock_one_behind", mk(["advance"], lambda s: s.replace(
                "        for _ in range(ngen):", "        t_entry = self._t_cur\n        for _ in range(ngen):").replace(
                "            self._t_cur += 1",
                "            self._t_cur += 1\n        if ngen > 1:\n            self._t_cur = t_entry + ngen - 1"))),
        ]


def _first_diff(a, b, path=""):
    if type(a) is not type(b):
        return f"{path}: model {a!r} != implementation {b!r}"
    if isinstance(a, dict):
        for k in a:
            if k not in b:
                return f"{path}.{k}: missing in implementation"
            if a[k] != b[k]:
                return _first_diff(a[k], b[k], f"{path}.{k}")
        return f"{path}: keys differ"
    if isinstance(a, list):
        if len(a) != len(b):
            return f"{path}: length model {len(a)} != implementation {len(b)}"
        for i, (x, y) in enumerate(zip(a, b)):
            if x != y:
                return _first_diff(x, y, f"{path}[{i}]")
    return f"{path}: model {a!r} != implementation {b!r}"


PROP = C20()
