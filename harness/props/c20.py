"""C20 — the breeding-programme loop applies operators in order on independent replicates.

* `pre_build()` parses reset/advance/evolve (and initialize/is_initialized) of
  RecurrentSelectionBreedingProgram with `ast` and regenerates
  lean/PybropsModel/Generated/C20Schedule.lean statement by statement, in source order, with the
  keyword arguments and local variable names as written (locals are numbered, nothing is
  normalised).  `WellFormed C20Schedule.evolve` — a dataflow analysis by symbolic execution, closed
  by `decide` in Props/C20.lean — is the obligation that breaks when the dataflow of the source
  changes.
* correspondence: the real class is driven through sequences of API calls (`evolve`, `reset`,
  `advance`) with scripted operator / logbook / initialisation stubs (in-place mutation, fresh
  returns, aliasing) that record every call; the Lean driver runs the regenerated schedule with the
  same script; the two traces must be equal.
* Spec: `Program.specTrace` / `specAdvance` / the reset clause (Lean) evaluated on what was
  recorded from the real class.
"""
import ast
import contextlib
import copy
import io
import json
import os

from .. import bridge, compat
from ..core import Prop

compat.install()

SRC = os.path.join(compat.REPO, "pybrops", "breed", "arch", "RecurrentSelectionBreedingProgram.py")
GEN = os.path.join(bridge.LEAN, "PybropsModel", "Generated", "C20Schedule.lean")

FIVE = ["genome", "geno", "pheno", "bval", "gmod"]
OPS = {("pselop", "pselect"): "pselect", ("mateop", "mate"): "mate",
       ("evalop", "evaluate"): "evaluate", ("sselop", "sselect"): "sselect"}
LOGS = {"log_initialize": "initialize", "log_pselect": "pselect", "log_mate": "mate",
        "log_evaluate": "evaluate", "log_sselect": "sselect"}
KWS = FIVE + ["mcfg"]


# ====================================================================== translator (ast -> Lean)
class Untranslatable(Exception):
    pass


def _self_attr(node):
    """`self.X` / `self._X` -> "X", else None"""
    if isinstance(node, ast.Attribute) and isinstance(node.value, ast.Name) and node.value.id == "self":
        return node.attr[1:] if node.attr.startswith("_") else node.attr
    return None


class Scope:
    """local variables of one method, numbered in order of first appearance from `base`"""
    RESERVED = {"self", "lbook", "ngen", "nrep", "verbose", "loginit", "kwargs", "copy", "r", "_"}

    def __init__(self, base):
        self.base = base
        self.names = {}

    def reg(self, node, what):
        a = _self_attr(node)
        if a in FIVE:
            return "." + a
        if isinstance(node, ast.Name) and node.id not in self.RESERVED:
            if node.id not in self.names:
                self.names[node.id] = self.base + len(self.names)
            return f"(.loc {self.names[node.id]})"
        raise Untranslatable(f"{what}: not a container variable: {ast.unparse(node)}")

    def is_var(self, node):
        return _self_attr(node) in FIVE or (isinstance(node, ast.Name) and node.id not in self.RESERVED)


def _kwargs(call, misc_kw, what, sc):
    """keyword arguments of an operator / logbook call, in source order -> Lean list of (Kw × Reg)"""
    if call.args:
        raise Untranslatable(f"{what}: positional arguments")
    out = []
    seen = set()
    for k in call.keywords:
        if k.arg is None:                    # **m
            if misc_kw != "**":
                raise Untranslatable(f"{what}: unexpected ** argument")
            name, val = "misc", k.value
        elif k.arg in ("t_cur", "t_max"):
            if _self_attr(k.value) != k.arg:
                raise Untranslatable(f"{what}: {k.arg} must be self._{k.arg}")
            seen.add(k.arg)
            continue
        elif k.arg == "miscout":
            if misc_kw != "miscout":
                raise Untranslatable(f"{what}: unexpected keyword miscout")
            name, val = "misc", k.value
        elif k.arg in KWS:
            name, val = k.arg, k.value
        else:
            raise Untranslatable(f"{what}: unexpected keyword {k.arg}")
        if name in seen:
            raise Untranslatable(f"{what}: keyword {name} given twice")
        seen.add(name)
        out.append(f"(.{name}, {sc.reg(val, what)})")
    for name in ("t_cur", "t_max"):
        if name not in seen:
            raise Untranslatable(f"{what}: keyword {name} missing")
    return "[" + ", ".join(out) + "]"


def _is_call(node, owner_pred, method=None):
    return (isinstance(node, ast.Call) and isinstance(node.func, ast.Attribute)
            and owner_pred(node.func.value) and (method is None or node.func.attr == method))


def _is_self(n):
    return isinstance(n, ast.Name) and n.id == "self"


def _is_lbook(n):
    return isinstance(n, ast.Name) and n.id == "lbook"


def _start_slot(node):
    a = _self_attr(node)
    if a and a.startswith("start_") and a[6:] in FIVE:
        return FIVE.index(a[6:])
    return None


def _stmt(node, sc, guarded=False):
    """one Python statement -> list of Lean `Stmt` terms"""
    u = ast.unparse(node)
    # docstrings
    if isinstance(node, ast.Expr) and isinstance(node.value, ast.Constant) and isinstance(node.value.value, str):
        return []
    if isinstance(node, ast.Pass):
        return [".skip"]
    # if verbose: print(...)
    if isinstance(node, ast.If) and isinstance(node.test, ast.Name) and node.test.id == "verbose" and not node.orelse:
        for b in node.body:
            if not (isinstance(b, ast.Expr) and isinstance(b.value, ast.Call)
                    and isinstance(b.value.func, ast.Name) and b.value.func.id == "print"):
                raise Untranslatable("statement under `if verbose:` is not a print: " + ast.unparse(b))
        return [".skip"]
    # if loginit: lbook.log_initialize(...)
    if isinstance(node, ast.If) and isinstance(node.test, ast.Name) and node.test.id == "loginit" and not node.orelse:
        out = []
        for b in node.body:
            r = _stmt(b, sc, guarded=True)
            for s in r:
                if not s.startswith(".log "):
                    raise Untranslatable("only logbook calls may stand under `if loginit:`: " + ast.unparse(b))
            out += r
        return out
    # if ngen is None: ngen = self._t_max
    if isinstance(node, ast.If) and not node.orelse and isinstance(node.test, ast.Compare) \
            and isinstance(node.test.left, ast.Name) and node.test.left.id == "ngen" \
            and len(node.test.ops) == 1 and isinstance(node.test.ops[0], ast.Is) \
            and isinstance(node.test.comparators[0], ast.Constant) and node.test.comparators[0].value is None \
            and len(node.body) == 1 and isinstance(node.body[0], ast.Assign) \
            and len(node.body[0].targets) == 1 and isinstance(node.body[0].targets[0], ast.Name) \
            and node.body[0].targets[0].id == "ngen" and _self_attr(node.body[0].value) == "t_max":
        return [".ngenDefault"]
    # if not self.is_initialized(): self.initialize()
    if isinstance(node, ast.If) and not node.orelse and isinstance(node.test, ast.UnaryOp) \
            and isinstance(node.test.op, ast.Not) and _is_call(node.test.operand, _is_self, "is_initialized") \
            and not node.test.operand.args and not node.test.operand.keywords \
            and len(node.body) == 1 and isinstance(node.body[0], ast.Expr) \
            and _is_call(node.body[0].value, _is_self, "initialize") \
            and not node.body[0].value.args and not node.body[0].value.keywords:
        return [".initIfNeeded"]
    if isinstance(node, ast.Assign) and len(node.targets) == 1 and not isinstance(node.targets[0], ast.Tuple):
        tgt, v = node.targets[0], node.value
        # self.t_cur = 0
        if _self_attr(tgt) == "t_cur":
            if isinstance(v, ast.Constant) and v.value == 0 and type(v.value) is int:
                return [".setT0"]
            raise Untranslatable("assignment to the clock not understood: " + u)
        if sc.is_var(tgt):
            # x = {}
            if isinstance(v, ast.Dict) and not v.keys:
                return [f".newDict {sc.reg(tgt, u)}"]
            # x = copy.deepcopy(self.start_Y)
            if isinstance(v, ast.Call) and isinstance(v.func, ast.Attribute) \
                    and isinstance(v.func.value, ast.Name) and v.func.value.id == "copy" \
                    and v.func.attr == "deepcopy" and len(v.args) == 1 and not v.keywords \
                    and _start_slot(v.args[0]) is not None:
                return [f".copyStart {sc.reg(tgt, u)} {_start_slot(v.args[0])}"]
            # x = dict(self.start_Y) / copy.copy(self.start_Y): a shallow copy
            if isinstance(v, ast.Call) and len(v.args) == 1 and not v.keywords and _start_slot(v.args[0]) is not None \
                    and ((isinstance(v.func, ast.Name) and v.func.id == "dict")
                         or (isinstance(v.func, ast.Attribute) and isinstance(v.func.value, ast.Name)
                             and v.func.value.id == "copy" and v.func.attr == "copy")):
                return [f".shallowCopyStart {sc.reg(tgt, u)} {_start_slot(v.args[0])}"]
            # x = self.start_Y
            if _start_slot(v) is not None:
                return [f".aliasStart {sc.reg(tgt, u)} {_start_slot(v)}"]
            # x = y
            if sc.is_var(v):
                return [f".move {sc.reg(tgt, u)} {sc.reg(v, u)}"]
        raise Untranslatable("assignment not understood: " + u)
    # self.t_cur += 1 / lbook.rep += 1
    if isinstance(node, ast.AugAssign) and isinstance(node.op, ast.Add) \
            and isinstance(node.value, ast.Constant) and node.value.value == 1 and type(node.value.value) is int:
        if _self_attr(node.target) == "t_cur":
            return [".tick"]
        if isinstance(node.target, ast.Attribute) and _is_lbook(node.target.value) and node.target.attr == "rep":
            return [".incRep"]
        raise Untranslatable("augmented assignment not understood: " + u)
    # a, self.genome, ... = self._pselop.pselect(...)
    if isinstance(node, ast.Assign) and len(node.targets) == 1 and isinstance(node.targets[0], ast.Tuple) \
            and isinstance(node.value, ast.Call) and isinstance(node.value.func, ast.Attribute):
        f = node.value.func
        key = (_self_attr(f.value), f.attr)
        if key not in OPS:
            raise Untranslatable("call of an unknown operator: " + u[:120])
        args = _kwargs(node.value, "miscout", OPS[key], sc)
        rets = "[" + ", ".join(sc.reg(t, "assignment target") for t in node.targets[0].elts) + "]"
        return [f".call .{OPS[key]} {args} {rets}"]
    if isinstance(node, ast.Expr) and isinstance(node.value, ast.Call):
        c = node.value
        # lbook.log_X(...)
        if _is_call(c, _is_lbook) and c.func.attr in LOGS:
            args = _kwargs(c, "**", c.func.attr, sc)
            return [f".log .{LOGS[c.func.attr]} {'true' if guarded else 'false'} {args}"]
        # self.reset()
        if _is_call(c, _is_self, "reset") and not c.args and not c.keywords:
            return [".callReset"]
        # self.advance(ngen = ngen, lbook = lbook, verbose = verbose, **kwargs)
        if _is_call(c, _is_self, "advance") and not c.args:
            kw = {k.arg: k.value for k in c.keywords}
            ok = all(isinstance(kw.get(n), ast.Name) and kw[n].id == n for n in ("ngen", "lbook"))
            extra = set(kw) - {"ngen", "lbook", "verbose", None}
            if ok and not extra:
                return [".callAdvance"]
        raise Untranslatable("call not understood: " + u[:120])
    raise Untranslatable("statement not understood: " + u[:120])


def _method(cls, name):
    for n in cls.body:
        if isinstance(n, ast.FunctionDef) and n.name == name:
            return n
    raise Untranslatable(f"method {name} not found")


def _split_loop(fn, count_name, sc):
    """body of a method with exactly one top-level `for _ in range(<count_name>)` loop
    -> (pre, loop body, post) as lists of Lean statements"""
    pre, body, post = [], None, []
    for node in fn.body:
        if isinstance(node, ast.For):
            if body is not None:
                raise Untranslatable(f"{fn.name}: two loops")
            it = node.iter
            if not (isinstance(it, ast.Call) and isinstance(it.func, ast.Name) and it.func.id == "range"
                    and len(it.args) == 1 and isinstance(it.args[0], ast.Name) and it.args[0].id == count_name
                    and not node.orelse and isinstance(node.target, ast.Name)):
                raise Untranslatable(f"{fn.name}: loop header not understood: " + ast.unparse(node)[:80])
            body = []
            for b in node.body:
                body += _stmt(b, sc)
        elif body is None:
            pre += _stmt(node, sc)
        else:
            post += _stmt(node, sc)
    if body is None:
        raise Untranslatable(f"{fn.name}: no loop over range({count_name})")
    return pre, body, post


def _norm(node):
    return ast.dump(node, annotate_fields=False, include_attributes=False)


def translate(src_text):
    """-> (dict of the seven statement lists (Lean terms), {method: {local name: number}}).
    Raises Untranslatable."""
    tree = ast.parse(src_text)
    cls = None
    for n in tree.body:
        if isinstance(n, ast.ClassDef) and n.name == "RecurrentSelectionBreedingProgram":
            cls = n
    if cls is None:
        raise Untranslatable("class RecurrentSelectionBreedingProgram not found")
    s_reset, s_adv, s_evo = Scope(200), Scope(100), Scope(0)
    reset = []
    for node in _method(cls, "reset").body:
        reset += _stmt(node, s_reset)
    apre, agen, apost = _split_loop(_method(cls, "advance"), "ngen", s_adv)
    epre, erep, epost = _split_loop(_method(cls, "evolve"), "nrep", s_evo)
    # the two helpers the schedule relies on must be what the model assumes
    init = [n for n in _method(cls, "initialize").body
            if not (isinstance(n, ast.Expr) and isinstance(n.value, ast.Constant))]
    want_init = ast.parse("self.start_genome, self.start_geno, self.start_pheno, self.start_bval, self.start_gmod"
                          " = self._initop.initialize(**kwargs)").body
    if [_norm(n) for n in init] != [_norm(n) for n in want_init]:
        raise Untranslatable("initialize(): body is not the assignment of the five start containers")
    isin = [n for n in _method(cls, "is_initialized").body
            if not (isinstance(n, ast.Expr) and isinstance(n.value, ast.Constant))]
    want_isin = ast.parse("return (self._start_genome is not None and self._start_geno is not None and "
                          "self._start_pheno is not None and self._start_bval is not None and "
                          "self._start_gmod is not None)").body
    if [_norm(n) for n in isin] != [_norm(n) for n in want_isin]:
        raise Untranslatable("is_initialized(): body is not the conjunction of five `is not None` tests")
    sched = {"evolvePre": epre, "evolveRep": erep, "evolvePost": epost, "reset": reset,
             "advancePre": apre, "advanceGen": agen, "advancePost": apost}
    return sched, {"evolve": s_evo.names, "advance": s_adv.names, "reset": s_reset.names}


def render(sched, note, names=None):
    lines = ["/-", "REGENERATED on every run by harness/props/c20.py (pre_build) from",
             "pybrops/breed/arch/RecurrentSelectionBreedingProgram.py — do not edit.", note]
    for m, d in (names or {}).items():
        if d:
            lines.append(f"locals of {m}: " + ", ".join(f"{k} = loc {v}" for k, v in d.items()))
    lines += ["-/", "import PybropsModel.Model.Program", "", "namespace C20Schedule", "open Program", "",
              "def evolve : Schedule where"]
    for k in ("evolvePre", "evolveRep", "evolvePost", "reset", "advancePre", "advanceGen", "advancePost"):
        items = sched[k]
        if not items:
            lines.append(f"  {k} := []")
        else:
            lines.append(f"  {k} := [")
            lines.append(",\n".join("    " + s for s in items))
            lines.append("  ]")
    lines += ["", "end C20Schedule", ""]
    return "\n".join(lines)


EMPTY = {k: [] for k in ("evolvePre", "evolveRep", "evolvePost", "reset", "advancePre", "advanceGen", "advancePost")}


def regenerate():
    """-> (ok, message)"""
    try:
        text = open(SRC, encoding="utf-8", newline=None).read()
        sched, names = translate(text)
        body = render(sched, "translation: ok", names)
        ok, msg = True, ""
    except (Untranslatable, SyntaxError, OSError) as e:
        msg = f"{type(e).__name__}: {e}"
        body = render(EMPTY, "translation FAILED (" + msg.replace("-/", "- /")[:300] + "): empty schedule, not well formed")
        ok = False
    os.makedirs(os.path.dirname(GEN), exist_ok=True)
    old = open(GEN).read() if os.path.exists(GEN) else None
    if old != body:
        with bridge.Lock():
            with open(GEN, "w") as f:
                f.write(body)
    return ok, msg


# ====================================================================== instrumented stubs
class Recorder:
    """identity registry (keeps every object alive so ids are never reused) and the trace"""

    def __init__(self):
        self.objs = []
        self.trace = []
        self.prog = None
        self.script = []
        self.used = set()

    def oid(self, o):
        for i, x in enumerate(self.objs):
            if x is o:
                return i + 1
        self.objs.append(o)
        return len(self.objs)

    @staticmethod
    def val(o):
        if o is None:
            return None
        if not isinstance(o, dict):
            return [-999]
        return [int(x) for x in o.get("h", [])]

    def start_vals(self):
        p = self.prog
        return [self.val(getattr(p, "_start_" + n, None)) for n in FIVE]

    def start_ids(self):
        p = self.prog
        out = []
        for n in FIVE:
            o = getattr(p, "_start_" + n, None)
            out.append(None if o is None else self.oid(o))
        return out

    def next_action(self, kind):
        """the first not yet consumed action written for calls of this kind"""
        for i, a in enumerate(self.script):
            if i not in self.used and a["k"] == kind:
                self.used.add(i)
                return a
        return None

    @staticmethod
    def mutate(objs, muts):
        for o, m in zip(objs, muts):
            if m is not None and isinstance(o, dict):
                o.setdefault("h", []).append(m)

    @staticmethod
    def select(objs, rets):
        out = []
        for tag, x in rets:
            if tag == "arg":
                out.append(objs[x] if x < len(objs) else objs[0])
            else:
                out.append({"h": list(x)})
        return out


DEFAULT_RETS = {
    "pselect": [["new", []]] + [["arg", i] for i in range(5)],
    "mate": [["arg", i] for i in range(1, 6)],
    "evaluate": [["arg", i] for i in range(5)],
    "sselect": [["arg", i] for i in range(5)],
}


def _stub_classes():
    compat.import_pybrops()
    from pybrops.breed.op.init.InitializationOperator import InitializationOperator
    from pybrops.breed.op.psel.ParentSelectionOperator import ParentSelectionOperator
    from pybrops.breed.op.mate.MatingOperator import MatingOperator
    from pybrops.breed.op.eval.EvaluationOperator import EvaluationOperator
    from pybrops.breed.op.ssel.SurvivorSelectionOperator import SurvivorSelectionOperator
    from pybrops.breed.op.log.Logbook import Logbook

    def op_call(rec, kind, objs, t_cur, t_max):
        ev = {"kind": "op:" + kind, "t": int(t_cur), "tmax": int(t_max), "rep": int(rec.lbook.rep),
              "args": [rec.oid(o) for o in objs], "argVals": [rec.val(o) for o in objs],
              "startVals": rec.start_vals()}
        a = rec.next_action("op:" + kind)
        if a is None:
            rets = rec.select(objs, DEFAULT_RETS[kind])
        else:
            rec.mutate(objs, a.get("muts", []))
            rets = rec.select(objs, a.get("rets", []))
        ev["rets"] = [rec.oid(o) for o in rets]
        ev["retVals"] = [rec.val(o) for o in rets]
        rec.trace.append(ev)
        return tuple(rets)

    class Init(InitializationOperator):
        def __init__(self, rec):
            self.rec = rec

        def initialize(self, **kwargs):
            rec = self.rec
            ev = {"kind": "init", "t": int(rec.prog.t_cur), "tmax": int(rec.prog.t_max), "rep": int(rec.lbook.rep),
                  "args": [], "argVals": [], "startVals": rec.start_vals()}
            a = rec.next_action("init")
            rets = rec.select([], a["rets"] if a is not None else [["new", []]] * 5)
            ev["rets"] = [rec.oid(o) for o in rets]
            ev["retVals"] = [rec.val(o) for o in rets]
            rec.trace.append(ev)
            return tuple(rets)

    class PSel(ParentSelectionOperator):
        def __init__(self, rec):
            self.rec = rec

        def pselect(self, genome, geno, pheno, bval, gmod, t_cur, t_max, miscout=None, **kwargs):
            return op_call(self.rec, "pselect", [genome, geno, pheno, bval, gmod, miscout], t_cur, t_max)

    class Mate(MatingOperator):
        def __init__(self, rec):
            self.rec = rec

        def mate(self, mcfg, genome, geno, pheno, bval, gmod, t_cur, t_max, miscout=None, **kwargs):
            return op_call(self.rec, "mate", [mcfg, genome, geno, pheno, bval, gmod, miscout], t_cur, t_max)

    class Eval(EvaluationOperator):
        def __init__(self, rec):
            self.rec = rec

        def evaluate(self, genome, geno, pheno, bval, gmod, t_cur, t_max, miscout=None, **kwargs):
            return op_call(self.rec, "evaluate", [genome, geno, pheno, bval, gmod, miscout], t_cur, t_max)

    class SSel(SurvivorSelectionOperator):
        def __init__(self, rec):
            self.rec = rec

        def sselect(self, genome, geno, pheno, bval, gmod, t_cur, t_max, miscout=None, **kwargs):
            return op_call(self.rec, "sselect", [genome, geno, pheno, bval, gmod, miscout], t_cur, t_max)

    class Book(Logbook):
        def __init__(self, rec, rep0):
            self.rec = rec
            self._rep = rep0
            self._data = {}

        @property
        def data(self):
            return self._data

        @data.setter
        def data(self, value):
            self._data = value

        @property
        def rep(self):
            return self._rep

        @rep.setter
        def rep(self, value):
            self._rep = value

        def _log(self, kind, objs, t_cur, t_max, misc):
            rec = self.rec
            ev = {"kind": "log:" + kind, "t": int(t_cur), "tmax": int(t_max), "rep": int(self._rep),
                  "args": [rec.oid(o) for o in objs] + [0],
                  "argVals": [rec.val(o) for o in objs] + [[int(x) for x in misc.get("h", [])]],
                  "startVals": rec.start_vals(), "rets": [], "retVals": []}
            a = rec.next_action("log:" + kind)
            if a is not None:
                rec.mutate(objs, a.get("muts", []))
            rec.trace.append(ev)

        def log_initialize(self, genome, geno, pheno, bval, gmod, t_cur, t_max, **kwargs):
            self._log("initialize", [genome, geno, pheno, bval, gmod], t_cur, t_max, kwargs)

        def log_pselect(self, mcfg, genome, geno, pheno, bval, gmod, t_cur, t_max, **kwargs):
            self._log("pselect", [mcfg, genome, geno, pheno, bval, gmod], t_cur, t_max, kwargs)

        def log_mate(self, mcfg, genome, geno, pheno, bval, gmod, t_cur, t_max, **kwargs):
            self._log("mate", [mcfg, genome, geno, pheno, bval, gmod], t_cur, t_max, kwargs)

        def log_evaluate(self, genome, geno, pheno, bval, gmod, t_cur, t_max, **kwargs):
            self._log("evaluate", [genome, geno, pheno, bval, gmod], t_cur, t_max, kwargs)

        def log_sselect(self, genome, geno, pheno, bval, gmod, t_cur, t_max, **kwargs):
            self._log("sselect", [genome, geno, pheno, bval, gmod], t_cur, t_max, kwargs)

        def reset(self):
            self._data = {}
            self._rep = 0

        def write(self, filename):
            pass

    return Init, PSel, Mate, Eval, SSel, Book


_STUBS = None


def stubs():
    global _STUBS
    if _STUBS is None:
        _STUBS = _stub_classes()
    return _STUBS


def _prog_module():
    compat.import_pybrops()
    import pybrops.breed.arch.RecurrentSelectionBreedingProgram as m
    return m


# ====================================================================== canonical renumbering
class Renumber:
    """identities -> 1, 2, … by first appearance across the whole case; 0 (after the shift) is kept.
    `shift` = 1 for the model, whose heap addresses start at 0."""

    def __init__(self, shift):
        self.m = {0: 0}
        self.shift = shift

    def __call__(self, i):
        if i is None:
            return None
        i += self.shift
        if i not in self.m:
            self.m[i] = len(self.m)
        return self.m[i]

    def call(self, c):
        """canonical form of one call record (model or implementation)"""
        f = self
        out = {"start_before": [f(i) for i in c["start_before"]]}
        tr = []
        for e in c["trace"]:
            e = dict(e)
            args = list(e["args"])
            if e["kind"].startswith("log:") and args:
                args[-1] = -self.shift           # the identity of `**misc` is not observable
            e["args"] = [f(i) for i in args]
            e["rets"] = [f(i) for i in e["rets"]]
            tr.append(e)
        out["trace"] = tr
        out["work"] = [f(i) for i in c["work"]]
        out["workVals"] = c["workVals"]
        out["start_after"] = [f(i) for i in c["start_after"]]
        out["startVals_after"] = c["startVals_after"]
        out["rep"] = c["rep"]
        out["t"] = c["t"]
        return out


N_ARGS = {"pselect": 6, "mate": 7, "evaluate": 6, "sselect": 6}
N_RETS = {"pselect": 6, "mate": 5, "evaluate": 5, "sselect": 5}
N_LOG = {"initialize": 5, "pselect": 6, "mate": 6, "evaluate": 5, "sselect": 5}


def _calls(case):
    """the API calls of a case (older replay files have `runs` = evolve calls only)"""
    if "calls" in case:
        return case["calls"]
    return [dict(r, m="evolve") for r in case["runs"]]


class C20(Prop):
    PID = "C20"
    MODULE = "PybropsModel.Props.C20"
    N_QUICK = 240
    N_THOROUGH = 6000
    RULE = ("RecurrentSelectionBreedingProgram driven through sequences of API calls — evolve(nrep 0-4, ngen 0-5 or "
            "None, loginit on/off), reset(), advance(ngen) incl. advance after an evolve and reset between advances — "
            "with scripted operator / logbook / initialisation stubs: start containers given (possibly the same dict "
            "for two slots), partly missing or produced by the initialisation operator; every operator call mutates "
            "handed containers in place with a unique token and returns per slot either the handed object, another "
            "handed object (alias) or a fresh container with unique content; logbook calls may mutate too.  "
            "Non-trivial = first call is evolve with nrep >= 2, ngen >= 1 (or the case has a direct reset/advance "
            "call), at least one in-place mutation and at least one fresh return")
    TRUSTED = ["copy.deepcopy is modelled on an object-graph heap (cells holding references): every cell that "
               "existed at initialisation is copied and its internal references redirected, so the copy of a start "
               "container is an isomorphic disjoint graph (theorems view_copy / Good.extend); that Python's "
               "memoised traversal computes the same graph up to unreachable garbage is trusted",
               "the ast -> Lean translator of harness/props/c20.py (one Lean statement per Python statement, "
               "nothing normalised); checked on every run by comparing the trace of the regenerated schedule "
               "with the real class",
               "Python attribute/property mechanics of the class (setters check_is_dict / check_is_int) and "
               "keyword-argument binding"]
    ASSUMPTIONS = ["operators, logbook and initialisation operator are reached only through the references "
                   "they are handed (they hold no reference to the stored start containers)",
                   "operators return dicts and tuples of the documented arity; nrep, ngen are non-negative ints "
                   "(ngen may be None for evolve, documented as 'use t_max')",
                   "reset()/advance() are called directly only on an initialised programme, advance() only when "
                   "working containers exist"]

    # ------------------------------------------------------------------ obligations
    def pre_build(self):
        return regenerate()

    # ------------------------------------------------------------------ generation
    def _script(self, rng, calls, needs_init, tok, style, tmax):
        """actions in call order"""
        def fresh():
            tok[0] += 1
            return tok[0]

        def op_action(kind, first_eval=False):
            na, nr = N_ARGS[kind], N_RETS[kind]
            off = 1 if kind == "mate" else 0          # position of genome among the arguments
            pm = {"pure": 0.0, "inplace": 0.9, "fresh": 0.2, "mixed": 0.5}[style]
            muts = [fresh() if rng.random() < pm else None for _ in range(na)]
            if first_eval and style != "pure":
                for i in range(5):
                    muts[off + i] = fresh()           # mutate all five working copies of the reset state
            rets = []
            for i in range(nr):
                slot = i - (1 if kind == "pselect" else 0)     # container slot of this return value (-1 = mcfg)
                r = rng.random()
                pf = {"pure": 0.5, "inplace": 0.1, "fresh": 0.9, "mixed": 0.45}[style]
                if slot < 0:
                    rets.append(["new", [fresh()]] if r < 0.8 else ["arg", rng.randrange(na)])
                elif r < pf:
                    rets.append(["new", [fresh(), fresh()][:rng.randint(1, 2)]])
                elif r < pf + 0.12:
                    rets.append(["arg", rng.randrange(na)])   # alias of some handed object
                else:
                    rets.append(["arg", off + slot])
            return {"k": "op:" + kind, "muts": muts, "rets": rets}

        def log_action(kind):
            n = N_LOG[kind]
            pm = 0.15 if style in ("mixed", "inplace") else 0.0
            return {"k": "log:" + kind, "muts": [fresh() if rng.random() < pm else None for _ in range(n)]}

        def gens(n):
            out = []
            for _ in range(n):
                for kind in ("pselect", "mate", "evaluate", "sselect"):
                    out.append(op_action(kind))
                    out.append(log_action(kind))
            return out

        script = []
        first = True
        for c in calls:
            if c["m"] == "evolve":
                if first and needs_init:
                    rets = [["new", [fresh()]] for _ in range(5)]
                    if rng.random() < 0.3:        # equal contents in two slots
                        rets[rng.randrange(1, 5)] = ["new", list(rets[0][1])]
                    script.append({"k": "init", "rets": rets})
                ngen = c["ngen"] if c["ngen"] is not None else tmax
                for _ in range(c["nrep"]):
                    script.append(op_action("evaluate", first_eval=True))
                    if c["loginit"]:
                        script.append(log_action("initialize"))
                    script += gens(ngen)
            elif c["m"] == "advance":
                script += gens(c["ngen"])
            first = False
        return script

    def _case(self, rng, calls, style="mixed", start_mode="given", tmax=None, tag="evolve"):
        tok = [100]
        share = []
        if start_mode == "given":
            cells = [[10 * (i + 1), 10 * (i + 1) + 1][:rng.randint(0, 2)] + [i + 1] for i in range(5)]
            start = [0, 1, 2, 3, 4]
        elif start_mode == "shared":      # the same dict object stored in two start slots
            cells = [[i + 1, 7] for i in range(4)]
            start = [0, 1, 1, 2, 3]
            rng.shuffle(start)
        elif start_mode == "shared-inner":   # two start dicts hold the very same inner list object
            cells = [[i + 1, 7] for i in range(5)]
            start = [0, 1, 2, 3, 4]
            i, j = rng.sample(range(5), 2)
            share = [[i, j]]
        elif start_mode == "partial":     # one container missing -> initialisation operator replaces all five
            cells = [[i + 1] for i in range(5)]
            start = [0, 1, 2, 3, 4]
            start[rng.randrange(5)] = None
        else:                              # "init": nothing given
            cells = []
            start = [None] * 5
        if tmax is None:
            tmax = rng.choice([0, 3, 7, 20])
        needs_init = any(s is None for s in start)
        script = self._script(rng, calls, needs_init, tok, style, tmax)
        return {"kind": f"{tag}:{start_mode}:{style}",
                "tmax": tmax, "rep0": rng.choice([0, 0, 1, 5, -2]),
                "cells": cells, "share": share, "start": start, "calls": calls, "script": script, "style": style,
                "start_mode": start_mode}

    @staticmethod
    def _ev(nrep, ngen, loginit=True, verbose=False):
        c = {"m": "evolve", "nrep": nrep, "ngen": ngen, "loginit": loginit}
        if verbose:
            c["verbose"] = True
        return c

    def corpus(self):
        import random
        rng = random.Random(20)
        ev = self._ev
        out = [
            self._case(rng, [ev(0, 0)]), self._case(rng, [ev(1, 0)]), self._case(rng, [ev(0, 3)]),
            self._case(rng, [ev(1, 1)]),
            self._case(rng, [ev(2, 2)], style="inplace"), self._case(rng, [ev(3, 2)], style="fresh"),
            self._case(rng, [ev(2, 1, loginit=False)]), self._case(rng, [ev(2, 2)], style="pure"),
            self._case(rng, [ev(2, 1)], start_mode="init"), self._case(rng, [ev(2, 1)], start_mode="partial"),
            self._case(rng, [ev(2, 2)], start_mode="shared"),
            self._case(rng, [ev(2, 2)], start_mode="shared-inner", style="inplace"),
            self._case(rng, [ev(2, 1), ev(2, 2)], tag="two-evolves"),
            self._case(rng, [ev(4, 5)], style="mixed"),
            # clock beyond t_max, zero generations with t_max > 0
            self._case(rng, [ev(2, 5)], tmax=3), self._case(rng, [ev(2, 4)], tmax=0),
            self._case(rng, [ev(2, 0)], tmax=3),
            # direct calls: reset, advance, advance after an evolve, reset between advances
            self._case(rng, [{"m": "reset"}], tag="api"),
            self._case(rng, [{"m": "reset"}, {"m": "advance", "ngen": 2}], tag="api"),
            self._case(rng, [ev(1, 2), {"m": "advance", "ngen": 2}], tag="api"),
            self._case(rng, [{"m": "reset"}, {"m": "advance", "ngen": 1}, {"m": "reset"},
                             {"m": "advance", "ngen": 2}, {"m": "advance", "ngen": 1}], tag="api", style="inplace"),
            self._case(rng, [ev(2, 1), {"m": "reset"}, {"m": "advance", "ngen": 0}, ev(1, 1)], tag="api",
                       start_mode="init"),
            # ngen = None (documented: use t_max; regression cases of D36, fixed by 89fb67b3)
            self._case(rng, [ev(0, None)], tmax=3, tag="ngen-none"),
            self._case(rng, [ev(2, None)], tmax=2, tag="ngen-none"),
        ]
        for c in out:
            c["_corpus"] = "builtin"
        return out

    def generate(self, rng, n, tier):
        out = []
        ev = self._ev
        for _ in range(n):
            nrep = rng.choice([0, 1, 2, 2, 2, 3, 3, 4])
            ngen = rng.choice([0, 1, 1, 2, 2, 3, 4, 5])
            if tier == "thorough" and rng.random() < 0.05:
                nrep, ngen = rng.randint(4, 8), rng.randint(4, 9)
            style = rng.choice(["mixed", "mixed", "mixed", "inplace", "fresh", "pure"])
            mode = rng.choice(["given"] * 6 + ["shared", "shared-inner", "partial", "init", "init"])
            r = rng.random()
            first = ev(nrep, ngen, loginit=rng.random() < 0.8, verbose=rng.random() < 0.1)
            if r < 0.62:
                out.append(self._case(rng, [first], style=style, start_mode=mode))
            elif r < 0.72:
                second = ev(rng.randint(1, 2), rng.randint(0, 2), loginit=rng.random() < 0.8)
                out.append(self._case(rng, [first, second], style=style, start_mode=mode, tag="two-evolves"))
            elif r < 0.76:
                tmax = rng.choice([0, 1, 2, 3])
                out.append(self._case(rng, [ev(rng.choice([0, 1, 2]), None, loginit=rng.random() < 0.8)],
                                      style=style, start_mode=mode, tmax=tmax, tag="ngen-none"))
            else:
                # a history of direct API calls; reset/advance need an initialised programme, advance needs
                # working containers
                calls = []
                have_work = False
                inited = mode in ("given", "shared")
                for _ in range(rng.randint(1, 5)):
                    choice = rng.random()
                    if not inited or choice < 0.3:
                        k = rng.choice([1, 1, 2])
                        calls.append(ev(k, rng.randint(0, 2), loginit=rng.random() < 0.8))
                        inited, have_work = True, True
                    elif not have_work or choice < 0.55:
                        calls.append({"m": "reset"})
                        have_work = True
                    else:
                        calls.append({"m": "advance", "ngen": rng.choice([0, 1, 1, 2, 3])})
                out.append(self._case(rng, calls, style=style, start_mode=mode, tag="api"))
        return out

    # ------------------------------------------------------------------ implementation
    def run_impl(self, case):
        Init, PSel, Mate, Eval, SSel, Book = stubs()
        mod = _prog_module()
        rec = Recorder()
        rec.script = case["script"]
        cells = [{"h": list(c)} for c in case["cells"]]
        for i, j in case.get("share", []):
            cells[i]["h"] = cells[j]["h"]          # one list object below two dicts
        start = [None if i is None else cells[i] for i in case["start"]]
        book = Book(rec, case["rep0"])
        rec.lbook = book
        prog = mod.RecurrentSelectionBreedingProgram(
            Init(rec), PSel(rec), Mate(rec), Eval(rec), SSel(rec), case["tmax"],
            start_genome=start[0], start_geno=start[1], start_pheno=start[2], start_bval=start[3],
            start_gmod=start[4])
        rec.prog = prog

        def work():
            objs = [getattr(prog, "_" + n, None) for n in FIVE]
            return [None if o is None else rec.oid(o) for o in objs], [rec.val(o) for o in objs]

        out = []
        for c in _calls(case):
            rec.trace = []
            w_ids, w_vals = work()
            o = {"m": c["m"], "start_before": rec.start_ids(), "V0given": rec.start_vals(),
                 "work_before": w_ids, "workVals_before": w_vals, "t_before": int(prog.t_cur), "raised": None}
            try:
                with contextlib.redirect_stdout(io.StringIO()):
                    if c["m"] == "evolve":
                        prog.evolve(nrep=c["nrep"], ngen=c["ngen"], lbook=book, loginit=c["loginit"],
                                    verbose=bool(c.get("verbose", False)))
                    elif c["m"] == "reset":
                        prog.reset()
                    else:
                        prog.advance(ngen=c["ngen"], lbook=book)
            except Exception as e:          # every generated call is valid: raising is a Spec violation
                o["raised"] = {"type": type(e).__name__, "text": f"{type(e).__name__}: {e}"[:200]}
            w_ids, w_vals = work()
            o.update({"trace": rec.trace, "start_after": rec.start_ids(), "startVals_after": rec.start_vals(),
                      "work": w_ids, "workVals": w_vals, "rep": int(book.rep), "t": int(prog.t_cur)})
            out.append(o)
            if o["raised"]:
                break
        return {"calls": out, "script_left": len(case["script"]) - len(rec.used)}

    # ------------------------------------------------------------------ model requests
    def requests(self, case, obs):
        reqs = [{"op": "c20.run", "cells": case["cells"], "share": case.get("share", []), "start": case["start"],
                 "tmax": case["tmax"],
                 "rep0": case["rep0"], "script": case["script"],
                 "calls": [{k: v for k, v in c.items() if k != "verbose"} for c in _calls(case)]}]
        for c, o in zip(_calls(case), obs["calls"]):
            if o["raised"]:
                continue
            if c["m"] == "evolve":
                ngen = c["ngen"] if c["ngen"] is not None else case["tmax"]     # documented default
                reqs.append({"op": "c20.spec", "nrep": c["nrep"], "ngen": ngen, "loginit": c["loginit"],
                             "V0given": o["V0given"], "trace": o["trace"], "startVals_after": o["startVals_after"]})
            elif c["m"] == "reset":
                reqs.append({"op": "c20.spec_reset", "V0": o["V0given"], "workVals": o["workVals"], "t": o["t"],
                             "startVals_after": o["startVals_after"]})
            else:
                reqs.append({"op": "c20.spec_advance", "ngen": c["ngen"], "t0": o["t_before"], "V0": o["V0given"],
                             "cur": o["work_before"], "curVals": o["workVals_before"], "trace": o["trace"],
                             "startVals_after": o["startVals_after"]})
        return reqs

    def judge(self, case, obs, answers):
        for a in answers:
            if "err" in a:
                raise RuntimeError("driver error: " + a["err"])
        calls = _calls(case)
        model = answers[0]["ok"]["calls"]
        detail = []
        corr = True
        rm, ro = Renumber(1), Renumber(0)
        if len(model) != len(obs["calls"]):
            corr = False
            detail.append(f"model performed {len(model)} calls, implementation {len(obs['calls'])}")
        for i, (m, o) in enumerate(zip(model, obs["calls"])):
            if bool(m["bad"]) != bool(o["raised"]):
                corr = False
                detail.append(f"call {i} ({o['m']}): model raises={m['bad']}, implementation raised={o['raised']}")
            cm, co = rm.call(m), ro.call(o)
            if cm != co:
                corr = False
                detail.append(f"call {i} ({o['m']}): " + _first_diff(cm, co))
        spec = True
        sdetail = []
        it = iter(answers[1:])
        for i, (c, o) in enumerate(zip(calls, obs["calls"])):
            if o["raised"]:
                spec = False
                sdetail.append(f"call {i} ({c['m']}) raised {o['raised']['text']}")
                continue
            a = next(it)["ok"]
            if not a["ok"]:
                spec = False
            sdetail.append(f"call {i} ({c['m']}) Spec: {a['detail']}")
        detail = sdetail + ["correspondence: " + (d if (d := "; ".join(detail)) else "model trace = implementation trace")]
        sc = case["script"]
        c0 = calls[0]
        big = (c0["m"] == "evolve" and c0["nrep"] >= 2 and (c0["ngen"] or 0) >= 1) or \
            any(c["m"] != "evolve" for c in calls)
        nontriv = (big and any(m is not None for a in sc for m in a.get("muts", []))
                   and any(r[0] == "new" for a in sc[1:] for r in a.get("rets", [])))
        return {"corr": corr, "spec": spec, "nontrivial": nontriv, "detail": "; ".join(detail)}

    def signature(self, case, obs, verdict):
        return {"kind": case.get("kind"), "style": case.get("style"), "start_mode": case.get("start_mode")}

    # ------------------------------------------------------------------ shrinking
    def shrink(self, case):
        """drop a call / the last replicate / the last generation of a call (keeping the remaining
        scripted actions as they are), simplify the start containers, then neutralise single actions"""
        calls = _calls(case)
        shape = [(i, c.get("nrep"), c.get("ngen")) for i, c in enumerate(calls)]
        if len(calls) > 1:
            yield self._reshape(case, shape[:-1])
            if calls[0]["m"] != "evolve" or all(s is not None for s in case["start"]):
                if calls[1]["m"] != "advance" or calls[0]["m"] == "reset":
                    pass
        for j, (i, nrep, ngen) in enumerate(shape):
            m = calls[i]["m"]
            if m == "evolve" and nrep > 0 and (nrep > 1 or j == len(shape) - 1 or calls[shape[j + 1][0]]["m"] != "advance"):
                yield self._reshape(case, shape[:j] + [(i, nrep - 1, ngen)] + shape[j + 1:])
            if m != "reset" and ngen:
                yield self._reshape(case, shape[:j] + [(i, nrep, ngen - 1)] + shape[j + 1:])
        if case.get("start_mode") != "given" and all(s is not None for s in case["start"]):
            c = copy.deepcopy(case)
            c["share"] = []
            c["cells"] = [[i + 1] for i in range(5)]
            c["start"] = [0, 1, 2, 3, 4]
            c["start_mode"] = "given"
            yield c
        for i, a in enumerate(case["script"][:40]):
            if any(m is not None for m in a.get("muts", [])):
                c = copy.deepcopy(case)
                c["script"][i]["muts"] = [None] * len(a["muts"])
                yield c

    @staticmethod
    def _chunks(case):
        """the script of a generated case, split as [init actions], then per call: for evolve a list of
        replicates (head actions, [generation actions]); for advance [generation actions]; for reset []"""
        sc = list(case["script"])
        pos = 0
        init = []
        if sc and sc[0]["k"] == "init":
            init = [sc[0]]
            pos = 1
        out = []
        for c in _calls(case):
            if c["m"] == "evolve":
                ngen = c["ngen"] if c["ngen"] is not None else case["tmax"]
                reps = []
                for _ in range(c["nrep"]):
                    nh = 2 if c["loginit"] else 1
                    head = sc[pos:pos + nh]
                    pos += nh
                    gens = []
                    for _ in range(ngen):
                        gens.append(sc[pos:pos + 8])
                        pos += 8
                    reps.append((head, gens))
                out.append(reps)
            elif c["m"] == "advance":
                gens = []
                for _ in range(c["ngen"]):
                    gens.append(sc[pos:pos + 8])
                    pos += 8
                out.append(gens)
            else:
                out.append([])
        return init, out

    def _reshape(self, case, shape):
        """shape = [(index of the call to keep, nrep, ngen)]"""
        init, chunks = self._chunks(case)
        calls = _calls(case)
        c = copy.deepcopy(case)
        c.pop("runs", None)
        c["calls"] = []
        script = list(init)
        for i, nrep, ngen in shape:
            old = calls[i]
            if old["m"] == "evolve":
                keep_none = old["ngen"] is None and ngen is None
                c["calls"].append(dict(old, nrep=nrep, ngen=ngen))
                n = case["tmax"] if keep_none else (ngen or 0)
                for head, gens in chunks[i][:nrep]:
                    script += head
                    for g in gens[:n]:
                        script += g
            elif old["m"] == "advance":
                c["calls"].append(dict(old, ngen=ngen))
                for g in chunks[i][:ngen]:
                    script += g
            else:
                c["calls"].append(dict(old))
        c["script"] = copy.deepcopy(script)
        return c

    # ------------------------------------------------------------------ self-test mutants
    def mutants(self):
        mod = _prog_module()
        cls = mod.RecurrentSelectionBreedingProgram
        src = open(SRC, encoding="utf-8", newline=None).read()

        def variant(edit):
            """class with methods recompiled from edited source text (in memory only)"""
            text = edit(src)
            assert text != src, "mutant edit did not apply"
            ns = {}
            exec(compile(text, "<mutant of RecurrentSelectionBreedingProgram>", "exec"), ns)
            return ns["RecurrentSelectionBreedingProgram"]

        @contextlib.contextmanager
        def patched(names, newcls):
            old = {n: cls.__dict__[n] for n in names}
            for n in names:
                setattr(cls, n, newcls.__dict__[n])
            try:
                yield
            finally:
                for n, f in old.items():
                    setattr(cls, n, f)

        def mk(names, edit):
            return lambda: patched(names, variant(edit))

        def reset_assign(s):
            for n in FIVE:
                s = s.replace(f"self.{n} = copy.deepcopy(self.start_{n})", f"self.{n} = self.start_{n}")
            return s

        def swap_psel_mate(s):
            a = s.index("            misc = {}\n            mcfg, self.genome")
            b = s.index("            misc = {}\n            self.genome, self.geno, self.pheno, self.bval, self.gmod = self._mateop.mate(")
            c = s.index("            ####################################################################\n"
                        "            ######################## evaluate genotypes")
            psel, mate = s[a:b], s[b:c]
            # `mcfg` must exist before the (now first) mating call
            return s[:a] + "            mcfg = {}\n" + mate + psel + s[c:]

        eval_call = ("            self.genome, self.geno, self.pheno, self.bval, self.gmod = self._evalop.evaluate(\n"
                     "                genome = self._genome,\n                geno = self._geno,\n"
                     "                pheno = self._pheno,\n                bval = self._bval,\n"
                     "                gmod = self._gmod,\n                t_cur = self._t_cur,\n"
                     "                t_max = self._t_max,\n                miscout = misc\n            )\n"
                     "            lbook.log_evaluate(")

        return [
            ("reset_assigns_start_containers", mk(["reset"], reset_assign)),
            ("reset_shallow_copy", mk(["reset"], lambda s: s.replace("copy.deepcopy(self.start_geno)", "copy.copy(self.start_geno)"))),
            ("reset_dict_copy_of_gmod", mk(["reset"], lambda s: s.replace("copy.deepcopy(self.start_gmod)", "dict(self.start_gmod)"))),
            ("reset_copies_wrong_container", mk(["reset"], lambda s: s.replace("copy.deepcopy(self.start_bval)", "copy.deepcopy(self.start_pheno)"))),
            ("reset_keeps_clock", mk(["reset"], lambda s: s.replace("        self.t_cur = 0                                  # reset time", "        pass"))),
            ("advance_t_cur_not_incremented", mk(["advance"], lambda s: s.replace("            self._t_cur += 1", "            pass"))),
            ("advance_t_cur_clamped_at_t_max", mk(["advance"], lambda s: s.replace(
                "            self._t_cur += 1", "            self._t_cur = min(self._t_cur + 1, self._t_max)"))),
            ("advance_mate_before_pselect", mk(["advance"], swap_psel_mate)),
            ("advance_evaluate_not_assigned_back", mk(["advance"], lambda s: s.replace(
                eval_call, eval_call.replace("self.genome, self.geno, self.pheno, self.bval, self.gmod = ", "_unused = ")))),
            ("advance_sselect_gets_stale_geno", mk(["advance"], lambda s: s.replace(
                "self._sselop.sselect(\n                genome = self._genome,\n                geno = self._geno,",
                "self._sselop.sselect(\n                genome = self._genome,\n                geno = self._genome,"))),
            ("advance_log_mate_dropped", mk(["advance"], lambda s: s.replace("            lbook.log_mate(", "            (lambda **k: None)("))),
            ("advance_one_generation_short", mk(["advance"], lambda s: s.replace("for _ in range(ngen):", "for _ in range(max(ngen - 1, 0)):"))),
            ("evolve_ngen_none_default_removed", mk(["evolve"], lambda s: s.replace(
                "        if ngen is None:\n            ngen = self._t_max\n", ""))),
            ("evolve_ngen_or_t_max", mk(["evolve"], lambda s: s.replace(
                "        # initialize if needed\n", "        ngen = ngen or self._t_max\n        # initialize if needed\n"))),
            ("evolve_no_reset", mk(["evolve"], lambda s: s.replace("            self.reset()\n", "            self.reset() if r == 0 else None\n"))),
            ("evolve_initial_evaluation_skipped", mk(["evolve"], lambda s: s.replace(
                "            self.genome, self.geno, self.pheno, self.bval, self.gmod = self._evalop.evaluate(\n                genome = self._genome,\n                geno = self._geno,\n                pheno = self._pheno,\n                bval = self._bval,\n                gmod = self._gmod,\n                t_cur = self._t_cur,\n                t_max = self._t_max,\n                miscout = misc\n            )\n            if loginit:",
                "            if loginit:"))),
            ("evolve_clock_starts_at_one", mk(["evolve"], lambda s: s.replace(
                "            self.reset()\n", "            self.reset()\n            self.t_cur += 1\n").replace(
                "            # increment t_cur from 0 to 1 (first generation)\n            self.t_cur += 1", "            pass"))),
            ("evolve_rep_counter_not_incremented", mk(["evolve"], lambda s: s.replace("            lbook.rep += 1", "            pass"))),
            ("evolve_log_initialize_dropped", mk(["evolve"], lambda s: s.replace("            if loginit:", "            if False:"))),
            ("evolve_evaluates_start_containers", mk(["evolve"], lambda s: s.replace(
                "            self.reset()\n", "            self.reset()\n            self._geno = self._start_geno\n"))),
        ]


def _first_diff(a, b, path=""):
    if type(a) is not type(b):
        return f"{path}: model {a!r} != implementation {b!r}"
    if isinstance(a, dict):
        for k in a:
            if k not in b:
                return f"{path}.{k}: missing in implementation"
            if a[k] != b[k]:
                return _first_diff(a[k], b[k], f"{path}.{k}")
        return f"{path}: keys differ"
    if isinstance(a, list):
        if len(a) != len(b):
            return f"{path}: length model {len(a)} != implementation {len(b)}"
        for i, (x, y) in enumerate(zip(a, b)):
            if x != y:
                return _first_diff(x, y, f"{path}[{i}]")
    return f"{path}: model {a!r} != implementation {b!r}"


PROP = C20()
