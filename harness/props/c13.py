"""C13 — relationship (coancestry) matrices match their definitions and algebraic laws."""
import contextlib
import math
from fractions import Fraction

import numpy

from .. import canon, compat
from ..core import Prop

compat.install()

METHODS = ("mol", "vr", "yang", "gw")


def _mods():
    compat.import_pybrops()
    from pybrops.popgen.gmat.DensePhasedGenotypeMatrix import DensePhasedGenotypeMatrix
    from pybrops.popgen.gmat.DenseGenotypeMatrix import DenseGenotypeMatrix
    from pybrops.popgen.cmat.DenseMolecularCoancestryMatrix import DenseMolecularCoancestryMatrix
    from pybrops.popgen.cmat.DenseVanRadenCoancestryMatrix import DenseVanRadenCoancestryMatrix
    from pybrops.popgen.cmat.DenseYangCoancestryMatrix import DenseYangCoancestryMatrix
    from pybrops.popgen.cmat.DenseGeneralizedWeightedCoancestryMatrix import \
        DenseGeneralizedWeightedCoancestryMatrix
    from pybrops.popgen.cmat.DenseCoancestryMatrix import DenseCoancestryMatrix
    from pybrops.popgen.cmat.fcty.DenseMolecularCoancestryMatrixFactory import \
        DenseMolecularCoancestryMatrixFactory
    from pybrops.popgen.cmat.fcty.DenseVanRadenCoancestryMatrixFactory import \
        DenseVanRadenCoancestryMatrixFactory
    from pybrops.popgen.cmat.fcty.DenseYangCoancestryMatrixFactory import DenseYangCoancestryMatrixFactory
    from pybrops.popgen.cmat.fcty.DenseGeneralizedWeightedCoancestryMatrixFactory import \
        DenseGeneralizedWeightedCoancestryMatrixFactory
    return {
        "PG": DensePhasedGenotypeMatrix, "UG": DenseGenotypeMatrix, "base": DenseCoancestryMatrix,
        "cls": {"mol": DenseMolecularCoancestryMatrix, "vr": DenseVanRadenCoancestryMatrix,
                "yang": DenseYangCoancestryMatrix, "gw": DenseGeneralizedWeightedCoancestryMatrix},
        "fcty": {"mol": DenseMolecularCoancestryMatrixFactory, "vr": DenseVanRadenCoancestryMatrixFactory,
                 "yang": DenseYangCoancestryMatrixFactory, "gw": DenseGeneralizedWeightedCoancestryMatrixFactory},
    }


def _fl(x):
    return float(Fraction(x))


def _arg(kind_value):
    """case encoding of p_anc / mkrwt (None | scalar | list) -> python argument"""
    if kind_value is None:
        return None
    if isinstance(kind_value, list):
        return numpy.array([_fl(v) for v in kind_value], dtype="float64")
    return _fl(kind_value)


def _finite(x):
    """True when the encoded value contains no nan/inf marker"""
    if isinstance(x, str):
        return x not in ("nan", "inf", "-inf")
    if isinstance(x, list):
        return all(_finite(v) for v in x)
    if isinstance(x, dict):
        return all(_finite(v) for v in x.values())
    return True


def _scale(x):
    """largest absolute value in an encoded (nested) numeric value, at least 1"""
    d = canon.dec(x)
    best = Fraction(1)
    stack = [d]
    while stack:
        v = stack.pop()
        if isinstance(v, list):
            stack.extend(v)
        elif isinstance(v, Fraction):
            best = max(best, abs(v))
    return float(best)


def _close(a, b, scale, rel=1e-9):
    """tolerant comparison of two encoded values; absolute slack proportional to the matrix scale"""
    return canon.close_enc(a, b, rel=rel, abs_=1e-11 * scale)


def _summaries(c, symmetric):
    """every summary of a coancestry object, both formats"""
    out = {}
    for fmt, key in (("coancestry", "co"), ("kinship", "kin")):
        s = {"mat": canon.enc(c.mat_asformat(fmt))}
        for name in ("max", "min", "mean"):
            f = getattr(c, name)
            s[name] = {"all": canon.enc(f(format=fmt)), "cols": canon.enc(f(format=fmt, axis=0)),
                       "rows": canon.enc(f(format=fmt, axis=1))}
        s["max_inb"] = canon.enc(c.max_inbreeding(format=fmt))
        try:
            s["inv"] = canon.enc(c.inverse(format=fmt))
        except numpy.linalg.LinAlgError:
            s["inv"] = None
        try:
            s["min_inb"] = canon.enc(c.min_inbreeding(format=fmt))
        except numpy.linalg.LinAlgError:
            s["min_inb"] = None
        # a singular / ill-conditioned matrix may give inf or nan here without LinAlgError; the Spec only
        # looks at these two on well-conditioned matrices, where "absent" counts as a failure
        for key2 in ("inv", "min_inb"):
            if not _finite(s[key2]):
                s[key2] = None
                s[key2 + "_nonfinite"] = True
        if symmetric and fmt == "coancestry":
            s["is_psd"] = bool(c.is_positive_semidefinite())
        out[key] = s
    return out


def _err_tag(e):
    if isinstance(e, ZeroDivisionError):
        return "zerodiv"
    if isinstance(e, RuntimeError):
        return "ploidy"
    if isinstance(e, ValueError):
        return "value"
    if isinstance(e, TypeError):
        return "type"
    return "other:" + type(e).__name__


_MODEL_TAG = {"shape": "value", "range": "value"}


class C13(Prop):
    PID = "C13"
    MODULE = "PybropsModel.Props.C13"
    N_QUICK = 450
    N_THOROUGH = 4000
    RULE = ("genotype matrices (phased 0/1 alleles or unphased counts, ploidy 1 or 2, 1-9 taxa x 1-16 markers plus "
            "the sizes 49/98/103/107, pairwise distinct taxa forced, >= 1 polymorphic marker where the formula "
            "needs it) x estimator (molecular, VanRaden, Yang, generalised weighted; class method or factory) x "
            "reference frequencies (estimated / dyadic scalar / dyadic array incl. exact 0 and 1 where allowed) x "
            "marker weights (none / scalar / non-negative array with zeros) x taxa permutation or unsorted subset; "
            "many-marker cases (128, 129, 200, 300, 1000 markers, 2-4 inbred / highly homozygous or haploid lines "
            "sharing >= 128 identical loci, all four estimators, estimated and supplied frequencies); "
            "plus arbitrary (asymmetric, diagonally dominant or indefinite) square matrices for the summaries; "
            "grouped sources (`group_taxa()` before `from_gmat`: the sorted order and the four metadata arrays are "
            "read back from the source and must reappear on the result); "
            "'summaries after in-place edit' sequences on ONE object (summaries, then element assignment through "
            "`.mat`, diagonal increment, or an `apply_jitter` that fires, then all summaries again, Spec on every "
            "round); and a stream of inputs that must be rejected.  Non-trivial = cmat case with >= 2 distinct taxa, >= 2 "
            "markers and a polymorphic marker, or summary case with >= 2 taxa")
    TRUSTED = [
        "numpy.linalg.inv / eigvals entered through their contracts (A·A⁻¹ = I re-checked by the Spec oracle on "
        "every well-conditioned case against an exact Gauss–Jordan inverse; is_positive_semidefinite True ⇒ exact "
        "PSD test, clearly PD ⇒ True)",
        "BLAS matrix products abstracted as exact sums (tolerance 1e-9 relative)",
        "Float.sqrt of Lean = IEEE sqrt (only used by the op c13.yang_float)",
    ]
    ASSUMPTIONS = [
        "allele frequencies / weights are dyadic rationals, genotypes small integers: float results within 1e-9 "
        "of the exact rational value",
        "inverse-based summaries are compared only where n·max|A|·max|A⁻¹| <= 1e4 (well conditioned)",
        "taxa selections have distinct in-range indices (permutations and subsets)",
        "apply_jitter is modelled with its oracle inputs recorded on the run: the uniform vectors (a RandomState "
        "clone seeded like the global stream) and the verdicts of is_positive_semidefinite (instance-level "
        "recorder); model matrix and flag are compared with the object (correspondence; the property text does "
        "not speak about jitter, so the Spec only demands that the summaries recomputed afterwards are those of "
        "the matrix now held)",
    ]

    # ------------------------------------------------------------------ generation
    def corpus(self):
        import random
        rng = random.Random(128)
        many = [self._bigm_case(rng, method=meth, m=mm, ploidy=pl)
                for meth in METHODS for mm, pl in ((128, 2), (129, 1), (300, 2))]
        many.append(self._bigm_case(rng, method="mol", m=1000, ploidy=2))
        # two identical fully homozygous diploid lines over exactly 128 markers: X X' = 128 on every entry
        many.append({"kind": "cmat", "method": "mol", "via": "class", "ploidy": 2, "phased": False, "n": 2,
                     "m": 128, "geno": [[2] * 128, [2] * 127 + [0]], "taxa": ["inbred_a", "inbred_b"],
                     "taxa_grp": None, "p": None, "w": None, "sel": [1, 0]})
        many.append({"kind": "cmat", "method": "mol", "via": "class", "ploidy": 1, "phased": True, "n": 2,
                     "m": 200, "geno": [[[1] * 200, [1] * 150 + [0] * 50]], "taxa": None,
                     "taxa_grp": None, "p": None, "w": None, "sel": None})
        edits = [
            {"kind": "edit", "seed": 1, "src": "mat", "cls": "mol", "mat": [[2, 1], [1, 2]], "taxa": ["a", "b"],
             "edits": [{"op": "set", "i": 0, "j": 1, "v": 0, "mirror": True}, {"op": "add_diag", "v": 2}]},
            {"kind": "edit", "seed": 2, "src": "gmat", "method": "vr", "via": "class", "ploidy": 2,
             "phased": False, "n": 3, "m": 2, "geno": [[1, 2], [2, 1], [0, 0]], "taxa": ["x", "y", "z"],
             "taxa_grp": None, "p": None, "w": None, "sel": None,
             "edits": [{"op": "jitter", "tol": "1/1000000", "lo": "1/2", "hi": 1}]},
        ]
        grouped = [
            # unsorted groups and names: group_taxa() reorders the taxa; metadata name [1,2] stix [0,2] spix [2,3]
            {"kind": "cmat", "method": "mol", "via": "class", "ploidy": 2, "phased": False, "n": 3, "m": 2,
             "geno": [[0, 0], [1, 2], [2, 1]], "taxa": ["c", "b", "a"], "taxa_grp": [2, 1, 1], "p": None,
             "w": None, "sel": [2, 0], "grouped": True},
            {"kind": "cmat", "method": "vr", "via": "factory", "ploidy": 2, "phased": True, "n": 4, "m": 3,
             "geno": [[[0, 1, 1], [1, 1, 0], [0, 0, 0], [1, 0, 1]], [[1, 1, 0], [0, 1, 0], [0, 1, 0], [1, 1, 1]]],
             "taxa": ["t3", "t1", "t0", "t2"], "taxa_grp": [5, 3, 5, 3], "p": None, "w": None, "sel": None,
             "grouped": True},
            {"kind": "cmat", "method": "gw", "via": "class", "ploidy": 1, "phased": False, "n": 3, "m": 2,
             "geno": [[1, 0], [0, 0], [1, 1]], "taxa": None, "taxa_grp": [9, 9, 4], "p": "1/2", "w": [1, 2],
             "sel": [1, 2, 0], "grouped": True},
            {"kind": "cmat", "method": "yang", "via": "class", "ploidy": 2, "phased": False, "n": 3, "m": 2,
             "geno": [[1, 2], [2, 1], [0, 0]], "taxa": ["x", "y", "z"], "taxa_grp": [1, 0, 1], "p": ["1/2", "1/4"],
             "w": None, "sel": None, "grouped": True},
        ]
        edits += [
            {"kind": "edit", "seed": 3, "src": "gmat", "method": "vr", "via": "class", "ploidy": 2,
             "phased": False, "n": 2, "m": 2, "geno": [[1, 2], [2, 0]], "taxa": None, "taxa_grp": None, "p": None,
             "w": None, "sel": None,
             "edits": [{"op": "jitter", "tol": "3/4", "lo": "1/2", "hi": 1, "nattempt": 20}]},
            {"kind": "edit", "seed": 4, "src": "gmat", "method": "yang", "via": "factory", "ploidy": 2,
             "phased": False, "n": 3, "m": 2, "geno": [[1, 2], [2, 1], [0, 0]], "taxa": None, "taxa_grp": None,
             "p": None, "w": None, "sel": None,
             "edits": [{"op": "jitter", "tol": 100, "lo": "1/8", "hi": "1/4", "nattempt": 3},
                       {"op": "add_diag", "v": 1}]},
            {"kind": "edit", "seed": 5, "src": "mat", "cls": "gw", "mat": [[2, 1], [1, 2]], "taxa": None,
             "edits": [{"op": "jitter", "tol": "1/1000000", "lo": "1/2", "hi": 1, "nattempt": 100},
                       {"op": "jitter", "tol": 3, "lo": "1/2", "hi": 1, "nattempt": 20}]},
            # tiny magnitudes (2^-1000): halving stays exact far below 1 (no underflow down to 2^-1021)
            {"kind": "summ", "cls": "mol", "mat": [[f"3/{2 ** 1000}", f"1/{2 ** 1000}"],
                                                   [f"1/{2 ** 1000}", f"5/{2 ** 1000}"]], "taxa": None},
        ]
        return self._fixed_corpus() + [self._big_case()] + many + grouped + edits

    @staticmethod
    def _big_case():
        """49 diploid taxa (ploidy·n = 98, where the reciprocal form of the frequency estimate was inexact),
        one fixed marker: estimated frequency exactly 1 there"""
        import random
        rng = random.Random(49)
        n, m = 49, 5
        X = [[rng.randint(0, 2) for _ in range(m)] for _ in range(n)]
        for r in X:
            r[0] = 2
        return {"kind": "cmat", "method": "vr", "via": "factory", "ploidy": 2, "phased": False, "n": n, "m": m,
                "geno": X, "taxa": [f"t{i:02d}" for i in range(n)], "taxa_grp": [i % 3 for i in range(n)],
                "p": None, "w": None, "sel": None}

    def _fixed_corpus(self):
        return [
            # the worked example of the non-vacuity `example`s in Props/C13.lean
            {"kind": "cmat", "method": "mol", "via": "class", "ploidy": 2, "phased": True, "n": 3, "m": 2,
             "geno": [[[0, 1], [1, 1], [0, 0]], [[1, 1], [0, 1], [0, 0]]], "taxa": ["a", "b", "c"],
             "taxa_grp": [2, 1, 2], "p": None, "w": None, "sel": [2, 0]},
            {"kind": "cmat", "method": "mol", "via": "factory", "ploidy": 1, "phased": True, "n": 3, "m": 3,
             "geno": [[[0, 1, 1], [1, 1, 0], [0, 0, 0]]], "taxa": ["a", "b", "c"], "taxa_grp": None,
             "p": None, "w": None, "sel": [1, 2, 0]},
            {"kind": "cmat", "method": "mol", "via": "class", "ploidy": 1, "phased": False, "n": 2, "m": 1,
             "geno": [[1], [0]], "taxa": None, "taxa_grp": None, "p": None, "w": None, "sel": [1]},
            {"kind": "cmat", "method": "vr", "via": "class", "ploidy": 2, "phased": False, "n": 3, "m": 2,
             "geno": [[1, 2], [1, 2], [0, 0]], "taxa": ["x", "y", "z"], "taxa_grp": [1, 1, 1], "p": "1/2",
             "w": None, "sel": [2, 1, 0]},
            {"kind": "cmat", "method": "vr", "via": "factory", "ploidy": 2, "phased": False, "n": 3, "m": 2,
             "geno": [[1, 2], [1, 2], [0, 0]], "taxa": ["x", "y", "z"], "taxa_grp": None, "p": [0, "1/4"],
             "w": None, "sel": [0, 2]},
            {"kind": "cmat", "method": "vr", "via": "class", "ploidy": 2, "phased": False, "n": 3, "m": 2,
             "geno": [[1, 2], [1, 2], [0, 0]], "taxa": ["x", "y", "z"], "taxa_grp": None, "p": None,
             "w": None, "sel": None},
            {"kind": "cmat", "method": "yang", "via": "class", "ploidy": 2, "phased": False, "n": 3, "m": 2,
             "geno": [[1, 2], [1, 2], [0, 0]], "taxa": ["x", "y", "z"], "taxa_grp": None, "p": None,
             "w": None, "sel": None},
            {"kind": "cmat", "method": "yang", "via": "factory", "ploidy": 1, "phased": True, "n": 2, "m": 2,
             "geno": [[[1, 0], [0, 0]]], "taxa": ["x", "y"], "taxa_grp": [5, 3], "p": ["1/2", "1/8"],
             "w": None, "sel": [1, 0]},
            {"kind": "cmat", "method": "gw", "via": "class", "ploidy": 2, "phased": False, "n": 3, "m": 2,
             "geno": [[1, 2], [1, 2], [0, 0]], "taxa": ["x", "y", "z"], "taxa_grp": None, "p": [0, 1],
             "w": [1, 2], "sel": [1, 0, 2]},
            {"kind": "cmat", "method": "gw", "via": "factory", "ploidy": 2, "phased": True, "n": 2, "m": 3,
             "geno": [[[1, 0, 1], [0, 0, 1]], [[1, 1, 0], [0, 1, 1]]], "taxa": None, "taxa_grp": None,
             "p": "1/4", "w": 0, "sel": [1]},
            # one taxon, one marker
            {"kind": "cmat", "method": "mol", "via": "class", "ploidy": 2, "phased": False, "n": 1, "m": 1,
             "geno": [[1]], "taxa": ["solo"], "taxa_grp": [7], "p": None, "w": None, "sel": [0]},
            # 49 markers: 1/49 is inexact in binary64
            {"kind": "cmat", "method": "mol", "via": "class", "ploidy": 2, "phased": False, "n": 2, "m": 49,
             "geno": [[2] * 49, [0] * 48 + [2]], "taxa": ["a", "b"], "taxa_grp": None, "p": None, "w": None,
             "sel": [1, 0]},
            {"kind": "summ", "cls": "mol", "mat": [[2, 1], [0, 3]], "taxa": ["a", "b"]},
            {"kind": "summ", "cls": "vr", "mat": [[4, 1, -1], [1, 3, 0], [-1, 0, 2]], "taxa": None},
            {"kind": "summ", "cls": "yang", "mat": [[1, 2], [2, 1]], "taxa": None},          # indefinite
            {"kind": "summ", "cls": "gw", "mat": [[1, 1], [1, 1]], "taxa": None},            # singular PSD
            {"kind": "summ", "cls": "mol", "mat": [["3/2"]], "taxa": ["a"]},
            {"kind": "reject", "method": "mol", "via": "class", "ploidy": 3, "phased": False, "n": 2, "m": 2,
             "geno": [[0, 3], [1, 2]], "taxa": None, "taxa_grp": None, "p": None, "w": None, "sel": None},
            {"kind": "reject", "method": "vr", "via": "class", "ploidy": 2, "phased": False, "n": 2, "m": 2,
             "geno": [[0, 2], [1, 2]], "taxa": None, "taxa_grp": None, "p": [0, 1], "w": None, "sel": None},
            {"kind": "reject", "method": "yang", "via": "class", "ploidy": 2, "phased": False, "n": 2, "m": 2,
             "geno": [[0, 2], [1, 2]], "taxa": None, "taxa_grp": None, "p": None, "w": None, "sel": None},
            {"kind": "reject", "method": "mol", "via": "class", "ploidy": 2, "phased": True, "n": 2, "m": 0,
             "geno": [[[], []], [[], []]], "taxa": None, "taxa_grp": None, "p": None, "w": None, "sel": None},
        ]

    @staticmethod
    def _dyadic(rng, lo_open=False):
        den = rng.choice([2, 4, 8, 16])
        num = rng.randint(1 if lo_open else 0, den - 1 if lo_open else den)
        return Fraction(num, den)

    def _geno(self, rng, ploidy, phased, n, m, all_poly):
        """tacount view with pairwise distinct taxa where possible, then the phased/unphased encoding"""
        X = [[rng.randint(0, ploidy) for _ in range(m)] for _ in range(n)]
        style = rng.random()
        if style < 0.15 and m >= 2:                       # a monomorphic marker (fixed allele)
            k = rng.randrange(m)
            v = rng.choice([0, ploidy])
            for r in X:
                r[k] = v
        elif style < 0.25 and n >= 2:                     # two identical taxa (singular matrix)
            X[rng.randrange(n)] = list(X[rng.randrange(n)])
        if style >= 0.25:
            seen = set()
            for r in X:                                   # make taxa pairwise distinct when m allows it
                tries = 0
                while tuple(r) in seen and tries < 20:
                    r[rng.randrange(m)] = rng.randint(0, ploidy)
                    tries += 1
                seen.add(tuple(r))
        poly = [len({r[k] for r in X}) > 1 or (0 < X[0][k] < ploidy) for k in range(m)]
        for k in range(m):
            need = all_poly or (k == 0 and not any(poly))
            if need and not poly[k] and not (0 < X[0][k] < ploidy):
                if n >= 2:
                    X[rng.randrange(1, n)][k] = ploidy - X[0][k] if X[0][k] in (0, ploidy) else 0
                elif ploidy == 2:
                    X[0][k] = 1
        if not phased:
            return X, X
        g = [[[0] * m for _ in range(n)] for _ in range(ploidy)]
        for i in range(n):
            for k in range(m):
                phases = list(range(ploidy))
                rng.shuffle(phases)
                for ph in phases[:X[i][k]]:
                    g[ph][i][k] = 1
        return g, X

    @staticmethod
    def _polymorphic(X, ploidy, k):
        tot = sum(r[k] for r in X)
        return 0 < tot < ploidy * len(X)

    def _cmat_case(self, rng):
        method = rng.choice(METHODS)
        ploidy = rng.choice([1, 2, 2])
        phased = rng.random() < 0.5
        n = rng.choice([1, 2, 2, 3, 3, 4, 4, 5, 6, 7, 9])
        m = rng.choice([1, 2, 3, 3, 4, 5, 7, 8, 8, 12, 16, 49, 98, 103, 107] if n <= 4
                       else [1, 2, 3, 4, 5, 7, 8, 16])
        pk = None
        wk = None
        if method != "mol":
            r = rng.random()
            if r < 0.35:
                pk = None
            elif r < 0.55:
                pk = self._dyadic(rng, lo_open=True)
            else:
                pk = [self._dyadic(rng, lo_open=(method == "yang")) for _ in range(m)]
                if method == "vr" and all(q in (0, 1) for q in pk):
                    pk[rng.randrange(m)] = Fraction(1, 2)
        if method == "gw":
            r = rng.random()
            if r < 0.3:
                wk = None
            elif r < 0.5:
                wk = rng.choice([0, 1, 2, Fraction(1, 2), Fraction(3, 4), 5])
            else:
                wk = [rng.choice([0, 0, 1, 2, 3, Fraction(1, 2), Fraction(5, 4)]) for _ in range(m)]
        geno, X = self._geno(rng, ploidy, phased, n, m, all_poly=(method == "yang" and pk is None))
        if pk is None and method in ("vr", "yang"):
            polys = [self._polymorphic(X, ploidy, k) for k in range(m)]
            ok = all(polys) if method == "yang" else any(polys)
            if not ok:                                    # cannot be repaired (e.g. one haploid taxon): supply p
                pk = Fraction(1, 2)
        taxa = None
        grp = None
        if rng.random() < 0.85:
            names = [f"T{rng.randint(0, 999):03d}_{i}" for i in range(n)]
            rng.shuffle(names)
            taxa = names
        if rng.random() < 0.6:
            grp = [rng.randint(0, 4) for _ in range(n)]
        sel = None
        if method == "mol" or pk is not None:
            idx = list(range(n))
            rng.shuffle(idx)
            if rng.random() < 0.5 and n > 1:
                idx = idx[:rng.randint(1, n - 1)]
            sel = idx
        # a grouped source (`group_taxa()` sorts by group, then name, and fills the four metadata arrays)
        grouped = grp is not None and rng.random() < 0.45
        return {"kind": "cmat", "method": method, "via": rng.choice(["class", "factory"]), "ploidy": ploidy,
                "phased": phased, "n": n, "m": m, "geno": geno, "taxa": taxa, "taxa_grp": grp,
                "p": canon.enc(pk), "w": canon.enc(wk), "sel": sel, "grouped": grouped}

    def _bigm_case(self, rng, method=None, m=None, ploidy=None):
        """many markers, few taxa, inbred / highly homozygous lines (and haploid matches): pairs of taxa share
        >= 128 jointly homozygous (or identical haploid) loci, so integer products X X' reach and pass 128, 256"""
        method = method or rng.choice(METHODS)
        ploidy = ploidy or rng.choice([1, 2, 2])
        phased = rng.random() < 0.5
        n = rng.choice([2, 2, 3, 4])
        m = m or rng.choice([128, 129, 200, 300, 1000])
        founder = [rng.choice([0, ploidy]) if rng.random() < 0.7 else ploidy for _ in range(m)]
        X = []
        for i in range(n):
            style = rng.random()
            if i == 0 or style < 0.35:
                row = list(founder)                          # (nearly) the founder line
                for _ in range(rng.choice([0, 1, 3])):
                    row[rng.randrange(m)] = rng.randint(0, ploidy)
            elif style < 0.6:
                row = [ploidy - v for v in founder]          # the opposite homozygote: products -1
                for _ in range(rng.choice([0, 2])):
                    row[rng.randrange(m)] = rng.randint(0, ploidy)
            else:                                            # an inbred line of its own, few heterozygous loci
                row = [rng.choice([0, ploidy]) if rng.random() < 0.95 else rng.randint(0, ploidy)
                       for _ in range(m)]
            X.append(row)
        if n >= 2 and X[0] == X[1]:
            X[1][rng.randrange(m)] = ploidy - X[1][0]
        pk = wk = None
        if method != "mol":
            r = rng.random()
            if r < 0.3:
                pk = None
            elif r < 0.5:
                pk = self._dyadic(rng, lo_open=True)
            else:
                pk = [self._dyadic(rng, lo_open=(method == "yang")) for _ in range(m)]
            if pk is None:
                polys = [self._polymorphic(X, ploidy, k) for k in range(m)]
                if (method == "yang" and not all(polys)) or not any(polys):
                    pk = Fraction(1, 4) if method != "yang" else [self._dyadic(rng, lo_open=True) for _ in range(m)]
        if method == "gw":
            r = rng.random()
            wk = None if r < 0.3 else (rng.choice([1, 2, Fraction(1, 2)]) if r < 0.5 else
                                       [rng.choice([0, 1, 1, 2, Fraction(1, 2)]) for _ in range(m)])
        if phased:
            geno = [[[0] * m for _ in range(n)] for _ in range(ploidy)]
            for i in range(n):
                for k in range(m):
                    phases = list(range(ploidy))
                    rng.shuffle(phases)
                    for ph in phases[:X[i][k]]:
                        geno[ph][i][k] = 1
        else:
            geno = X
        sel = None
        if method == "mol" or pk is not None:
            sel = list(range(n))
            rng.shuffle(sel)
            if rng.random() < 0.4 and n > 1:
                sel = sel[:n - 1]
        return {"kind": "cmat", "method": method, "via": rng.choice(["class", "factory"]), "ploidy": ploidy,
                "phased": phased, "n": n, "m": m, "geno": geno,
                "taxa": [f"L{i}" for i in range(n)] if rng.random() < 0.7 else None,
                "taxa_grp": None, "p": canon.enc(pk), "w": canon.enc(wk), "sel": sel}

    @staticmethod
    def _jitter_edit(rng):
        r = rng.random()
        if r < 0.45:      # fires on a singular matrix and succeeds at once (well conditioned afterwards)
            return {"op": "jitter", "tol": "1/1000000", "lo": "1/2", "hi": 1, "nattempt": 100}
        if r < 0.75:      # needs every draw >= 3/4: usually several attempts
            return {"op": "jitter", "tol": "3/4", "lo": "1/2", "hi": 1, "nattempt": 20}
        return {"op": "jitter", "tol": 100, "lo": "1/8", "hi": "1/4", "nattempt": 3}   # cannot succeed: restore

    def _edit_case(self, rng):
        """summaries, an in-place edit of the SAME matrix object through the public surface, summaries again"""
        n = rng.choice([2, 2, 3, 3, 4, 5])
        case = {"kind": "edit", "seed": rng.randint(0, 2 ** 31 - 1)}
        edits = []
        if rng.random() < 0.6:
            sym = rng.random() < 0.7
            A = [[Fraction(rng.randint(-4, 4), rng.choice([1, 2, 4])) for _ in range(n)] for _ in range(n)]
            if sym:
                A = [[A[min(i, j)][max(i, j)] for j in range(n)] for i in range(n)]
            for i in range(n):
                A[i][i] = sum(abs(v) for j, v in enumerate(A[i]) if j != i) + Fraction(rng.randint(2, 8), 2)
            case.update({"src": "mat", "cls": rng.choice(METHODS), "mat": canon.enc(A),
                         "taxa": [f"E{i}" for i in range(n)] if rng.random() < 0.5 else None})
            for _ in range(rng.choice([1, 1, 2, 3])):
                r = rng.random()
                if r < 0.45 and n >= 2:
                    i, j = rng.sample(range(n), 2)
                    edits.append({"op": "set", "i": i, "j": j, "v": canon.enc(Fraction(rng.randint(-3, 3), 4)),
                                  "mirror": sym})
                elif r < 0.7:
                    i = rng.randrange(n)
                    edits.append({"op": "set", "i": i, "j": i,
                                  "v": canon.enc(A[i][i] + Fraction(rng.randint(1, 12), 2)), "mirror": False})
                else:
                    edits.append({"op": "add_diag", "v": canon.enc(rng.choice([Fraction(1, 2), 1, 2, 5]))})
            if sym and rng.random() < 0.3:
                edits.insert(rng.randint(0, len(edits)), self._jitter_edit(rng))
        else:
            g = self._cmat_case(rng)
            while g["n"] < 2 or g["n"] > 6 or g["m"] > 16:
                g = self._cmat_case(rng)
            g["sel"] = None
            case.update({k: v for k, v in g.items() if k != "kind"})
            case["src"] = "gmat"
            # a jitter that fires on the singular matrices of the re-estimating estimators (tolerance and range
            # are public arguments); large enough to make the result well conditioned
            edits.append(self._jitter_edit(rng))
            if rng.random() < 0.5:
                edits.append({"op": "add_diag", "v": canon.enc(rng.choice([Fraction(1, 2), 1, 3]))})
            if rng.random() < 0.4:
                i, j = rng.sample(range(g["n"]), 2)
                edits.append({"op": "set", "i": i, "j": j, "v": canon.enc(Fraction(rng.randint(-1, 1), 4)),
                              "mirror": True})
        case["edits"] = edits
        return case

    def _summ_case(self, rng):
        n = rng.choice([1, 2, 2, 3, 3, 4, 5, 6])
        style = rng.random()
        val = lambda: Fraction(rng.randint(-8, 8), rng.choice([1, 1, 2, 4]))
        A = [[val() for _ in range(n)] for _ in range(n)]
        if style < 0.45:                                   # asymmetric, strictly diagonally dominant
            for i in range(n):
                A[i][i] = sum(abs(v) for j, v in enumerate(A[i]) if j != i) + Fraction(rng.randint(1, 6), 2)
                if rng.random() < 0.2:
                    A[i][i] = -A[i][i]
        elif style < 0.8:                                  # symmetric: B B' + ridge (PD), or indefinite
            B = [[rng.randint(-2, 2) for _ in range(n + 1)] for _ in range(n)]
            A = [[Fraction(sum(a * b for a, b in zip(B[i], B[j]))) for j in range(n)] for i in range(n)]
            if rng.random() < 0.6:
                for i in range(n):
                    A[i][i] += Fraction(rng.randint(1, 4), 2)
            elif rng.random() < 0.5:
                A[rng.randrange(n)][rng.randrange(n)] -= 3
                A = [[(A[i][j] + A[j][i]) / 2 for j in range(n)] for i in range(n)]
        else:                                              # symmetric random (often indefinite)
            A = [[A[min(i, j)][max(i, j)] for j in range(n)] for i in range(n)]
        taxa = [f"S{i}" for i in range(n)] if rng.random() < 0.5 else None
        return {"kind": "summ", "cls": rng.choice(METHODS), "mat": canon.enc(A), "taxa": taxa}

    def _reject_case(self, rng):
        c = self._cmat_case(rng)
        c["kind"] = "reject"
        c["sel"] = None
        m, n = c["m"], c["n"]
        why = rng.choice(["ploidy", "p_range_scalar", "p_range_array", "p_shape", "nonfinite", "w_range", "w_shape"])
        if why == "ploidy":
            c["method"] = "mol"
            c["ploidy"] = 3
            c["phased"] = rng.random() < 0.5
            g, _ = self._geno(rng, 3, c["phased"], n, m, False)
            c["geno"] = g
            c["p"] = c["w"] = None
        elif why == "p_range_scalar":
            c["method"] = rng.choice(["vr", "yang", "gw"])
            c["p"] = canon.enc(rng.choice([Fraction(3, 2), Fraction(-1, 4), 2]))
        elif why == "p_range_array":
            c["method"] = rng.choice(["vr", "yang", "gw"])
            p = [Fraction(1, 2)] * m
            p[rng.randrange(m)] = rng.choice([Fraction(5, 4), Fraction(-1, 8)])
            c["p"] = canon.enc(p)
        elif why == "p_shape":
            c["method"] = rng.choice(["vr", "yang", "gw"])
            c["p"] = canon.enc([Fraction(1, 2)] * (m + 1))
        elif why == "nonfinite":
            c["method"] = rng.choice(["vr", "yang"])
            c["w"] = None
            if c["method"] == "vr":
                c["p"] = canon.enc([rng.choice([0, 1]) for _ in range(m)])
            else:
                p = [Fraction(1, 2)] * m
                p[rng.randrange(m)] = rng.choice([0, 1])
                c["p"] = canon.enc(p)
        elif why == "w_range":
            c["method"] = "gw"
            c["w"] = canon.enc(rng.choice([Fraction(-1, 2), -3]))
        else:
            c["method"] = "gw"
            c["w"] = canon.enc([1] * (m + 2))
        if c["method"] != "gw":
            c["w"] = None
        if c["method"] == "mol":
            c["p"] = None
        return c

    def generate(self, rng, n, tier):
        out = []
        for _ in range(n):
            r = rng.random()
            if r < 0.56:
                out.append(self._cmat_case(rng))
            elif r < 0.64:
                out.append(self._bigm_case(rng))
            elif r < 0.80:
                out.append(self._summ_case(rng))
            elif r < 0.92:
                out.append(self._edit_case(rng))
            else:
                out.append(self._reject_case(rng))
        return out

    # ------------------------------------------------------------------ implementation
    def _gmat(self, M, case):
        taxa = None if case["taxa"] is None else numpy.array(case["taxa"], dtype=object)
        grp = None if case.get("taxa_grp") is None else numpy.array(case["taxa_grp"], dtype="int64")
        if case["phased"]:
            mat = numpy.array(case["geno"], dtype="int8").reshape(case["ploidy"], case["n"], case["m"])
            return M["PG"](mat=mat, taxa=taxa, taxa_grp=grp)
        mat = numpy.array(case["geno"], dtype="int8").reshape(case["n"], case["m"])
        return M["UG"](mat=mat, taxa=taxa, taxa_grp=grp, ploidy=case["ploidy"])

    @staticmethod
    def _kwargs(case):
        kw = {}
        if case["method"] in ("vr", "yang"):
            kw["p_anc"] = _arg(case["p"])
        elif case["method"] == "gw":
            kw["mkrwt"] = _arg(case["w"])
            kw["afreq"] = _arg(case["p"])
        return kw

    def _source(self, M, case):
        """the genotype object handed to `from_gmat` and, for a grouped source, what it holds after
        `group_taxa()` (order of taxa, labels, metadata)"""
        gm = self._gmat(M, case)
        if not case.get("grouped") or case.get("taxa_grp") is None:
            return gm, None
        gm.group_taxa()
        eff = {"geno": canon.enc(gm.mat), "taxa": None if gm.taxa is None else [str(t) for t in gm.taxa],
               "taxa_grp": [int(t) for t in gm.taxa_grp], "meta": self._meta(gm)}
        return gm, eff

    @staticmethod
    def _meta(o):
        parts = {"name": o.taxa_grp_name, "stix": o.taxa_grp_stix, "spix": o.taxa_grp_spix, "len": o.taxa_grp_len}
        if all(v is None for v in parts.values()):
            return None
        if any(v is None for v in parts.values()):
            return "partial"
        return {k: [int(x) for x in v] for k, v in parts.items()}

    def _build(self, M, case, gm):
        kw = self._kwargs(case)
        if case["via"] == "factory":
            return M["fcty"][case["method"]]().from_gmat(gm, **kw)
        return M["cls"][case["method"]].from_gmat(gm, **kw)

    @staticmethod
    def _labels(c):
        return {"taxa": None if c.taxa is None else [str(t) for t in c.taxa],
                "taxa_grp": None if c.taxa_grp is None else [int(t) for t in c.taxa_grp]}

    def run_impl(self, case):
        M = _mods()
        k = case["kind"]
        if k == "summ":
            mat = numpy.array([[_fl(v) for v in r] for r in case["mat"]], dtype="float64")
            taxa = None if case["taxa"] is None else numpy.array(case["taxa"], dtype=object)
            c = M["cls"][case["cls"]](mat=mat, taxa=taxa)
            sym = bool((mat == mat.T).all())
            return {"mat": canon.enc(c.mat), "symmetric": sym, **_summaries(c, sym)}
        if k == "edit":
            return self._run_edit(M, case)
        if k == "reject":
            try:
                gm = self._gmat(M, case)
                c = self._build(M, case, gm)
            except (ZeroDivisionError, RuntimeError, ValueError) as e:
                return {"err": _err_tag(e), "text": str(e)[:200]}
            if not numpy.isfinite(c.mat).all():
                return {"err": "nonfinite"}
            return {"err": None, "mat": canon.enc(c.mat)}
        gm, eff = self._source(M, case)
        c = self._build(M, case, gm)
        isinst = isinstance(c, M["cls"][case["method"]]) and isinstance(c, M["base"])
        out = {"mat": canon.enc(c.mat), "class_ok": bool(isinst), **self._labels(c), "eff": eff,
               "meta": self._meta(c)}
        n = case["n"]
        acc = []
        for i in range(n):
            for j in range(n):
                acc.append([i, j, canon.enc(c.coancestry(i, j)), canon.enc(c.kinship(i, j))])
        out["acc"] = acc
        out["co"] = canon.enc(c.mat_asformat("coancestry"))
        out["kin"] = canon.enc(c.mat_asformat("kinship"))
        if _finite(out["mat"]):
            out["summ"] = _summaries(c, True)
        if case.get("sel") is not None:
            idx = [int(i) for i in case["sel"]]
            a = self._build(M, case, gm.select_taxa(idx))
            b = c.select_taxa(idx)
            out["sel_a"] = {"mat": canon.enc(a.mat), **self._labels(a)}
            out["sel_b"] = {"mat": canon.enc(b.mat), **self._labels(b)}
        return out

    def _run_edit(self, M, case):
        if case["src"] == "mat":
            mat = numpy.array([[_fl(v) for v in r] for r in case["mat"]], dtype="float64")
            taxa = None if case["taxa"] is None else numpy.array(case["taxa"], dtype=object)
            c = M["cls"][case["cls"]](mat=mat, taxa=taxa)
        else:
            c = self._build(M, case, self._source(M, case)[0])
        n = c.mat.shape[0]

        def snap():
            m = c.mat.copy()
            sym = bool((m == m.T).all())
            return {"mat": canon.enc(m), "symmetric": sym, **_summaries(c, sym)}

        steps = [snap()]                     # first round of summaries (anything cached is cached now)
        ident = id(c.mat)
        info = []
        for k, e in enumerate(case["edits"]):
            if e["op"] == "set":
                c.mat[e["i"], e["j"]] = _fl(e["v"])
                if e.get("mirror"):
                    c.mat[e["j"], e["i"]] = _fl(e["v"])
                info.append(None)
            elif e["op"] == "add_diag":
                c.mat[numpy.diag_indices(n)] += _fl(e["v"])
                info.append(None)
            elif e["op"] == "jitter":
                seed = (case["seed"] + k) % (2 ** 32)
                natt = int(e.get("nattempt", 100))
                # oracle inputs of the model: the uniform vectors `apply_jitter` will draw from the global
                # stream (same MT19937 state as a RandomState seeded alike) and the verdicts of the
                # eigen-solver test, recorded by an instance-level wrapper around the real method
                clone = numpy.random.RandomState(seed)
                draws = [clone.uniform(_fl(e["lo"]), _fl(e["hi"]), n) for _ in range(min(natt, 25))]
                answers = []

                def recorder(eigvaltol=2e-14, _c=c, _a=answers):
                    r = bool(type(_c).is_positive_semidefinite(_c, eigvaltol))
                    _a.append(r)
                    return r
                c.is_positive_semidefinite = recorder
                numpy.random.seed(seed)
                try:
                    ok = bool(c.apply_jitter(eigvaltol=_fl(e["tol"]), minjitter=_fl(e["lo"]),
                                             maxjitter=_fl(e["hi"]), nattempt=natt))
                finally:
                    del c.is_positive_semidefinite
                info.append({"ok": ok, "answers": list(answers), "draws": canon.enc(draws[:max(0, len(answers) - 1)])
                             if len(answers) - 1 <= len(draws) else None})
            else:
                raise ValueError(e["op"])
            steps.append(snap())             # the matrix is read back from the object: the model takes it as is
        return {"steps": steps, "info": info, "same_array": bool(id(c.mat) == ident)}

    # ------------------------------------------------------------------ model requests
    @staticmethod
    def _base_req(case, obs=None):
        b = {k: case[k] for k in ("method", "ploidy", "phased", "n", "m", "geno", "p", "w")}
        if obs is not None and isinstance(obs, dict) and obs.get("eff") is not None:
            b["geno"] = obs["eff"]["geno"]      # a grouped source was sorted by group_taxa(): use what it holds
        return b

    def requests(self, case, obs):
        k = case["kind"]
        if k == "summ":
            reqs = [{"op": "c13.summ", "mat": case["mat"]}]
            if _finite(obs):
                reqs.append({"op": "c13.spec_summ", "mat": obs["mat"], "co": obs["co"], "kin": obs["kin"],
                             "symmetric": obs["symmetric"]})
            return reqs
        if k == "edit":
            reqs = []
            for st in obs["steps"]:
                if _finite(st):
                    reqs.append({"op": "c13.summ", "mat": st["mat"]})
                    reqs.append({"op": "c13.spec_summ", "mat": st["mat"], "co": st["co"], "kin": st["kin"],
                                 "symmetric": st["symmetric"]})
            if all(_finite(st) for st in obs["steps"]):
                for t, e in enumerate(case["edits"]):
                    inf = obs["info"][t]
                    if e["op"] == "jitter" and inf["draws"] is not None:
                        reqs.append({"op": "c13.jitter", "mat": obs["steps"][t]["mat"], "draws": inf["draws"],
                                     "answers": inf["answers"]})
            return reqs
        base = self._base_req(case, obs)
        if k == "reject":
            return [{"op": "c13.cmat", **base, "sel": None}]
        reqs = [{"op": "c13.cmat", **base, "sel": case.get("sel")}]
        if _finite(obs):
            o = {kk: obs[kk] for kk in ("mat", "co", "kin", "taxa", "taxa_grp", "acc")}
            src = obs["eff"] if obs.get("eff") is not None else {"taxa": case["taxa"], "taxa_grp": case["taxa_grp"],
                                                                 "meta": None}
            o["meta"] = None if obs["meta"] == "partial" else obs["meta"]
            spec = {"op": "c13.spec_cmat", **base, "taxa": src["taxa"], "taxa_grp": src["taxa_grp"],
                    "meta": src["meta"], "out": o}
            if case.get("sel") is not None:
                spec["sel"] = case["sel"]
                o["sel_a"] = obs["sel_a"]
                o["sel_b"] = obs["sel_b"]
            reqs.append(spec)
            reqs.append({"op": "c13.spec_summ", "mat": obs["mat"], "co": obs["summ"]["co"],
                         "kin": obs["summ"]["kin"], "symmetric": True})
            if case["method"] == "yang":
                reqs.append({"op": "c13.yang_float", **base})
        return reqs

    # ------------------------------------------------------------------ comparison
    @staticmethod
    def _cmp_summ(model, impl):
        """model summaries (exact, on the model's matrix) against the implementation's; returns list of
        the names that disagree"""
        bad = []
        sc = _scale(model["co"]["mat"])
        for key in ("co", "kin"):
            ms, im = model[key], impl[key]
            if not _close(ms["mat"], im["mat"], sc):
                bad.append(key + ".mat")
            for name in ("max", "min", "mean"):
                for ax in ("all", "rows", "cols"):
                    if ms[name][ax] is None or not _close(ms[name][ax], im[name][ax], sc):
                        bad.append(f"{key}.{name}.{ax}")
            if ms["max_inb"] is None or not _close(ms["max_inb"], im["max_inb"], sc):
                bad.append(key + ".max_inb")
            if ms["inv"] is not None:
                inv = canon.dec(ms["inv"])
                A = canon.dec(ms["mat"])
                mx = max((abs(v) for r in inv for v in r), default=Fraction(0))
                ma = max((abs(v) for r in A for v in r), default=Fraction(0))
                if len(A) * ma * mx <= 10 ** 4:
                    if im["inv"] is None or not canon.close(inv, canon.dec(im["inv"]), rel=1e-6,
                                                             abs_=float(mx) * 1e-6):
                        bad.append(key + ".inv")
                    tot = sum(v for r in inv for v in r)
                    if abs(tot) * 1000 >= mx:
                        if im["min_inb"] is None or not canon.close_enc(ms["min_inb"], im["min_inb"], rel=1e-6):
                            bad.append(key + ".min_inb")
        return bad

    def judge(self, case, obs, answers):
        for a in answers:
            if "err" in a:
                raise RuntimeError("driver error: " + a["err"])
        k = case["kind"]
        if k == "summ":
            model = answers[0]["ok"]
            if not _finite(obs):
                return {"corr": False, "spec": False, "nontrivial": True, "detail": "non-finite summary of a finite matrix"}
            spec = answers[1]["ok"]
            bad = self._cmp_summ(model, obs)
            return {"corr": not bad, "spec": bool(spec["ok"]), "nontrivial": len(case["mat"]) >= 2,
                    "detail": f"summ corr_mismatch={bad} spec_failed={spec['failed']}"}
        if k == "edit":
            steps = obs["steps"]
            if not all(_finite(st) for st in steps):
                return {"corr": False, "spec": False, "nontrivial": True,
                        "detail": "non-finite matrix / summary after an in-place edit"}
            bad, failed = [], []
            for t, st in enumerate(steps):
                model, spec = answers[2 * t]["ok"], answers[2 * t + 1]["ok"]
                bad += [f"step{t}.{b}" for b in self._cmp_summ(model, st)]
                failed += [f"step{t}.{f}" for f in spec["failed"]]
            # the element edits themselves (numpy semantics): the matrix read back is the edited one
            changed = False
            jpos, nxt = {}, 2 * len(steps)          # position of the c13.jitter answer of edit t
            for t, e in enumerate(case["edits"]):
                if e["op"] == "jitter" and obs["info"][t]["draws"] is not None:
                    jpos[t] = nxt
                    nxt += 1
            for t, e in enumerate(case["edits"]):
                before, after = canon.dec(steps[t]["mat"]), canon.dec(steps[t + 1]["mat"])
                want = [list(r) for r in before]
                if e["op"] == "set":
                    want[e["i"]][e["j"]] = Fraction(e["v"])
                    if e.get("mirror"):
                        want[e["j"]][e["i"]] = Fraction(e["v"])
                elif e["op"] == "add_diag":
                    for i in range(len(want)):
                        want[i][i] = Fraction(float(want[i][i]) + _fl(e["v"]))
                else:                                   # jitter: the model with the recorded oracle inputs
                    inf = obs["info"][t]
                    if inf["draws"] is not None:
                        mj = answers[jpos[t]]["ok"]
                        if mj["ok"] != inf["ok"] or not _close(mj["mat"], steps[t + 1]["mat"],
                                                                  _scale(mj["mat"]), rel=1e-12):
                            bad.append(f"edit{t}.jitter_model")
                    lo, hi = Fraction(e["lo"]), Fraction(e["hi"])
                    for i in range(len(want)):
                        d = after[i][i] - before[i][i]
                        if d != 0 and lo * Fraction(999, 1000) <= d <= hi * Fraction(1001, 1000):
                            want[i][i] = after[i][i]
                if want != after:
                    bad.append(f"edit{t}.matrix")
                changed = changed or after != before
            if not obs["same_array"]:
                bad.append("matrix object replaced")
            return {"corr": not bad, "spec": not failed, "nontrivial": changed and len(steps[0]["mat"]) >= 2,
                    "detail": f"edit[{case['src']}] corr_mismatch={bad} spec_failed={failed} jitter="
                              f"{[None if i is None else (i['ok'], i['answers']) for i in obs['info']]}"}
        if k == "reject":
            model = answers[0]["ok"]
            mtag = _MODEL_TAG.get(model.get("err"), model.get("err"))
            corr = (mtag == obs["err"])
            return {"corr": corr, "spec": True, "nontrivial": False,
                    "detail": f"reject model={model.get('err')} impl={obs['err']} {obs.get('text', '')}"}
        model = answers[0]["ok"]
        if not _finite(obs):
            return {"corr": False, "spec": False, "nontrivial": True,
                    "detail": "non-finite relationship matrix / summary on a valid input"}
        spec1 = answers[1]["ok"]
        spec2 = answers[2]["ok"]
        bad = []
        if "err" in model:
            bad.append("model rejects: " + str(model["err"]))
        else:
            sc = _scale(model["mat"])
            if not _close(model["mat"], obs["mat"], sc):
                bad.append("mat")
            bad += self._cmp_summ(model, obs["summ"])
            if case.get("sel") is not None:
                for key in ("sel_a", "sel_b"):
                    if not isinstance(model[key], list) or not _close(model[key], obs[key]["mat"], sc):
                        bad.append(key)
            if case["method"] == "yang":
                yf = answers[3]["ok"]
                if "err" in yf or not _finite(yf["mat"]) or not _close(yf["mat"], obs["mat"], sc):
                    bad.append("yang_as_written_on_Float")
        spec = bool(spec1["ok"]) and bool(spec2["ok"]) and obs["class_ok"] and obs["meta"] != "partial"
        X = case["geno"] if not case["phased"] else \
            [[sum(case["geno"][ph][i][kk] for ph in range(case["ploidy"])) for kk in range(case["m"])]
             for i in range(case["n"])]
        nontriv = (case["n"] >= 2 and case["m"] >= 2 and len({tuple(r) for r in X}) >= 2
                   and any(self._polymorphic(X, case["ploidy"], kk) for kk in range(case["m"])))
        return {"corr": not bad, "spec": spec, "nontrivial": nontriv,
                "detail": f"cmat[{case['method']}/{case['via']}] corr_mismatch={bad} "
                          f"spec_failed={spec1['failed'] + spec2['failed']} class_ok={obs['class_ok']}"}

    def signature(self, case, obs, verdict):
        sig = {"kind": case["kind"], "method": case.get("method", case.get("cls"))}
        failed = []
        for a in verdict.get("answers", []) or []:
            if isinstance(a, dict) and isinstance(a.get("ok"), dict) and "failed" in a["ok"]:
                failed += a["ok"]["failed"]
        sig["failed"] = ",".join(sorted(set(failed)))
        return sig

    def shrink(self, case):
        k = case["kind"]
        if k == "edit":
            for t in range(len(case["edits"])):
                if len(case["edits"]) > 1:
                    c = dict(case)
                    c["edits"] = case["edits"][:t] + case["edits"][t + 1:]
                    yield c
            return
        if k == "summ":
            n = len(case["mat"])
            for i in range(n):
                if n > 1:
                    c = dict(case)
                    c["mat"] = [[v for j, v in enumerate(r) if j != i] for ii, r in enumerate(case["mat"]) if ii != i]
                    if c["taxa"] is not None:
                        c["taxa"] = [t for j, t in enumerate(c["taxa"]) if j != i]
                    yield c
            return
        n, m = case["n"], case["m"]
        if case.get("sel") is not None:
            c = dict(case)
            c["sel"] = None
            yield c
        if n > 1:                                           # drop a taxon
            for i in range(n):
                c = dict(case)
                c["n"] = n - 1
                if case["phased"]:
                    c["geno"] = [[r for ii, r in enumerate(ph) if ii != i] for ph in case["geno"]]
                else:
                    c["geno"] = [r for ii, r in enumerate(case["geno"]) if ii != i]
                for key in ("taxa", "taxa_grp"):
                    if case.get(key) is not None:
                        c[key] = [t for ii, t in enumerate(case[key]) if ii != i]
                if case.get("sel") is not None:
                    c["sel"] = [j - (1 if j > i else 0) for j in case["sel"] if j != i] or None
                yield c
        if m > 1:                                           # drop a marker
            for kk in range(m):
                c = dict(case)
                c["m"] = m - 1
                if case["phased"]:
                    c["geno"] = [[[v for j, v in enumerate(r) if j != kk] for r in ph] for ph in case["geno"]]
                else:
                    c["geno"] = [[v for j, v in enumerate(r) if j != kk] for r in case["geno"]]
                for key in ("p", "w"):
                    if isinstance(case.get(key), list):
                        c[key] = [v for j, v in enumerate(case[key]) if j != kk]
                yield c
        for key in ("taxa", "taxa_grp"):
            if case.get(key) is not None:
                c = dict(case)
                c[key] = None
                yield c

    # ------------------------------------------------------------------ self-test mutants
    def mutants(self):
        M = _mods()
        Mol, VR, Yang, GW = (M["cls"][k] for k in METHODS)
        Base = M["base"]

        @contextlib.contextmanager
        def patch(obj, name, new):
            old = obj.__dict__[name]
            setattr(obj, name, new)
            try:
                yield
            finally:
                setattr(obj, name, old)

        def finish(cls, G, gmat, keep_grp=True):
            out = cls(mat=G, taxa=gmat.taxa, taxa_grp=gmat.taxa_grp if keep_grp else None)
            return out

        def resolve_p(gmat, p):
            if p is None:
                return gmat.afreq()
            if isinstance(p, numpy.ndarray):
                return p
            return numpy.repeat(float(p), gmat.nvrnt)

        # --- mechanism 1: molecular
        def mol_uncentred(cls, gmat, **kw):
            X = gmat.tacount(int)
            r = 1.0 / gmat.nvrnt
            if gmat.ploidy == 1:
                Y = 1 - X
                G = (2.0 * r) * ((X @ X.T) + (Y @ Y.T))
            else:
                G = 1.0 + r * (X @ X.T)                    # X not shifted to {-1,0,1}
            return finish(cls, G, gmat)

        def mol_no_rnvrnt(cls, gmat, **kw):
            X = gmat.tacount(int)
            if gmat.ploidy == 1:
                Y = 1 - X
                G = 2.0 * ((X @ X.T) + (Y @ Y.T)).astype(float)
            else:
                X -= 1
                G = 1.0 + 1.0 * (X @ X.T)                  # 1/m dropped
            return finish(cls, G, gmat)

        def mol_haploid_half(cls, gmat, **kw):
            X = gmat.tacount(int)
            r = 1.0 / gmat.nvrnt
            if gmat.ploidy == 1:
                Y = 1 - X
                G = r * ((X @ X.T) + (Y @ Y.T))            # (1/m) for (2/m)
            else:
                X -= 1
                G = 1.0 + r * (X @ X.T)
            return finish(cls, G, gmat)

        # --- mechanism 2: VanRaden
        def vr_scale_no_ploidy(cls, gmat, p_anc=None, **kw):
            p = resolve_p(gmat, p_anc)
            Z = gmat.tacount() - p[None, :] * float(gmat.ploidy)
            G = (1.0 / p.dot(1.0 - p)) * Z.dot(Z.T)
            return finish(cls, G, gmat)

        def vr_gram_transposed(cls, gmat, p_anc=None, **kw):
            p = resolve_p(gmat, p_anc)
            Z = gmat.tacount() - p[None, :] * float(gmat.ploidy)
            W = Z.T.dot(Z)                                  # Z'Z (markers × markers) folded back to n × n
            n = Z.shape[0]
            G = numpy.zeros((n, n))
            k = min(n, W.shape[0])
            G[:k, :k] = W[:k, :k]
            G = (1.0 / (float(gmat.ploidy) * p.dot(1.0 - p))) * G
            return finish(cls, G, gmat)

        def vr_centre_no_ploidy(cls, gmat, p_anc=None, **kw):
            p = resolve_p(gmat, p_anc)
            Z = gmat.tacount() - p[None, :]
            G = (1.0 / (float(gmat.ploidy) * p.dot(1.0 - p))) * Z.dot(Z.T)
            return finish(cls, G, gmat)

        # --- mechanism 3: Yang
        def yang_no_sqrt(cls, gmat, p_anc=None, **kw):
            p = resolve_p(gmat, p_anc)
            Z = gmat.tacount() - p[None, :] * float(gmat.ploidy)
            Z = Z * (1.0 / (float(gmat.ploidy) * p * (1.0 - p)))
            G = (1.0 / gmat.nvrnt) * Z.dot(Z.T)
            return finish(cls, G, gmat)

        def yang_no_m(cls, gmat, p_anc=None, **kw):
            p = resolve_p(gmat, p_anc)
            Z = gmat.tacount() - p[None, :] * float(gmat.ploidy)
            Z = Z * (1.0 / numpy.sqrt(float(gmat.ploidy) * p * (1.0 - p)))
            G = Z.dot(Z.T)
            return finish(cls, G, gmat)

        # --- mechanism 4: generalised weighted
        def gw_mut(kind):
            def f(cls, gmat, mkrwt=None, afreq=None, **kw):
                m = gmat.nvrnt
                w = numpy.full((m,), 1.0) if mkrwt is None else \
                    (mkrwt if isinstance(mkrwt, numpy.ndarray) else numpy.full((m,), float(mkrwt)))
                p = gmat.afreq() if afreq is None else \
                    (afreq if isinstance(afreq, numpy.ndarray) else numpy.full((m,), float(afreq)))
                Z = gmat.tacount() - float(gmat.ploidy) * p[None, :]
                if kind == "ignore_w":
                    G = Z.dot(Z.T)
                elif kind == "w_squared":
                    G = (Z * w[None, :] * w[None, :]).dot(Z.T)
                else:                                       # weights applied to the uncentred matrix
                    G = (gmat.tacount() * w[None, :]).dot(Z.T)
                return finish(cls, G, gmat)
            return f

        # --- mechanism 5: formats and summaries
        def asformat_same(self, format):
            return self._mat.copy()

        def kinship_same(self, *args, **kw):
            return self._mat[args]

        def min_inb_no_inverse(self, format="coancestry"):
            out = 1.0 / self.mat.sum()
            return 0.5 * out if format.lower() == "kinship" else out

        def min_inb_kinship_double(self, format="coancestry"):
            out = 1.0 / numpy.linalg.inv(self.mat).sum()
            return 2.0 * out if format.lower() == "kinship" else out

        def inverse_kinship_half(self, format="coancestry"):
            out = numpy.linalg.inv(self._mat)
            return 0.5 * out if format.lower() == "kinship" else out

        def max_inb_all(self, format="coancestry"):
            out = self.mat.max()
            return 0.5 * out if format.lower() == "kinship" else out

        def mean_swapped_axis(self, format="coancestry", axis=None, dtype=None):
            ax = axis if axis is None else 1 - axis
            out = self._mat.mean(axis=ax, dtype=dtype)
            if format.lower() == "kinship":
                out = out * 0.5
            return out

        def max_is_absmax(self, format="coancestry", axis=None):
            out = numpy.abs(self._mat).max(axis=axis)
            if format.lower() == "kinship":
                out = out * 0.5
            return out

        def psd_always(self, eigvaltol=2e-14):
            return True

        # --- labels / factories
        def vr_drop_grp(cls, gmat, p_anc=None, **kw):
            p = resolve_p(gmat, p_anc)
            Z = gmat.tacount() - p[None, :] * float(gmat.ploidy)
            G = (1.0 / (float(gmat.ploidy) * p.dot(1.0 - p))) * Z.dot(Z.T)
            return finish(cls, G, gmat, keep_grp=False)

        def mol_sorted_taxa(cls, gmat, **kw):
            X = gmat.tacount(int)
            r = 1.0 / gmat.nvrnt
            if gmat.ploidy == 1:
                Y = 1 - X
                G = (2.0 * r) * ((X @ X.T) + (Y @ Y.T))
            else:
                X -= 1
                G = 1.0 + r * (X @ X.T)
            taxa = None if gmat.taxa is None else numpy.array(sorted(gmat.taxa), dtype=object)
            return cls(mat=G, taxa=taxa, taxa_grp=gmat.taxa_grp)

        VRF = M["fcty"]["vr"]
        MolF = M["fcty"]["mol"]

        def vrf_drops_p(self, gmat, p_anc=None, **kw):
            return VR.from_gmat(gmat=gmat, p_anc=None, **kw)

        def molf_wrong_class(self, gmat, **kw):
            c = Mol.from_gmat(gmat=gmat, **kw)
            return Mol(mat=0.5 * c.mat, taxa=c.taxa, taxa_grp=c.taxa_grp)

        def mol_int8(cls, gmat, **kw):
            X = gmat.tacount("int8")                     # narrow accumulator: X X' wraps at 128
            r = 1.0 / gmat.nvrnt
            if gmat.ploidy == 1:
                Y = (1 - X).astype("int8")
                G = (2.0 * r) * ((X @ X.T) + (Y @ Y.T))
            else:
                X -= 1
                G = 1.0 + r * (X @ X.T)
            return finish(cls, numpy.asarray(G, dtype="float64"), gmat)

        def gw_float32(cls, gmat, mkrwt=None, afreq=None, **kw):
            m = gmat.nvrnt
            w = numpy.full((m,), 1.0) if mkrwt is None else \
                (mkrwt if isinstance(mkrwt, numpy.ndarray) else numpy.full((m,), float(mkrwt)))
            p = gmat.afreq() if afreq is None else \
                (afreq if isinstance(afreq, numpy.ndarray) else numpy.full((m,), float(afreq)))
            Z = (gmat.tacount() - float(gmat.ploidy) * p[None, :]).astype("float32")
            G = (Z * w[None, :].astype("float32")).dot(Z.T).astype("float64")
            return finish(cls, G, gmat)

        orig_inverse = Base.__dict__["inverse"]

        def inverse_memo(self, format="coancestry"):
            key = (id(self._mat), format.lower())       # memoised on the identity of the array
            cache = self.__dict__.setdefault("_inv_cache", {})
            if key not in cache:
                cache[key] = orig_inverse(self, format)
            return cache[key]

        def min_inb_memo(self, format="coancestry"):
            out = 1.0 / inverse_memo(self, "coancestry").sum()
            return 0.5 * out if format.lower() == "kinship" else out

        @contextlib.contextmanager
        def memoised_inverse():
            with patch(Base, "inverse", inverse_memo), patch(Base, "min_inbreeding", min_inb_memo):
                yield

        def mean_memo(self, format="coancestry", axis=None, dtype=None):
            cache = self.__dict__.setdefault("_mean_cache", {})
            key = (id(self._mat), axis)
            if key not in cache:
                cache[key] = self._mat.mean(axis=axis, dtype=dtype)
            out = cache[key]
            return out * 0.5 if format.lower() == "kinship" else out

        def with_meta(cls0, tweak):
            orig = cls0.__dict__["from_gmat"].__func__

            def f(cls, gmat, *a, **kw):
                out = orig(cls, gmat, *a, **kw)
                tweak(out)
                return out
            return classmethod(f)

        def drop_meta(out):
            out.taxa_grp_name = None
            out.taxa_grp_stix = None
            out.taxa_grp_spix = None
            out.taxa_grp_len = None

        def spix_is_stix(out):
            if out.taxa_grp_stix is not None:
                out.taxa_grp_spix = out.taxa_grp_stix.copy()

        def jitter_mut(kind):
            def f(self, eigvaltol=2e-14, minjitter=1e-10, maxjitter=1e-6, nattempt=100):
                diagix = numpy.diag_indices_from(self._mat)
                old = self._mat[diagix].copy()
                counter = 0
                bad = not self.is_positive_semidefinite(eigvaltol)
                while bad and counter < nattempt:
                    u = numpy.random.uniform(minjitter, maxjitter, len(old))
                    if kind == "accumulate":
                        self._mat[diagix] = self._mat[diagix] + u      # adds to the previous attempt
                    elif kind == "offdiag":
                        self._mat[diagix] = old + u
                        if self._mat.shape[0] > 1:
                            self._mat[0, 1] += u[0]                     # touches an off-diagonal entry
                    else:
                        self._mat[diagix] = old + u
                    bad = not self.is_positive_semidefinite(eigvaltol)
                    counter += 1
                if bad:
                    if kind != "no_restore":
                        self._mat[diagix] = old
                    return False
                return True
            return f

        cm = classmethod
        return [
            ("vr_group_metadata_dropped", lambda: patch(VR, "from_gmat", with_meta(VR, drop_meta))),
            ("mol_group_spix_is_stix", lambda: patch(Mol, "from_gmat", with_meta(Mol, spix_is_stix))),
            ("jitter_not_restored_on_failure", lambda: patch(Base, "apply_jitter", jitter_mut("no_restore"))),
            ("jitter_accumulates_attempts", lambda: patch(Base, "apply_jitter", jitter_mut("accumulate"))),
            ("jitter_touches_offdiagonal", lambda: patch(Base, "apply_jitter", jitter_mut("offdiag"))),
            ("mol_int8_accumulation", lambda: patch(Mol, "from_gmat", cm(mol_int8))),
            ("gw_float32_product", lambda: patch(GW, "from_gmat", cm(gw_float32))),
            ("inverse_memoised_on_array_identity", memoised_inverse),
            ("mean_memoised_on_array_identity", lambda: patch(Base, "mean", mean_memo)),
            ("mol_X_not_centred", lambda: patch(Mol, "from_gmat", cm(mol_uncentred))),
            ("mol_1_over_m_dropped", lambda: patch(Mol, "from_gmat", cm(mol_no_rnvrnt))),
            ("mol_haploid_1_over_m", lambda: patch(Mol, "from_gmat", cm(mol_haploid_half))),
            ("vr_scale_without_ploidy", lambda: patch(VR, "from_gmat", cm(vr_scale_no_ploidy))),
            ("vr_ZtZ", lambda: patch(VR, "from_gmat", cm(vr_gram_transposed))),
            ("vr_centre_without_ploidy", lambda: patch(VR, "from_gmat", cm(vr_centre_no_ploidy))),
            ("yang_scale_without_sqrt", lambda: patch(Yang, "from_gmat", cm(yang_no_sqrt))),
            ("yang_1_over_m_dropped", lambda: patch(Yang, "from_gmat", cm(yang_no_m))),
            ("gw_weights_ignored", lambda: patch(GW, "from_gmat", cm(gw_mut("ignore_w")))),
            ("gw_weights_squared", lambda: patch(GW, "from_gmat", cm(gw_mut("w_squared")))),
            ("gw_weights_on_uncentred", lambda: patch(GW, "from_gmat", cm(gw_mut("uncentred")))),
            ("kinship_view_equals_mat", lambda: patch(Base, "mat_asformat", asformat_same)),
            ("kinship_accessor_equals_coancestry", lambda: patch(Base, "kinship", kinship_same)),
            ("min_inbreeding_without_inverse", lambda: patch(Base, "min_inbreeding", min_inb_no_inverse)),
            ("min_inbreeding_kinship_doubled", lambda: patch(Base, "min_inbreeding", min_inb_kinship_double)),
            ("inverse_kinship_halved", lambda: patch(Base, "inverse", inverse_kinship_half)),
            ("max_inbreeding_over_all_entries", lambda: patch(Base, "max_inbreeding", max_inb_all)),
            ("mean_axis_swapped", lambda: patch(Base, "mean", mean_swapped_axis)),
            ("max_of_absolute_values", lambda: patch(Base, "max", max_is_absmax)),
            ("is_psd_always_true", lambda: patch(Base, "is_positive_semidefinite", psd_always)),
            ("vr_drops_taxa_grp", lambda: patch(VR, "from_gmat", cm(vr_drop_grp))),
            ("mol_sorts_taxa", lambda: patch(Mol, "from_gmat", cm(mol_sorted_taxa))),
            ("vr_factory_drops_p_anc", lambda: patch(VRF, "from_gmat", vrf_drops_p)),
            ("mol_factory_returns_kinship", lambda: patch(MolF, "from_gmat", molf_wrong_class)),
        ]


PROP = C13()
