"""C13 — relationship (coancestry) matrices match their definitions and algebraic laws."""
import contextlib
import math
from fractions import Fraction

import numpy

from .. import canon, compat
from ..core import Prop

compat.install()

METHODS = ("mol", "vr", "yang", "gw")


def _mods():
    compat.import_pybrops()
    from pybrops.popgen.gmat.DensePhasedGenotypeMatrix import DensePhasedGenotypeMatrix
    from pybrops.popgen.gmat.DenseGenotypeMatrix import DenseGenotypeMatrix
    from pybrops.popgen.cmat.DenseMolecularCoancestryMatrix import DenseMolecularCoancestryMatrix
    from pybrops.popgen.cmat.DenseVanRadenCoancestryMatrix import DenseVanRadenCoancestryMatrix
    from pybrops.popgen.cmat.DenseYangCoancestryMatrix import DenseYangCoancestryMatrix
    from pybrops.popgen.cmat.DenseGeneralizedWeightedCoancestryMatrix import \
        DenseGeneralizedWeightedCoancestryMatrix
    from pybrops.popgen.cmat.DenseCoancestryMatrix import DenseCoancestryMatrix
    from pybrops.popgen.cmat.fcty.DenseMolecularCoancestryMatrixFactory import \
        DenseMolecularCoancestryMatrixFactory
    from pybrops.popgen.cmat.fcty.DenseVanRadenCoancestryMatrixFactory import \
        DenseVanRadenCoancestryMatrixFactory
    from pybrops.popgen.cmat.fcty.DenseYangCoancestryMatrixFactory import DenseYangCoancestryMatrixFactory
    from pybrops.popgen.cmat.fcty.DenseGeneralizedWeightedCoancestryMatrixFactory import \
        DenseGeneralizedWeightedCoancestryMatrixFactory
    return {
        "PG": DensePhasedGenotypeMatrix, "UG": DenseGenotypeMatrix, "base": DenseCoancestryMatrix,
        "cls": {"mol": DenseMolecularCoancestryMatrix, "vr": DenseVanRadenCoancestryMatrix,
                "yang": DenseYangCoancestryMatrix, "gw": DenseGeneralizedWeightedCoancestryMatrix},
        "fcty": {"mol": DenseMolecularCoancestryMatrixFactory, "vr": DenseVanRadenCoancestryMatrixFactory,
                 "yang": DenseYangCoancestryMatrixFactory, "gw": DenseGeneralizedWeightedCoancestryMatrixFactory},
    }


def _fl(x):
    return float(Fraction(x))


def _arg(kind_value, form=None):
    """case encoding of p_anc / mkrwt (None | scalar | list) -> python argument.
    form "int": integer-valued arguments are passed as int64 arrays / Python ints; "np": numpy.float64 scalars;
    "strided": arrays are non-contiguous views into a wider buffer; "readonly": arrays are not writeable (a
    routine that works on its argument in place raises instead of silently changing the caller's data)"""
    if kind_value is None:
        return None
    if isinstance(kind_value, list):
        if form == "int" and all(Fraction(v).denominator == 1 for v in kind_value):
            return numpy.array([int(Fraction(v)) for v in kind_value], dtype="int64")
        a = numpy.array([_fl(v) for v in kind_value], dtype="float64")
        if form == "strided":
            big = numpy.full(3 * len(a) + 2, 0.5, dtype="float64")
            big[1::3][:len(a)] = a
            return big[1::3][:len(a)]
        if form == "readonly":
            a.setflags(write=False)
        return a
    if form == "int" and Fraction(kind_value).denominator == 1:
        return int(Fraction(kind_value))
    if form == "np":
        return numpy.float64(_fl(kind_value))
    return _fl(kind_value)


def _layout(a, how, junk=7):
    """the same values in another memory layout: Fortran order, or a non-contiguous view into a wider buffer
    whose gaps hold other numbers"""
    if how == "F":
        return numpy.asfortranarray(a)
    if how == "strided":
        big = numpy.full(a.shape[:-1] + (2 * a.shape[-1] + 1,), junk, dtype=a.dtype)
        big[..., 1::2] = a
        return big[..., 1::2]
    return a


def _finite(x):
    """True when the encoded value contains no nan/inf marker"""
    if isinstance(x, str):
        return x not in ("nan", "inf", "-inf")
    if isinstance(x, list):
        return all(_finite(v) for v in x)
    if isinstance(x, dict):
        return all(_finite(v) for v in x.values())
    return True


def _scale(x):
    """largest absolute value in an encoded (nested) numeric value, at least 1"""
    d = canon.dec(x)
    best = Fraction(1)
    stack = [d]
    while stack:
        v = stack.pop()
        if isinstance(v, list):
            stack.extend(v)
        elif isinstance(v, Fraction):
            best = max(best, abs(v))
    return float(best)


def _scale0(x):
    """largest absolute value in an encoded (nested) numeric value (0 for an all-zero value)"""
    d = canon.dec(x)
    best = Fraction(0)
    stack = [d]
    while stack:
        v = stack.pop()
        if isinstance(v, list):
            stack.extend(v)
        elif isinstance(v, Fraction):
            best = max(best, abs(v))
    return float(best)


def _close(a, b, scale, rel=1e-9):
    """tolerant comparison of two encoded values; absolute slack proportional to the matrix scale"""
    return canon.close_enc(a, b, rel=rel, abs_=1e-11 * scale)


def _summaries(c, symmetric, extras=False):
    """every summary of a coancestry object, both formats.  `extras`: the rarely used argument forms too
    (negative / tuple axes, positional arguments, other spellings of the format string, an explicit accumulator
    dtype, an explicit eigenvalue tolerance).  Every call is a read: the matrix held by the object is compared
    with what it was before the first call after each of them (`touched` names the calls that changed it)."""
    out = {}
    n = c.mat.shape[0]
    held = c.mat.copy()
    touched = []

    def read(name, value):
        if not (c.mat.shape == held.shape and numpy.array_equal(c.mat, held, equal_nan=True)):
            if len(touched) < 4:
                touched.append(name)
            if c.mat.shape == held.shape:
                held[...] = c.mat                    # report every call once, not the same damage again
        return value

    for fmt, key in (("coancestry", "co"), ("kinship", "kin")):
        alt = "Coancestry" if fmt == "coancestry" else "KINSHIP"
        s = {"mat": canon.enc(read(key + ".mat_asformat", c.mat_asformat(fmt)))}
        for name in ("max", "min", "mean"):
            f = getattr(c, name)
            s[name] = {"all": canon.enc(read(f"{key}.{name}", f(format=fmt))),
                       "cols": canon.enc(read(f"{key}.{name}(axis=0)", f(format=fmt, axis=0))),
                       "rows": canon.enc(read(f"{key}.{name}(axis=1)", f(format=fmt, axis=1)))}
            if extras:
                s[name]["x"] = {"rows": canon.enc(f(format=fmt, axis=-1)), "cols": canon.enc(f(format=fmt, axis=-2)),
                                "all": canon.enc(f(format=fmt, axis=(0, 1))),
                                "all_rev": canon.enc(f(fmt, (1, 0))),
                                "all_alt": canon.enc(f(alt)), "rows_alt": canon.enc(f(alt, 1)),
                                "cols_alt": canon.enc(f(alt.swapcase(), axis=0))}
                if name == "mean":
                    s[name]["x"]["all_f64"] = canon.enc(f(fmt, None, numpy.float64))
                    s[name]["x"]["cols_f64"] = canon.enc(f(format=fmt, axis=0, dtype="float64"))
                    s[name]["x"]["rows_ld"] = canon.enc(numpy.asarray(f(fmt, 1, numpy.longdouble), dtype="float64"))
                read(f"{key}.{name}(argument forms)", None)
        s["max_inb"] = canon.enc(read(key + ".max_inbreeding", c.max_inbreeding(format=fmt)))
        try:
            s["inv"] = canon.enc(c.inverse(format=fmt)) if n <= INV_MAX_N else None
        except numpy.linalg.LinAlgError:
            s["inv"] = None
        read(key + ".inverse", None)
        try:
            s["min_inb"] = canon.enc(c.min_inbreeding(format=fmt)) if n <= INV_MAX_N else None
        except numpy.linalg.LinAlgError:
            s["min_inb"] = None
        read(key + ".min_inbreeding", None)
        # a singular / ill-conditioned matrix may give inf or nan here without LinAlgError; the Spec only
        # looks at these two on well-conditioned matrices, where "absent" counts as a failure
        for key2 in ("inv", "min_inb"):
            if not _finite(s[key2]):
                s[key2] = None
                s[key2 + "_nonfinite"] = True
        if extras:
            x = {"mat": canon.enc(c.mat_asformat(alt)), "max_inb": canon.enc(c.max_inbreeding(alt))}
            for nm, call in (("inv", lambda: c.inverse(alt)), ("min_inb", lambda: c.min_inbreeding(alt))):
                try:
                    x[nm] = canon.enc(call()) if n <= INV_MAX_N else None
                except numpy.linalg.LinAlgError:
                    x[nm] = None
                if not _finite(x[nm]):
                    x[nm] = None
            s["x_fmt"] = x
            read(key + ".(format spelled " + alt + ")", None)
        if symmetric and fmt == "coancestry":
            s["is_psd"] = bool(read("is_positive_semidefinite", c.is_positive_semidefinite()))
            if extras and n <= 12:
                s["is_psd_tol"] = [{"tol": canon.enc(t), "ans": bool(c.is_positive_semidefinite(_fl(t)))}
                                   for t in PSD_TOLS]
                read("is_positive_semidefinite(tol)", None)
        out[key] = s
    out["touched"] = touched
    return out


INV_MAX_N = 16                       # the exact Gauss-Jordan reference is only run up to this size (Drv: invMaxN)
PSD_TOLS = (Fraction(-1), Fraction(1, 2), Fraction(1, 2 ** 20))


def _extras_bad(s):
    """the argument forms that must give what the plain forms give (two outputs of the implementation compared
    with each other): names of the ones that differ; plus the reading calls that changed the matrix held"""
    bad = []
    sc = None
    for key in ("co", "kin"):
        for name in ("max", "min", "mean"):
            x = s[key][name].get("x")
            if x is None:
                continue
            if sc is None:
                sc = _scale0(s["co"]["mat"])
            rel = 1e-12 if name == "mean" else 0.0
            for form, plain in (("rows", "rows"), ("cols", "cols"), ("all", "all"), ("all_rev", "all"),
                                ("all_alt", "all"), ("rows_alt", "rows"), ("cols_alt", "cols"),
                                ("all_f64", "all"), ("cols_f64", "cols"), ("rows_ld", "rows")):
                if form not in x:
                    continue
                a, b = x[form], s[key][name][plain]
                if form == "rows_ld":                # another accumulator: rounding differs (row sums may cancel)
                    same = canon.close_enc(a, b, rel=rel, abs_=1e-12 * sc)
                elif form.endswith("_f64"):          # float64 is the default accumulator: the same computation
                    same = a == b
                else:
                    same = (a == b) if rel == 0.0 else canon.close_enc(a, b, rel=rel, abs_=0.0)
                if not same:
                    bad.append(f"{key}.{name}.argument_form_{form}")
        xf = s[key].get("x_fmt")
        if xf is not None:
            if xf["mat"] != s[key]["mat"]:
                bad.append(f"{key}.mat_asformat.format_spelling")
            if xf["max_inb"] != s[key]["max_inb"]:
                bad.append(f"{key}.max_inbreeding.format_spelling")
            for nm in ("inv", "min_inb"):
                a, b = xf[nm], s[key][nm]
                if (a is None) != (b is None) or (a is not None and not canon.close_enc(a, b, rel=1e-12, abs_=0.0)):
                    bad.append(f"{key}.{nm}.format_spelling")
    bad += [f"object_modified_by_reading_it({t})" for t in s.get("touched", [])]
    return bad


def _err_tag(e):
    if isinstance(e, ZeroDivisionError):
        return "zerodiv"
    if isinstance(e, RuntimeError):
        return "ploidy"
    if isinstance(e, ValueError):
        return "value"
    if isinstance(e, TypeError):
        return "type"
    return "other:" + type(e).__name__


_MODEL_TAG = {"shape": "value", "range": "value"}


class ImplementationCrashed(RuntimeError):
    """the interpreter running the implementation died (e.g. a segmentation fault inside LAPACK)"""


class _Isolated:
    """Runs the implementation calls of one batch of cases in a forked child process, so that a changed tree
    that takes the interpreter down on a valid input (a segmentation fault inside a native routine, `os._exit`,
    an abort) ends as a failing input with a replay instead of killing the check.  The child is forked from the
    checking process (pybrops already imported, in-memory mutants already applied), receives the cases one at a
    time over a pipe and returns the pickled observation (or the exception).  One child serves one batch: it is
    dismissed when the batch is judged (`end_batch`) or when the set of patched attributes changed."""

    def __init__(self, fn, fingerprint):
        self.fn, self.fingerprint = fn, fingerprint
        self.pid = None
        self.print_ = None
        self.to_child = self.from_child = None

    def _spawn(self):
        import os
        import pickle
        import signal
        import sys
        import traceback
        sys.stdout.flush()
        sys.stderr.flush()
        c_r, p_w = os.pipe()
        p_r, c_w = os.pipe()
        pid = os.fork()
        if pid == 0:                                   # ---- child
            code = 0
            try:
                os.close(p_w)
                os.close(p_r)
                signal.setitimer(signal.ITIMER_REAL, 0)
                signal.signal(signal.SIGALRM, signal.SIG_DFL)
                fin, fout = os.fdopen(c_r, "rb"), os.fdopen(c_w, "wb")
                while True:
                    try:
                        case = pickle.load(fin)
                    except EOFError:
                        break
                    try:
                        res = ("ok", self.fn(case))
                    except Exception as e:
                        tb = traceback.format_exc()
                        try:
                            pickle.dumps(e)
                            res = ("exc", e, tb)
                        except Exception:
                            res = ("exc", RuntimeError(f"{type(e).__name__}: {e}"), tb)
                    pickle.dump(res, fout, protocol=pickle.HIGHEST_PROTOCOL)
                    fout.flush()
            except BaseException:
                code = 3
            finally:
                os._exit(code)
        os.close(c_r)
        os.close(c_w)
        self.pid = pid
        self.print_ = self.fingerprint()
        self.to_child, self.from_child = os.fdopen(p_w, "wb"), os.fdopen(p_r, "rb")

    def end_batch(self, kill=False):
        import os
        import signal
        if self.pid is None:
            return None
        pid, self.pid = self.pid, None
        for f in (self.to_child, self.from_child):
            try:
                f.close()
            except Exception:
                pass
        if kill:
            try:
                os.kill(pid, signal.SIGKILL)
            except OSError:
                pass
        try:
            return os.waitpid(pid, 0)[1]
        except OSError:
            return None

    CPU_LIMIT = 240.0          # seconds of CPU time the child may spend on ONE case (machine load does not count)
    WALL_LIMIT = 3600.0        # backstop for a child that sleeps / blocks

    def _child_cpu(self):
        import os
        try:
            with open(f"/proc/{self.pid}/stat") as f:
                parts = f.read().rsplit(")", 1)[1].split()
            return (int(parts[11]) + int(parts[12])) / float(os.sysconf("SC_CLK_TCK"))
        except Exception:
            return None

    def _wait_for_answer(self):
        """block until the child has written (or died); a changed tree that loops forever on a valid input ends as
        a failing input: the budget is the child's own CPU time, with a wall-clock backstop"""
        import select
        import time
        fd = self.from_child.fileno()
        start_cpu = self._child_cpu()
        t0 = time.time()
        while True:
            r, _, _ = select.select([fd], [], [], 2.0)
            if r:
                return
            cpu = self._child_cpu()
            used = None if cpu is None or start_cpu is None else cpu - start_cpu
            if (used is not None and used > self.CPU_LIMIT) or time.time() - t0 > self.WALL_LIMIT:
                self.end_batch(kill=True)
                raise TimeoutError(f"implementation did not return within {self.CPU_LIMIT:.0f} s of CPU time "
                                   f"({time.time() - t0:.0f} s wall) on this input")

    def call(self, case):
        import pickle
        import signal
        if self.pid is not None and self.print_ != self.fingerprint():
            self.end_batch()
        if self.pid is None:
            self._spawn()
        try:
            pickle.dump(case, self.to_child, protocol=pickle.HIGHEST_PROTOCOL)
            self.to_child.flush()
            self._wait_for_answer()
            res = pickle.load(self.from_child)
        except (EOFError, BrokenPipeError, pickle.UnpicklingError):
            status = self.end_batch()
            sig = status & 0x7f if status is not None else None
            try:
                name = signal.Signals(sig).name if sig else f"exit status {status}"
            except ValueError:
                name = f"signal {sig}"
            raise ImplementationCrashed(f"the interpreter died inside the implementation ({name}) on this input")
        except BaseException:                          # deadline of the core, KeyboardInterrupt: the child is stuck
            self.end_batch(kill=True)
            raise
        if res[0] == "ok":
            return res[1]
        e = res[1]
        e.child_traceback = res[2]
        raise e


class C13(Prop):
    PID = "C13"
    MODULE = "PybropsModel.Props.C13"
    N_QUICK = 300
    N_THOROUGH = 1500
    RULE = ("genotype matrices (phased 0/1 alleles or unphased counts, ploidy 1 or 2, 1-9 taxa x 1-16 markers plus "
            "the sizes 49/98/103/107, pairwise distinct taxa forced, >= 1 polymorphic marker where the formula "
            "needs it; C / Fortran / strided memory layout; a fully heterozygous and a partly inbred taxon) x "
            "estimator (molecular, VanRaden, Yang, generalised weighted; class method, factory or a user subclass) x "
            "reference frequencies (estimated / dyadic scalar / dyadic array incl. exact 0 and 1 where allowed, "
            "2^-17, 2^-27, 2^-40 and their complements; float64 arrays, int64 arrays, Python ints, numpy scalars) x "
            "marker weights (none / scalar / non-negative array with zeros, 2^-40 ... 2^20) x taxa permutation or "
            "unsorted subset; accessors with negative / slice / list / boolean-mask indices; "
            "many-marker cases (128 ... 1000 markers, and 1025 / 1500 / 2049 / 2600 / 4097 / 4100 / 5000: not a "
            "multiple of 1024 or 4096; 2-4 inbred / highly homozygous or haploid lines sharing >= 128 identical loci, "
            "all four estimators, estimated and supplied frequencies); many-taxa cases (130, 257, 1030 taxa, column "
            "totals past 127 / 255; judged against an independent numpy evaluation); "
            "plus arbitrary (asymmetric, diagonally dominant or indefinite) square matrices for the summaries, with "
            "entries 25000 + k/4, 1e9 +- 1/2, of size 2^-27, exact ties, eigenvalues +-2^-17, 49-130 taxa with the "
            "unique extremes on the diagonal / in a corner, negative and tuple axes, explicit eigenvalue tolerances; "
            "grouped sources (`group_taxa()` before `from_gmat`: the sorted order and the four metadata arrays are "
            "read back from the source and must reappear on the result); "
            "histories on ONE object (summaries, then element assignment through `.mat`, diagonal increment, an "
            "`apply_jitter` that fires, re-assignment of `.mat`, reorder / sort / group (generic and `_taxa` forms), "
            "or overwriting an array a read-only method returned; then all summaries again, Spec on every round); "
            "histories over SEVERAL objects computed from one genotype matrix (one of them re-ordered / sorted / "
            "grouped / sub-selected / written to, or the genotype matrix re-ordered or edited in place: every other "
            "object must be untouched, and a matrix computed afterwards must be that of the data then held); "
            "round 4: taxa index lists written relative to the end (negative entries) for `select_taxa` / `reorder_taxa` / "
            "`reorder` of the relationship matrix and of the genotype matrix; the genotype matrix sorted / grouped in "
            "place between two computations; reference frequencies / weights that need all 53 bits of the double "
            "(0.1, 0.3, 1/3, 0.7, 0.9, 2.3, 17.1), handed over as strided views or read-only arrays; every summary call "
            "is checked to leave the matrix held untouched (Fortran-ordered and freshly re-ordered objects included), "
            "format strings in other spellings, positional arguments, an explicit accumulator dtype for `mean`; "
            "inverse / minimum inbreeding of well-conditioned matrices of 17-96 taxa (residual A.inv = I and an "
            "independent linear solve); the implementation runs in a forked child so that an interpreter crash on a "
            "valid input is reported with that input; "
            "and a stream of inputs that must be rejected.  Non-trivial = cmat case with >= 2 distinct taxa, >= 2 "
            "markers and a polymorphic marker, summary case with >= 2 taxa, a history that changes something")
    TRUSTED = [
        "numpy.linalg.inv / eigvals entered through their contracts (A·A⁻¹ = I re-checked by the Spec oracle on "
        "every well-conditioned case of at most 16 taxa against an exact Gauss–Jordan inverse; "
        "is_positive_semidefinite(tol) True ⇒ exact test of A − tol·I ⪰ 0 up to rounding, clearly above ⇒ True; "
        "at most 50 taxa)",
        "BLAS matrix products abstracted as exact sums (tolerance 1e-9 relative to the largest entry)",
        "Float.sqrt of Lean = IEEE sqrt (only used by the op c13.yang_float)",
        "numpy element-wise arithmetic and outer products (the independent evaluation of the many-taxa cases, "
        "one marker at a time, integers where the formula allows it)",
        "numpy.linalg.solve and matrix products (the residual / minimum-inbreeding reference of the `biginv` cases, "
        "17-96 taxa, strictly diagonally dominant matrices)",
        "os.fork / pickle: the implementation calls of a batch run in a forked child of the checking process",
    ]
    ASSUMPTIONS = [
        "allele frequencies / weights are dyadic rationals, genotypes small integers: float results within 1e-9 "
        "of the exact rational value",
        "inverse-based summaries are compared only where n·max|A|·max|A⁻¹| <= 1e4 (well conditioned) and n <= 16",
        "taxa selections have distinct in-range indices (permutations and subsets), non-negative or end-relative",
        "sort / group histories use pairwise distinct taxon names, so the sorted order is determined by the keys",
        "apply_jitter is modelled with its oracle inputs recorded on the run: the uniform vectors (a RandomState "
        "clone seeded like the global stream) and the verdicts of is_positive_semidefinite (instance-level "
        "recorder); model matrix and flag are compared with the object (correspondence; the property text does "
        "not speak about jitter, so the Spec only demands that the summaries recomputed afterwards are those of "
        "the matrix now held)",
        "file / data-frame round trips of coancestry matrices are C16's subject and are not repeated here",
    ]

    # ------------------------------------------------------------------ generation
    def corpus(self):
        import random
        rng = random.Random(128)
        many = [self._bigm_case(rng, method=meth, m=mm, ploidy=pl)
                for meth in METHODS for mm, pl in ((128, 2), (129, 1), (300, 2))]
        many.append(self._bigm_case(rng, method="mol", m=1000, ploidy=2))
        # two identical fully homozygous diploid lines over exactly 128 markers: X X' = 128 on every entry
        many.append({"kind": "cmat", "method": "mol", "via": "class", "ploidy": 2, "phased": False, "n": 2,
                     "m": 128, "geno": [[2] * 128, [2] * 127 + [0]], "taxa": ["inbred_a", "inbred_b"],
                     "taxa_grp": None, "p": None, "w": None, "sel": [1, 0]})
        many.append({"kind": "cmat", "method": "mol", "via": "class", "ploidy": 1, "phased": True, "n": 2,
                     "m": 200, "geno": [[[1] * 200, [1] * 150 + [0] * 50]], "taxa": None,
                     "taxa_grp": None, "p": None, "w": None, "sel": None})
        edits = [
            {"kind": "edit", "seed": 1, "src": "mat", "cls": "mol", "mat": [[2, 1], [1, 2]], "taxa": ["a", "b"],
             "edits": [{"op": "set", "i": 0, "j": 1, "v": 0, "mirror": True}, {"op": "add_diag", "v": 2}]},
            {"kind": "edit", "seed": 2, "src": "gmat", "method": "vr", "via": "class", "ploidy": 2,
             "phased": False, "n": 3, "m": 2, "geno": [[1, 2], [2, 1], [0, 0]], "taxa": ["x", "y", "z"],
             "taxa_grp": None, "p": None, "w": None, "sel": None,
             "edits": [{"op": "jitter", "tol": "1/1000000", "lo": "1/2", "hi": 1}]},
        ]
        grouped = [
            # unsorted groups and names: group_taxa() reorders the taxa; metadata name [1,2] stix [0,2] spix [2,3]
            {"kind": "cmat", "method": "mol", "via": "class", "ploidy": 2, "phased": False, "n": 3, "m": 2,
             "geno": [[0, 0], [1, 2], [2, 1]], "taxa": ["c", "b", "a"], "taxa_grp": [2, 1, 1], "p": None,
             "w": None, "sel": [2, 0], "grouped": True},
            {"kind": "cmat", "method": "vr", "via": "factory", "ploidy": 2, "phased": True, "n": 4, "m": 3,
             "geno": [[[0, 1, 1], [1, 1, 0], [0, 0, 0], [1, 0, 1]], [[1, 1, 0], [0, 1, 0], [0, 1, 0], [1, 1, 1]]],
             "taxa": ["t3", "t1", "t0", "t2"], "taxa_grp": [5, 3, 5, 3], "p": None, "w": None, "sel": None,
             "grouped": True},
            {"kind": "cmat", "method": "gw", "via": "class", "ploidy": 1, "phased": False, "n": 3, "m": 2,
             "geno": [[1, 0], [0, 0], [1, 1]], "taxa": None, "taxa_grp": [9, 9, 4], "p": "1/2", "w": [1, 2],
             "sel": [1, 2, 0], "grouped": True},
            {"kind": "cmat", "method": "yang", "via": "class", "ploidy": 2, "phased": False, "n": 3, "m": 2,
             "geno": [[1, 2], [2, 1], [0, 0]], "taxa": ["x", "y", "z"], "taxa_grp": [1, 0, 1], "p": ["1/2", "1/4"],
             "w": None, "sel": None, "grouped": True},
        ]
        edits += [
            {"kind": "edit", "seed": 3, "src": "gmat", "method": "vr", "via": "class", "ploidy": 2,
             "phased": False, "n": 2, "m": 2, "geno": [[1, 2], [2, 0]], "taxa": None, "taxa_grp": None, "p": None,
             "w": None, "sel": None,
             "edits": [{"op": "jitter", "tol": "3/4", "lo": "1/2", "hi": 1, "nattempt": 20}]},
            {"kind": "edit", "seed": 4, "src": "gmat", "method": "yang", "via": "factory", "ploidy": 2,
             "phased": False, "n": 3, "m": 2, "geno": [[1, 2], [2, 1], [0, 0]], "taxa": None, "taxa_grp": None,
             "p": None, "w": None, "sel": None,
             "edits": [{"op": "jitter", "tol": 100, "lo": "1/8", "hi": "1/4", "nattempt": 3},
                       {"op": "add_diag", "v": 1}]},
            {"kind": "edit", "seed": 5, "src": "mat", "cls": "gw", "mat": [[2, 1], [1, 2]], "taxa": None,
             "edits": [{"op": "jitter", "tol": "1/1000000", "lo": "1/2", "hi": 1, "nattempt": 100},
                       {"op": "jitter", "tol": 3, "lo": "1/2", "hi": 1, "nattempt": 20}]},
            # tiny magnitudes (2^-1000): halving stays exact far below 1 (no underflow down to 2^-1021)
            {"kind": "summ", "cls": "mol", "mat": [[f"3/{2 ** 1000}", f"1/{2 ** 1000}"],
                                                   [f"1/{2 ** 1000}", f"5/{2 ** 1000}"]], "taxa": None},
        ]
        return (self._fixed_corpus() + [self._big_case()] + many + grouped + edits + self._round3_corpus()
                + self._round4_corpus())

    def _round4_corpus(self):
        """round 4: end-relative (negative) taxa indices in every place that takes an index list; summaries of
        Fortran-ordered / re-ordered objects read twice (a read must not change the object); singular matrices
        in Fortran order (native solvers); format strings in other spellings; more taxa than the exact inverse
        oracle handles"""
        base = {"ploidy": 2, "phased": False, "n": 4, "m": 3,
                "geno": [[0, 1, 2], [2, 2, 0], [1, 0, 1], [2, 1, 1]], "taxa": ["d", "b", "a", "c"],
                "taxa_grp": [1, 0, 1, 0]}
        out = []
        for meth, p, w, sel in (("mol", None, None, [-3, -2, -1]), ("vr", "1/4", None, [0, -1]),
                                ("yang", ["1/2", "1/4", "3/8"], None, [-1, 1, -4]),
                                ("gw", [0, "1/2", 1], [1, 0, 2], [-2, 3, 0, -3])):
            out.append({"kind": "cmat", "method": meth, "via": "class", **base, "p": p, "w": w, "sel": sel,
                        "accforms": True})
        out.append({"kind": "cmat", "method": "mol", "via": "factory", "ploidy": 1, "phased": True, "n": 3, "m": 3,
                    "geno": [[[0, 1, 1], [1, 1, 0], [0, 0, 0]]], "taxa": ["a", "b", "c"], "taxa_grp": [3, 3, 1],
                    "p": None, "w": None, "sel": [-1, -3]})
        # arguments that need the full double mantissa; read-only and strided argument arrays
        f = lambda x: canon.enc(Fraction(x))
        out += [
            {"kind": "cmat", "method": "gw", "via": "class", **base, "p": [f(0.3), f(0.1), f(0.7)], "w": f(0.1),
             "sel": [2, -1]},
            {"kind": "cmat", "method": "gw", "via": "factory", **base, "p": f(1.0 / 3.0), "w": [f(2.3), f(0.1), 0],
             "sel": [1, 0], "argform": "readonly"},
            {"kind": "cmat", "method": "vr", "via": "class", **base, "p": [f(0.1), f(0.9), "1/2"], "w": None,
             "sel": [3, 1, 0], "argform": "readonly"},
            {"kind": "cmat", "method": "yang", "via": "class", **base, "p": [f(0.3), "1/4", f(0.7)], "w": None,
             "sel": [0, -2], "argform": "strided"},
            {"kind": "cmat", "method": "vr", "via": "subclass", **base, "p": f(0.3), "w": None, "sel": None,
             "argform": "np"},
        ]
        half = {"p": "1/2", "w": None}
        out.append({"kind": "alias", **base, "grouped": False,
                    "objs": [{"method": "vr", "via": "class", **half}, {"method": "mol", "via": "class", "p": None, "w": None}],
                    "ops": [{"on": 0, "op": "select_taxa", "perm": [-1, 0]},
                            {"on": 1, "op": "select_taxa", "perm": [-3, -2, -1]},
                            {"on": 1, "op": "reorder_taxa", "perm": [-1, 0, -2, 1]},
                            {"on": "gmat", "op": "reorder_taxa", "perm": [-4, 3, -2, 1]}],
                    "late": {"method": "yang", "via": "factory", **half}})
        # one object: re-ordered (numpy lays the result out in Fortran order), then every summary twice
        out += [
            {"kind": "edit", "seed": 8, "src": "mat", "cls": "mol", "mat": [[2, 1, 0], [1, 3, 1], [0, 1, 4]],
             "taxa": ["c", "a", "b"], "taxa_grp": [1, 0, 1],
             "edits": [{"op": "reorder", "perm": [-1, 0, 1], "how": "reorder_taxa"}, {"op": "read"},
                       {"op": "sort", "how": "sort_taxa"}, {"op": "read"}]},
            {"kind": "edit", "seed": 9, "src": "gmat", "method": "vr", "via": "class", **base, **half, "sel": None,
             "edits": [{"op": "add_diag", "v": 1}, {"op": "reorder", "perm": [3, -3, 0, 2], "how": "reorder", "axis": 0},
                       {"op": "read"}, {"op": "group", "how": "group_taxa"}, {"op": "read"}]},
        ]
        # Fortran-ordered and strided inputs: singular, nearly singular, well conditioned
        for mat, lay in (([[1, 1], [1, 1]], "F"), ([[2, 1], [1, 2]], "F"), ([[4, 2, 2], [2, 1, 1], [2, 1, 3]], "F"),
                         ([[0, 0], [0, 0]], "F"), ([[3, 1, 0], [1, 3, 1], [0, 1, 3]], "strided")):
            out.append({"kind": "summ", "cls": "vr", "mat": mat, "taxa": None, "extras": True, "layout": lay})
        # inverse / minimum inbreeding past the size of the exact oracle (17, 33, 65, 130 taxa)
        for nn, sd in ((17, 1), (33, 2), (65, 3), (96, 4)):
            out.append({"kind": "biginv", "n": nn, "seed": sd, "cls": "gw", "layout": "F" if nn == 33 else None})
        return out

    def _round3_corpus(self):
        """round 3: sizes past 1024 / 4096 markers and 127 / 1024 taxa, magnitudes near tolerances, rarely used
        argument forms, histories over several objects computed from one genotype matrix"""
        import random
        rng = random.Random(1024)
        out = []
        # marker counts that are not a multiple of 1024 (a blocked accumulation must not lose the remainder)
        for meth, mm, pl in (("gw", 1500, 2), ("gw", 1025, 1), ("vr", 1500, 2), ("yang", 1025, 2), ("mol", 2049, 2),
                             ("mol", 1500, 1), ("gw", 4100, 2), ("mol", 5000, 2), ("vr", 4097, 1), ("mol", 4100, 1),
                             ("yang", 4099, 2)):
            out.append(self._bigm_case(rng, method=meth, m=mm, ploidy=pl, n=2))
        # more taxa than 127 / 255 / 1024
        for meth, nn in (("mol", 130), ("vr", 130), ("yang", 257), ("gw", 130), ("mol", 1030), ("gw", 1030),
                         ("vr", 1030)):
            out.append(self._bign_case(rng, n=nn, method=meth))
        base = {"ploidy": 2, "phased": False, "n": 4, "m": 3,
                "geno": [[0, 1, 2], [2, 2, 0], [1, 0, 1], [2, 1, 1]], "taxa": ["d", "b", "a", "c"],
                "taxa_grp": [1, 0, 1, 0]}
        half = {"p": "1/2", "w": None}
        # VanRaden / Yang keep the label arrays of the source by reference: re-ordering one object must not
        # re-label its siblings, the genotype matrix, or what is computed from it later
        out.append({"kind": "alias", **base, "grouped": False,
                    "objs": [{"method": "vr", "via": "class", **half}, {"method": "yang", "via": "class", **half}],
                    "ops": [{"on": 0, "op": "reorder_taxa", "perm": [2, 0, 3, 1]}],
                    "late": {"method": "mol", "via": "class", "p": None, "w": None}})
        out.append({"kind": "alias", **base, "grouped": True,
                    "objs": [{"method": "yang", "via": "factory", **half}, {"method": "vr", "via": "subclass", **half},
                             {"method": "gw", "via": "class", "p": None, "w": [1, 2, 0]}],
                    "ops": [{"on": 1, "op": "sort_taxa"}, {"on": 0, "op": "group", "axis": 0},
                            {"on": 2, "op": "select_taxa", "perm": [3, 1]},
                            {"on": "gmat", "op": "reorder_taxa", "perm": [1, 0, 3, 2]},
                            {"on": 0, "op": "set", "i": 0, "j": 2, "v": "9/4"}],
                    "late": {"method": "vr", "via": "class", **half}})
        # the genotype data edited in place between two computations with sample-estimated frequencies
        out.append({"kind": "alias", **base, "grouped": False,
                    "objs": [{"method": "yang", "via": "class", "p": None, "w": None},
                             {"method": "vr", "via": "factory", "p": None, "w": None}],
                    "ops": [{"on": "gmat", "op": "gset", "i": 0, "j": 3}],
                    "late": {"method": "yang", "via": "class", "p": None, "w": None}})
        out.append({"kind": "alias", **base, "grouped": False,
                    "objs": [{"method": "gw", "via": "class", "p": None, "w": None},
                             {"method": "mol", "via": "factory", "p": None, "w": None}],
                    "ops": [{"on": "gmat", "op": "gset", "i": 2, "j": 1}, {"on": 0, "op": "sort_taxa"}],
                    "late": {"method": "vr", "via": "class", "p": None, "w": None}})
        # reference frequencies / weights that a tolerance would round to 0 or 1
        tiny = [f"1/{2 ** 27}", f"{2 ** 17 - 1}/{2 ** 17}", "1/2"]
        tiny2 = [f"1/{2 ** 40}", "1/4", f"{2 ** 40 - 1}/{2 ** 40}"]
        for meth in ("vr", "yang", "gw"):
            out.append({"kind": "cmat", "method": meth, "via": "class", **base, "p": tiny,
                        "w": [f"1/{2 ** 30}", str(2 ** 20), 1] if meth == "gw" else None, "sel": [3, 0, 2],
                        "accforms": True})
            out.append({"kind": "cmat", "method": meth, "via": "factory", **base, "p": tiny2,
                        "w": [f"1/{2 ** 40}", 1, f"1/{2 ** 17}"] if meth == "gw" else None, "sel": [1, 3]})
        for meth in ("vr", "yang"):
            out.append({"kind": "cmat", "method": meth, "via": "class", **base, "p": f"1/{2 ** 40}", "w": None,
                        "sel": [2, 1, 0, 3]})
        out.append({"kind": "cmat", "method": "gw", "via": "factory", **base, "p": [0, 1, 1], "w": [2, 0, 3],
                    "sel": [1, 2], "argform": "int", "layout": "F", "accforms": True})
        out.append({"kind": "cmat", "method": "mol", "via": "subclass", "ploidy": 2, "phased": True, "n": 3, "m": 2,
                    "geno": [[[0, 1], [1, 1], [0, 0]], [[1, 1], [0, 1], [0, 0]]], "taxa": ["a", "b", "c"],
                    "taxa_grp": [2, 1, 2], "p": None, "w": None, "sel": [2, 0], "layout": "strided", "accforms": True})
        out.append({"kind": "cmat", "method": "vr", "via": "class", **base, "p": "1/4", "w": None,
                    "sel": None, "argform": "np", "layout": "strided"})
        # summaries: magnitudes, sizes, layouts, argument forms
        e = 2 ** 17
        out += [
            {"kind": "summ", "cls": "vr", "mat": [[1, f"{e - 1}/{e}"], [f"{e - 1}/{e}", 1]], "taxa": None, "extras": True},
            {"kind": "summ", "cls": "vr", "mat": [[1, f"{e + 1}/{e}"], [f"{e + 1}/{e}", 1]], "taxa": None, "extras": True},
            {"kind": "summ", "cls": "mol", "mat": [[25000, "100001/4"], ["100001/4", "50001/2"]], "taxa": None,
             "extras": True, "layout": "F"},
            {"kind": "summ", "cls": "gw", "mat": [["2000000001/2", 10 ** 9], ["1999999999/2", 10 ** 9]], "taxa": ["a", "b"],
             "extras": True, "layout": "strided"},
            {"kind": "summ", "cls": "yang", "mat": [[3, 3, 3], [3, 3, 3], [3, 3, 3]], "taxa": None, "extras": True},
        ]
        big = random.Random(103)
        A = [[big.randint(-3, 3) for _ in range(103)] for _ in range(103)]
        A = [[A[min(i, j)][max(i, j)] for j in range(103)] for i in range(103)]
        A[40][40] = -5                                   # the unique minimum on the diagonal,
        A[0][102] = A[102][0] = 7                        # the unique maximum in a corner
        out.append({"kind": "summ", "cls": "mol", "mat": A, "taxa": None, "extras": True})
        # one object: summaries, then re-binding / re-ordering / an overwritten returned array, summaries again
        out += [
            {"kind": "edit", "seed": 6, "src": "mat", "cls": "vr", "mat": [[2, 1, 0], [1, 3, 1], [0, 1, 4]],
             "taxa": ["c", "a", "b"], "taxa_grp": [1, 0, 1],
             "edits": [{"op": "assign", "mat": [[5, 1, 1], [1, 4, 0], [1, 0, 3]]},
                       {"op": "reorder", "perm": [2, 0, 1], "how": "reorder_taxa"},
                       {"op": "mutate_view", "what": "co"}, {"op": "group", "how": "group_taxa"},
                       {"op": "mutate_view", "what": "select"}, {"op": "sort", "how": "sort", "axis": 0}]},
            {"kind": "edit", "seed": 7, "src": "gmat", "method": "yang", "via": "class", **base, **half, "sel": None,
             "edits": [{"op": "reorder", "perm": [3, 2, 1, 0], "how": "reorder", "axis": -2},
                       {"op": "add_diag", "v": 1}, {"op": "mutate_view", "what": "kin"},
                       {"op": "mutate_view", "what": "inv"}, {"op": "sort", "how": "sort_taxa"}]},
        ]
        return out

    @staticmethod
    def _big_case():
        """49 diploid taxa (ploidy·n = 98, where the reciprocal form of the frequency estimate was inexact),
        one fixed marker: estimated frequency exactly 1 there"""
        import random
        rng = random.Random(49)
        n, m = 49, 5
        X = [[rng.randint(0, 2) for _ in range(m)] for _ in range(n)]
        for r in X:
            r[0] = 2
        return {"kind": "cmat", "method": "vr", "via": "factory", "ploidy": 2, "phased": False, "n": n, "m": m,
                "geno": X, "taxa": [f"t{i:02d}" for i in range(n)], "taxa_grp": [i % 3 for i in range(n)],
                "p": None, "w": None, "sel": None}

    def _fixed_corpus(self):
        return [
            # the worked example of the non-vacuity `example`s in Props/C13.lean
            {"kind": "cmat", "method": "mol", "via": "class", "ploidy": 2, "phased": True, "n": 3, "m": 2,
             "geno": [[[0, 1], [1, 1], [0, 0]], [[1, 1], [0, 1], [0, 0]]], "taxa": ["a", "b", "c"],
             "taxa_grp": [2, 1, 2], "p": None, "w": None, "sel": [2, 0]},
            {"kind": "cmat", "method": "mol", "via": "factory", "ploidy": 1, "phased": True, "n": 3, "m": 3,
             "geno": [[[0, 1, 1], [1, 1, 0], [0, 0, 0]]], "taxa": ["a", "b", "c"], "taxa_grp": None,
             "p": None, "w": None, "sel": [1, 2, 0]},
            {"kind": "cmat", "method": "mol", "via": "class", "ploidy": 1, "phased": False, "n": 2, "m": 1,
             "geno": [[1], [0]], "taxa": None, "taxa_grp": None, "p": None, "w": None, "sel": [1]},
            {"kind": "cmat", "method": "vr", "via": "class", "ploidy": 2, "phased": False, "n": 3, "m": 2,
             "geno": [[1, 2], [1, 2], [0, 0]], "taxa": ["x", "y", "z"], "taxa_grp": [1, 1, 1], "p": "1/2",
             "w": None, "sel": [2, 1, 0]},
            {"kind": "cmat", "method": "vr", "via": "factory", "ploidy": 2, "phased": False, "n": 3, "m": 2,
             "geno": [[1, 2], [1, 2], [0, 0]], "taxa": ["x", "y", "z"], "taxa_grp": None, "p": [0, "1/4"],
             "w": None, "sel": [0, 2]},
            {"kind": "cmat", "method": "vr", "via": "class", "ploidy": 2, "phased": False, "n": 3, "m": 2,
             "geno": [[1, 2], [1, 2], [0, 0]], "taxa": ["x", "y", "z"], "taxa_grp": None, "p": None,
             "w": None, "sel": None},
            {"kind": "cmat", "method": "yang", "via": "class", "ploidy": 2, "phased": False, "n": 3, "m": 2,
             "geno": [[1, 2], [1, 2], [0, 0]], "taxa": ["x", "y", "z"], "taxa_grp": None, "p": None,
             "w": None, "sel": None},
            {"kind": "cmat", "method": "yang", "via": "factory", "ploidy": 1, "phased": True, "n": 2, "m": 2,
             "geno": [[[1, 0], [0, 0]]], "taxa": ["x", "y"], "taxa_grp": [5, 3], "p": ["1/2", "1/8"],
             "w": None, "sel": [1, 0]},
            {"kind": "cmat", "method": "gw", "via": "class", "ploidy": 2, "phased": False, "n": 3, "m": 2,
             "geno": [[1, 2], [1, 2], [0, 0]], "taxa": ["x", "y", "z"], "taxa_grp": None, "p": [0, 1],
             "w": [1, 2], "sel": [1, 0, 2]},
            {"kind": "cmat", "method": "gw", "via": "factory", "ploidy": 2, "phased": True, "n": 2, "m": 3,
             "geno": [[[1, 0, 1], [0, 0, 1]], [[1, 1, 0], [0, 1, 1]]], "taxa": None, "taxa_grp": None,
             "p": "1/4", "w": 0, "sel": [1]},
            # one taxon, one marker
            {"kind": "cmat", "method": "mol", "via": "class", "ploidy": 2, "phased": False, "n": 1, "m": 1,
             "geno": [[1]], "taxa": ["solo"], "taxa_grp": [7], "p": None, "w": None, "sel": [0]},
            # 49 markers: 1/49 is inexact in binary64
            {"kind": "cmat", "method": "mol", "via": "class", "ploidy": 2, "phased": False, "n": 2, "m": 49,
             "geno": [[2] * 49, [0] * 48 + [2]], "taxa": ["a", "b"], "taxa_grp": None, "p": None, "w": None,
             "sel": [1, 0]},
            {"kind": "summ", "cls": "mol", "mat": [[2, 1], [0, 3]], "taxa": ["a", "b"]},
            {"kind": "summ", "cls": "vr", "mat": [[4, 1, -1], [1, 3, 0], [-1, 0, 2]], "taxa": None},
            {"kind": "summ", "cls": "yang", "mat": [[1, 2], [2, 1]], "taxa": None},          # indefinite
            {"kind": "summ", "cls": "gw", "mat": [[1, 1], [1, 1]], "taxa": None},            # singular PSD
            {"kind": "summ", "cls": "mol", "mat": [["3/2"]], "taxa": ["a"]},
            {"kind": "reject", "method": "mol", "via": "class", "ploidy": 3, "phased": False, "n": 2, "m": 2,
             "geno": [[0, 3], [1, 2]], "taxa": None, "taxa_grp": None, "p": None, "w": None, "sel": None},
            {"kind": "reject", "method": "vr", "via": "class", "ploidy": 2, "phased": False, "n": 2, "m": 2,
             "geno": [[0, 2], [1, 2]], "taxa": None, "taxa_grp": None, "p": [0, 1], "w": None, "sel": None},
            {"kind": "reject", "method": "yang", "via": "class", "ploidy": 2, "phased": False, "n": 2, "m": 2,
             "geno": [[0, 2], [1, 2]], "taxa": None, "taxa_grp": None, "p": None, "w": None, "sel": None},
            {"kind": "reject", "method": "mol", "via": "class", "ploidy": 2, "phased": True, "n": 2, "m": 0,
             "geno": [[[], []], [[], []]], "taxa": None, "taxa_grp": None, "p": None, "w": None, "sel": None},
        ]

    TINY_P = [Fraction(1, 2 ** 27), Fraction(1, 2 ** 17), 1 - Fraction(1, 2 ** 27), 1 - Fraction(1, 2 ** 17),
              Fraction(1, 2 ** 40), 1 - Fraction(1, 2 ** 40)]
    TINY_W = [Fraction(1, 2 ** 30), Fraction(1, 2 ** 17), Fraction(2 ** 20), Fraction(0), Fraction(1), Fraction(1, 2 ** 40)]

    FULL53 = (0.1, 0.3, 1.0 / 3.0, 0.7, 0.9)

    @staticmethod
    def _dyadic(rng, lo_open=False):
        den = rng.choice([2, 4, 8, 16])
        num = rng.randint(1 if lo_open else 0, den - 1 if lo_open else den)
        return Fraction(num, den)

    def _geno(self, rng, ploidy, phased, n, m, all_poly):
        """tacount view with pairwise distinct taxa where possible, then the phased/unphased encoding"""
        X = [[rng.randint(0, ploidy) for _ in range(m)] for _ in range(n)]
        style = rng.random()
        if style < 0.15 and m >= 2:                       # a monomorphic marker (fixed allele)
            k = rng.randrange(m)
            v = rng.choice([0, ploidy])
            for r in X:
                r[k] = v
        elif style < 0.25 and n >= 2:                     # two identical taxa (singular matrix)
            X[rng.randrange(n)] = list(X[rng.randrange(n)])
        if style >= 0.25:
            seen = set()
            for r in X:                                   # make taxa pairwise distinct when m allows it
                tries = 0
                while tuple(r) in seen and tries < 20:
                    r[rng.randrange(m)] = rng.randint(0, ploidy)
                    tries += 1
                seen.add(tuple(r))
        poly = [len({r[k] for r in X}) > 1 or (0 < X[0][k] < ploidy) for k in range(m)]
        for k in range(m):
            need = all_poly or (k == 0 and not any(poly))
            if need and not poly[k] and not (0 < X[0][k] < ploidy):
                if n >= 2:
                    X[rng.randrange(1, n)][k] = ploidy - X[0][k] if X[0][k] in (0, ploidy) else 0
                elif ploidy == 2:
                    X[0][k] = 1
        if not phased:
            return X, X
        g = [[[0] * m for _ in range(n)] for _ in range(ploidy)]
        for i in range(n):
            for k in range(m):
                phases = list(range(ploidy))
                rng.shuffle(phases)
                for ph in phases[:X[i][k]]:
                    g[ph][i][k] = 1
        return g, X

    @staticmethod
    def _polymorphic(X, ploidy, k):
        tot = sum(r[k] for r in X)
        return 0 < tot < ploidy * len(X)

    @staticmethod
    def _end_relative(rng, idx, n, prob=0.35):
        """some of the indices written relative to the end (numpy: -1 is the last taxon)"""
        if rng.random() >= prob:
            return idx
        out = [i - n if rng.random() < 0.5 else i for i in idx]
        if all(i >= 0 for i in out) and out:
            k = rng.randrange(len(out))
            out[k] -= n
        return out

    def _cmat_case(self, rng):
        method = rng.choice(METHODS)
        ploidy = rng.choice([1, 2, 2])
        phased = rng.random() < 0.5
        n = rng.choice([1, 2, 2, 3, 3, 4, 4, 5, 6, 7, 9])
        m = rng.choice([1, 2, 3, 3, 4, 5, 7, 8, 8, 12, 16, 49, 98, 103, 107] if n <= 4
                       else [1, 2, 3, 4, 5, 7, 8, 16])
        pk = None
        wk = None
        if method != "mol":
            r = rng.random()
            if r < 0.35:
                pk = None
            elif r < 0.55:
                pk = self._dyadic(rng, lo_open=True)
            else:
                pk = [self._dyadic(rng, lo_open=(method == "yang")) for _ in range(m)]
                if method == "vr" and all(q in (0, 1) for q in pk):
                    pk[rng.randrange(m)] = Fraction(1, 2)
        if method == "gw":
            r = rng.random()
            if r < 0.3:
                wk = None
            elif r < 0.5:
                wk = rng.choice([0, 1, 2, Fraction(1, 2), Fraction(3, 4), 5])
            else:
                wk = [rng.choice([0, 0, 1, 2, 3, Fraction(1, 2), Fraction(5, 4)]) for _ in range(m)]
        # magnitudes that a tolerance-style shortcut (isclose / clip / eps) would treat as 0 or 1: exact in
        # binary64, far inside the open interval
        if method != "mol" and rng.random() < 0.14:
            pk = [rng.choice(self.TINY_P) if rng.random() < 0.6 else self._dyadic(rng, lo_open=True) for _ in range(m)]
            if rng.random() < 0.25:
                pk = rng.choice(self.TINY_P)
        if method == "gw" and rng.random() < 0.14:
            wk = [rng.choice(self.TINY_W) for _ in range(m)]
            if rng.random() < 0.25:
                wk = rng.choice(self.TINY_W[:3])
        # values that need all 53 bits of the double (0.1, 0.3, 1/3, 0.7: a detour through float32 changes them),
        # on small panels only (the exact rational oracle carries the full denominators)
        if m <= 8 and method != "mol" and rng.random() < 0.12:
            pk = [Fraction(rng.choice(self.FULL53)) for _ in range(m)] if rng.random() < 0.6 else \
                Fraction(rng.choice(self.FULL53))
        if m <= 8 and method == "gw" and rng.random() < 0.2:
            wk = [Fraction(rng.choice(self.FULL53 + (2.3, 17.1))) for _ in range(m)] if rng.random() < 0.5 else \
                Fraction(rng.choice(self.FULL53 + (2.3, 17.1)))
        geno, X = self._geno(rng, ploidy, phased, n, m, all_poly=(method == "yang" and pk is None))
        if pk is None and method in ("vr", "yang"):
            polys = [self._polymorphic(X, ploidy, k) for k in range(m)]
            ok = all(polys) if method == "yang" else any(polys)
            if not ok:                                    # cannot be repaired (e.g. one haploid taxon): supply p
                pk = Fraction(1, 2)
        # partially structured taxa: one fully heterozygous individual, one partly inbred (homozygous on the
        # first half of the markers, as drawn on the rest)
        if not phased and ploidy == 2 and n >= 3 and rng.random() < 0.12 and not (pk is None and method == "yang"):
            geno[rng.randrange(n)] = [1] * m
            i = rng.randrange(n)
            geno[i] = [rng.choice([0, 2]) if k < m // 2 else geno[i][k] for k in range(m)]
            X = geno
            if pk is None and method == "vr" and not any(self._polymorphic(X, ploidy, k) for k in range(m)):
                pk = Fraction(1, 2)
        taxa = None
        grp = None
        if rng.random() < 0.85:
            names = [f"T{rng.randint(0, 999):03d}_{i}" for i in range(n)]
            rng.shuffle(names)
            taxa = names
        if rng.random() < 0.6:
            grp = [rng.randint(0, 4) for _ in range(n)]
        sel = None
        if method == "mol" or pk is not None:
            idx = list(range(n))
            rng.shuffle(idx)
            if rng.random() < 0.5 and n > 1:
                idx = idx[:rng.randint(1, n - 1)]
            sel = self._end_relative(rng, idx, n)
        # a grouped source (`group_taxa()` sorts by group, then name, and fills the four metadata arrays)
        grouped = grp is not None and rng.random() < 0.45
        case = {"kind": "cmat", "method": method, "via": rng.choice(["class", "class", "factory", "factory", "subclass"]),
                "ploidy": ploidy, "phased": phased, "n": n, "m": m, "geno": geno, "taxa": taxa, "taxa_grp": grp,
                "p": canon.enc(pk), "w": canon.enc(wk), "sel": sel, "grouped": grouped}
        # rarely used argument forms: memory layout of the genotype array, integer-typed / numpy-scalar
        # arguments, the index forms of the accessors and the axis forms of the summaries
        lay = rng.choice([None, None, None, "F", "strided"])
        if lay is not None:
            case["layout"] = lay
        if rng.random() < 0.3:
            case["accforms"] = True
        r = rng.random()
        if r < 0.2:
            case["argform"] = "int"
        elif r < 0.32:
            case["argform"] = "np"
        elif r < 0.44:
            case["argform"] = "strided"
        elif r < 0.56:
            case["argform"] = "readonly"
        return case

    def _bigm_case(self, rng, method=None, m=None, ploidy=None, n=None):
        """many markers, few taxa, inbred / highly homozygous lines (and haploid matches): pairs of taxa share
        >= 128 jointly homozygous (or identical haploid) loci, so integer products X X' reach and pass 128, 256"""
        method = method or rng.choice(METHODS)
        ploidy = ploidy or rng.choice([1, 2, 2])
        phased = rng.random() < 0.5
        m = m or rng.choice([128, 129, 200, 255, 256, 257, 300, 1000, 1025, 1500, 2049, 2600])
        n = n or (rng.choice([2, 2, 3, 4]) if m <= 1000 else 2)
        founder = [rng.choice([0, ploidy]) if rng.random() < 0.7 else ploidy for _ in range(m)]
        X = []
        for i in range(n):
            style = rng.random()
            if i == 0 or style < 0.35:
                row = list(founder)                          # (nearly) the founder line
                for _ in range(rng.choice([0, 1, 3])):
                    row[rng.randrange(m)] = rng.randint(0, ploidy)
            elif style < 0.6:
                row = [ploidy - v for v in founder]          # the opposite homozygote: products -1
                for _ in range(rng.choice([0, 2])):
                    row[rng.randrange(m)] = rng.randint(0, ploidy)
            else:                                            # an inbred line of its own, few heterozygous loci
                row = [rng.choice([0, ploidy]) if rng.random() < 0.95 else rng.randint(0, ploidy)
                       for _ in range(m)]
            X.append(row)
        if n >= 2 and X[0] == X[1]:
            X[1][rng.randrange(m)] = ploidy - X[1][0]
        pk = wk = None
        if method != "mol":
            r = rng.random()
            if r < 0.3:
                pk = None
            elif r < 0.5:
                pk = self._dyadic(rng, lo_open=True)
            else:
                pk = [self._dyadic(rng, lo_open=(method == "yang")) for _ in range(m)]
            if pk is None:
                polys = [self._polymorphic(X, ploidy, k) for k in range(m)]
                if (method == "yang" and not all(polys)) or not any(polys):
                    pk = Fraction(1, 4) if method != "yang" else [self._dyadic(rng, lo_open=True) for _ in range(m)]
        if method == "gw":
            r = rng.random()
            wk = None if r < 0.3 else (rng.choice([1, 2, Fraction(1, 2)]) if r < 0.5 else
                                       [rng.choice([0, 1, 1, 2, Fraction(1, 2)]) for _ in range(m)])
        if phased:
            geno = [[[0] * m for _ in range(n)] for _ in range(ploidy)]
            for i in range(n):
                for k in range(m):
                    phases = list(range(ploidy))
                    rng.shuffle(phases)
                    for ph in phases[:X[i][k]]:
                        geno[ph][i][k] = 1
        else:
            geno = X
        sel = None
        if method == "mol" or pk is not None:
            sel = list(range(n))
            rng.shuffle(sel)
            if rng.random() < 0.4 and n > 1:
                sel = sel[:n - 1]
            sel = self._end_relative(rng, sel, n)
        return {"kind": "cmat", "method": method, "via": rng.choice(["class", "factory"]), "ploidy": ploidy,
                "phased": phased, "n": n, "m": m, "geno": geno,
                "taxa": [f"L{i}" for i in range(n)] if rng.random() < 0.7 else None,
                "taxa_grp": None, "p": canon.enc(pk), "w": canon.enc(wk), "sel": sel}

    @staticmethod
    def _jitter_edit(rng):
        r = rng.random()
        if r < 0.45:      # fires on a singular matrix and succeeds at once (well conditioned afterwards)
            return {"op": "jitter", "tol": "1/1000000", "lo": "1/2", "hi": 1, "nattempt": 100}
        if r < 0.75:      # needs every draw >= 3/4: usually several attempts
            return {"op": "jitter", "tol": "3/4", "lo": "1/2", "hi": 1, "nattempt": 20}
        return {"op": "jitter", "tol": 100, "lo": "1/8", "hi": "1/4", "nattempt": 3}   # cannot succeed: restore

    VIEWS = ("co", "kin", "inv", "max_rows", "min_cols_kin", "mean_rows", "select", "select_rev")

    def _object_edit(self, rng, n, labelled):
        """one operation of the public surface that re-binds or re-orders what the object holds, or overwrites
        an array the object handed out"""
        r = rng.random()
        if r < 0.3:
            perm = list(range(n))
            while n >= 2 and perm == list(range(n)):
                rng.shuffle(perm)
            e = {"op": "reorder", "perm": self._end_relative(rng, perm, n),
                 "how": rng.choice(["reorder_taxa", "reorder_taxa", "reorder"])}
            if e["how"] == "reorder":
                e["axis"] = rng.choice([-1, 0, 1, -2])
            return e
        if r < 0.5 and labelled:
            e = {"op": rng.choice(["sort", "group"])}
            e["how"] = e["op"] + rng.choice(["_taxa", "_taxa", ""])
            if not e["how"].endswith("_taxa"):
                e["axis"] = rng.choice([-1, 0, 1])
            return e
        if r < 0.7:
            B = [[rng.randint(-2, 2) for _ in range(n + 1)] for _ in range(n)]
            A = [[Fraction(sum(a * b for a, b in zip(B[i], B[j]))) + (Fraction(rng.randint(2, 7), 2) if i == j else 0)
                  for j in range(n)] for i in range(n)]
            e = {"op": "assign", "mat": canon.enc(A)}
            lay = rng.choice([None, "F", "strided"])
            if lay is not None:
                e["layout"] = lay
            return e
        if r < 0.8:
            return {"op": "read"}
        return {"op": "mutate_view", "what": rng.choice(self.VIEWS)}

    def _edit_case(self, rng):
        """summaries, an in-place edit of the SAME matrix object through the public surface, summaries again"""
        n = rng.choice([2, 2, 3, 3, 4, 5])
        case = {"kind": "edit", "seed": rng.randint(0, 2 ** 31 - 1)}
        edits = []
        if rng.random() < 0.6:
            sym = rng.random() < 0.7
            A = [[Fraction(rng.randint(-4, 4), rng.choice([1, 2, 4])) for _ in range(n)] for _ in range(n)]
            if sym:
                A = [[A[min(i, j)][max(i, j)] for j in range(n)] for i in range(n)]
            for i in range(n):
                A[i][i] = sum(abs(v) for j, v in enumerate(A[i]) if j != i) + Fraction(rng.randint(2, 8), 2)
            names = [f"E{i}" for i in range(n)]
            rng.shuffle(names)
            labelled = rng.random() < 0.6
            lay = rng.choice([None, None, "F", "strided"])
            if lay is not None:
                case["layout"] = lay
            case.update({"src": "mat", "cls": rng.choice(METHODS), "mat": canon.enc(A),
                         "taxa": names if labelled else None,
                         "taxa_grp": [rng.randint(0, 2) for _ in range(n)] if labelled and rng.random() < 0.7 else None})
            for _ in range(rng.choice([1, 1, 2, 3])):
                r = rng.random()
                if r < 0.3 and n >= 2:
                    i, j = rng.sample(range(n), 2)
                    edits.append({"op": "set", "i": i, "j": j, "v": canon.enc(Fraction(rng.randint(-3, 3), 4)),
                                  "mirror": sym})
                elif r < 0.45:
                    i = rng.randrange(n)
                    edits.append({"op": "set", "i": i, "j": i,
                                  "v": canon.enc(A[i][i] + Fraction(rng.randint(1, 12), 2)), "mirror": False})
                elif r < 0.6:
                    edits.append({"op": "add_diag", "v": canon.enc(rng.choice([Fraction(1, 2), 1, 2, 5]))})
                else:
                    edits.append(self._object_edit(rng, n, labelled))
            if sym and rng.random() < 0.3:
                edits.insert(rng.randint(0, len(edits)), self._jitter_edit(rng))
        else:
            g = self._cmat_case(rng)
            while g["n"] < 2 or g["n"] > 6 or g["m"] > 16:
                g = self._cmat_case(rng)
            g["sel"] = None
            case.update({k: v for k, v in g.items() if k != "kind"})
            case["src"] = "gmat"
            n = g["n"]
            # a jitter that fires on the singular matrices of the re-estimating estimators (tolerance and range
            # are public arguments); large enough to make the result well conditioned
            edits.append(self._jitter_edit(rng))
            if rng.random() < 0.5:
                edits.append({"op": "add_diag", "v": canon.enc(rng.choice([Fraction(1, 2), 1, 3]))})
            if rng.random() < 0.4:
                i, j = rng.sample(range(g["n"]), 2)
                edits.append({"op": "set", "i": i, "j": j, "v": canon.enc(Fraction(rng.randint(-1, 1), 4)),
                              "mirror": True})
            for _ in range(rng.choice([0, 1, 1, 2])):
                edits.insert(rng.randint(0, len(edits)), self._object_edit(rng, n, g["taxa"] is not None))
        case["edits"] = edits
        return case

    def _alias_case(self, rng):
        """two or three relationship matrices computed from ONE labelled genotype matrix; one of them (or the
        genotype matrix) is then re-ordered / sorted / grouped / sub-selected / written to, and every other
        object is inspected; finally one more matrix is computed from the same genotype matrix"""
        ploidy = rng.choice([1, 2, 2])
        phased = rng.random() < 0.5
        n = rng.choice([3, 3, 4, 5, 6])
        m = rng.choice([2, 3, 4, 5, 8, 12])
        geno, X = self._geno(rng, ploidy, phased, n, m, all_poly=True)
        X = [list(r) for r in X]
        names = [f"A{rng.randint(0, 99):02d}_{i}" for i in range(n)]
        rng.shuffle(names)
        grp = [rng.randint(0, 3) for _ in range(n)] if rng.random() < 0.8 else None

        def spec(method):
            pk = wk = None
            polys = [self._polymorphic(X, ploidy, k) for k in range(m)]
            est_ok = all(polys) if method == "yang" else any(polys)
            if method in ("vr", "yang") and not (est_ok and rng.random() < 0.4):
                pk = self._dyadic(rng, lo_open=True) if rng.random() < 0.5 else \
                    [self._dyadic(rng, lo_open=True) for _ in range(m)]
            elif method == "gw":
                pk = None if rng.random() < 0.5 else self._dyadic(rng)
                wk = None if rng.random() < 0.5 else [rng.choice([0, 1, 2, Fraction(1, 2)]) for _ in range(m)]
            return {"method": method, "via": rng.choice(["class", "factory", "subclass"]), "p": canon.enc(pk),
                    "w": canon.enc(wk)}
        # VanRaden / Yang hand the label arrays of the source on by reference, the other two copy them
        k = rng.choice([2, 2, 3])
        objs = [spec(rng.choice(["vr", "yang", "vr", "yang", "mol", "gw"])) for _ in range(k)]
        ops = []
        resorted = False                                   # the local copy X no longer tracks the row order
        for _ in range(rng.choice([1, 2, 2, 3])):
            on = rng.choice(list(range(k)) + ["gmat"]) if rng.random() < 0.8 else "gmat"
            perm = list(range(n))
            while perm == list(range(n)):
                rng.shuffle(perm)
            if on == "gmat":
                if rng.random() < 0.25:
                    # the genotype matrix sorted / grouped in place: whatever order results (C03's subject), a
                    # matrix computed afterwards must be that of the data and labels then held
                    ops.append({"on": "gmat", "op": rng.choice(["sort_taxa", "group_taxa"])})
                    resorted = True
                    continue
                if resorted or rng.random() < 0.5:
                    perm = self._end_relative(rng, perm, n)
                    ops.append({"on": "gmat", "op": "reorder_taxa", "perm": perm})
                    X = [X[i] for i in perm]
                else:
                    # the genotype data edited in place: taxon i becomes the complement of taxon j
                    i, j = rng.sample(range(n), 2)
                    ops.append({"on": "gmat", "op": "gset", "i": i, "j": j})
                    X[i] = [ploidy - v for v in X[j]]
                continue
            r = rng.random()
            if r < 0.35:
                op = {"on": on, "op": rng.choice(["reorder_taxa", "reorder"]), "perm": self._end_relative(rng, perm, n)}
                if op["op"] == "reorder":
                    op["axis"] = rng.choice([-1, 0, 1])
            elif r < 0.6:
                op = {"on": on, "op": rng.choice(["sort_taxa", "sort", "group_taxa", "group"])}
                if not op["op"].endswith("_taxa"):
                    op["axis"] = rng.choice([-1, 0, 1])
            elif r < 0.8:
                sub = self._end_relative(rng, perm[:rng.randint(1, n)], n, prob=0.5)
                op = {"on": on, "op": "select_taxa", "perm": sub}
            else:
                i, j = rng.sample(range(n), 2)
                op = {"on": on, "op": "set", "i": i, "j": j, "v": canon.enc(Fraction(rng.randint(-8, 8), 4))}
            ops.append(op)
        return {"kind": "alias", "ploidy": ploidy, "phased": phased, "n": n, "m": m, "geno": geno,
                "taxa": names, "taxa_grp": grp, "grouped": grp is not None and rng.random() < 0.4,
                "objs": objs, "ops": ops, "late": spec(rng.choice(METHODS)) if rng.random() < 0.85 else None}

    def _bign_case(self, rng, n=None, method=None):
        """more taxa than a narrow accumulator / a block size holds (127, 255, 1024); judged against an
        independent evaluation in numpy"""
        method = method or rng.choice(METHODS)
        n = n or rng.choice([130, 130, 257, 1030])
        m = rng.choice([2, 3, 5])
        ploidy = rng.choice([1, 2, 2])
        pk = wk = None
        if method != "mol":
            r = rng.random()
            pk = None if r < 0.5 else (self._dyadic(rng, lo_open=True) if r < 0.7 else
                                       [self._dyadic(rng, lo_open=True) for _ in range(m)])
        if method == "gw" and rng.random() < 0.6:
            wk = [rng.choice([1, 2, Fraction(1, 2)]) for _ in range(m)]
        sel = self._end_relative(rng, rng.sample(range(n), 5), n)
        # a common allele: the column totals pass 127 and 255
        return {"kind": "bign", "method": method, "via": rng.choice(["class", "factory"]), "ploidy": ploidy,
                "phased": rng.random() < 0.5, "n": n, "m": m, "seed": rng.randint(0, 2 ** 31 - 1),
                "freq": [canon.enc(rng.choice([Fraction(7, 8), Fraction(15, 16), Fraction(1, 2)])) for _ in range(m)],
                "p": canon.enc(pk), "w": canon.enc(wk), "sel": sel}

    def _summ_case(self, rng):
        n = rng.choice([1, 2, 2, 3, 3, 4, 5, 6])
        style = rng.random()
        val = lambda: Fraction(rng.randint(-8, 8), rng.choice([1, 1, 2, 4]))
        A = [[val() for _ in range(n)] for _ in range(n)]
        if style < 0.40:                                   # asymmetric, strictly diagonally dominant
            for i in range(n):
                A[i][i] = sum(abs(v) for j, v in enumerate(A[i]) if j != i) + Fraction(rng.randint(1, 6), 2)
                if rng.random() < 0.2:
                    A[i][i] = -A[i][i]
        elif style < 0.70:                                 # symmetric: B B' + ridge (PD), or indefinite
            B = [[rng.randint(-2, 2) for _ in range(n + 1)] for _ in range(n)]
            A = [[Fraction(sum(a * b for a, b in zip(B[i], B[j]))) for j in range(n)] for i in range(n)]
            if rng.random() < 0.6:
                for i in range(n):
                    A[i][i] += Fraction(rng.randint(1, 4), 2)
            elif rng.random() < 0.5:
                A[rng.randrange(n)][rng.randrange(n)] -= 3
                A = [[(A[i][j] + A[j][i]) / 2 for j in range(n)] for i in range(n)]
        elif style < 0.80:                                 # symmetric random (often indefinite)
            A = [[A[min(i, j)][max(i, j)] for j in range(n)] for i in range(n)]
        elif style < 0.90:
            A = self._summ_magnitude(rng, n)
        else:
            # many taxa (1/n² and 1/n are inexact for 49, 103, 107; 130 > 127): small integers, symmetric,
            # ties for the extreme values, a constant row
            n = rng.choice([49, 103, 107, 130])
            A = [[Fraction(rng.randint(-3, 3)) for _ in range(n)] for _ in range(n)]
            A = [[A[min(i, j)][max(i, j)] for j in range(n)] for i in range(n)]
            k = rng.randrange(n)
            for j in range(n):
                A[k][j] = A[j][k] = Fraction(2)
            # the unique extreme values sit at structurally special places: on the diagonal, in a corner, in the
            # last row / column
            spots = [(i, i) for i in rng.sample(range(n), 2)] + [(0, n - 1), (n - 1, n - 2)]
            rng.shuffle(spots)
            (a, b), (c2, d) = spots[0], spots[1]
            A[a][b] = A[b][a] = Fraction(-5)
            A[c2][d] = A[d][c2] = Fraction(7)
        taxa = [f"S{i}" for i in range(n)] if rng.random() < 0.5 else None
        case = {"kind": "summ", "cls": rng.choice(METHODS), "mat": canon.enc(A), "taxa": taxa}
        lay = rng.choice([None, None, "F", "strided"])
        if lay is not None:
            case["layout"] = lay
        if rng.random() < 0.6:
            case["extras"] = True
        return case

    @staticmethod
    def _summ_magnitude(rng, n):
        """entries whose size interacts with tolerances: a large common offset with small differences,
        1e9 +- 0.5, a matrix of size 2^-27, exact ties, eigenvalues of relative size 2^-17 (both signs)"""
        kind = rng.choice(["offset", "1e9", "tiny", "ties", "eig_pos", "eig_neg"])
        sym = rng.random() < 0.7
        if kind == "offset":
            A = [[25000 + Fraction(rng.randint(-8, 8), 4) for _ in range(n)] for _ in range(n)]
        elif kind == "1e9":
            A = [[10 ** 9 + Fraction(rng.choice([-1, 0, 1]), 2) for _ in range(n)] for _ in range(n)]
        elif kind == "tiny":
            A = [[Fraction(rng.randint(-8, 8), 2 ** 27) for _ in range(n)] for _ in range(n)]
            for i in range(n):
                A[i][i] = sum(abs(v) for j, v in enumerate(A[i]) if j != i) + Fraction(rng.randint(1, 6), 2 ** 28)
        elif kind == "ties":
            v = Fraction(rng.randint(-4, 4), 2)
            A = [[v for _ in range(n)] for _ in range(n)]
            if n >= 2:
                A[rng.randrange(n)][rng.randrange(n)] += Fraction(rng.choice([-1, 0, 1]), 2 ** 20)
        else:
            # J·a + diag: [[1, 1∓e], [1∓e, 1]] has the eigenvalue ±e, e = 2^-17 (clearly positive / clearly negative)
            e = Fraction(1, 2 ** 17) * (1 if kind == "eig_pos" else -1)
            A = [[Fraction(1) if i == j else 1 - e for j in range(n)] for i in range(n)]
            return A
        if sym:
            A = [[A[min(i, j)][max(i, j)] for j in range(n)] for i in range(n)]
        return A

    def _reject_case(self, rng):
        c = self._cmat_case(rng)
        c["kind"] = "reject"
        c["sel"] = None
        for key in ("layout", "argform", "accforms"):
            c.pop(key, None)
        m, n = c["m"], c["n"]
        why = rng.choice(["ploidy", "p_range_scalar", "p_range_array", "p_shape", "nonfinite", "w_range", "w_shape"])
        if why == "ploidy":
            c["method"] = "mol"
            c["ploidy"] = 3
            c["phased"] = rng.random() < 0.5
            g, _ = self._geno(rng, 3, c["phased"], n, m, False)
            c["geno"] = g
            c["p"] = c["w"] = None
        elif why == "p_range_scalar":
            c["method"] = rng.choice(["vr", "yang", "gw"])
            c["p"] = canon.enc(rng.choice([Fraction(3, 2), Fraction(-1, 4), 2]))
        elif why == "p_range_array":
            c["method"] = rng.choice(["vr", "yang", "gw"])
            p = [Fraction(1, 2)] * m
            p[rng.randrange(m)] = rng.choice([Fraction(5, 4), Fraction(-1, 8)])
            c["p"] = canon.enc(p)
        elif why == "p_shape":
            c["method"] = rng.choice(["vr", "yang", "gw"])
            c["p"] = canon.enc([Fraction(1, 2)] * (m + 1))
        elif why == "nonfinite":
            c["method"] = rng.choice(["vr", "yang"])
            c["w"] = None
            if c["method"] == "vr":
                c["p"] = canon.enc([rng.choice([0, 1]) for _ in range(m)])
            else:
                p = [Fraction(1, 2)] * m
                p[rng.randrange(m)] = rng.choice([0, 1])
                c["p"] = canon.enc(p)
        elif why == "w_range":
            c["method"] = "gw"
            c["w"] = canon.enc(rng.choice([Fraction(-1, 2), -3]))
        else:
            c["method"] = "gw"
            c["w"] = canon.enc([1] * (m + 2))
        if c["method"] != "gw":
            c["w"] = None
        if c["method"] == "mol":
            c["p"] = None
        return c

    def generate(self, rng, n, tier):
        out = []
        for _ in range(n):
            r = rng.random()
            if r < 0.47:
                out.append(self._cmat_case(rng))
            elif r < 0.54:
                out.append(self._bigm_case(rng))
            elif r < 0.68:
                out.append(self._summ_case(rng))
            elif r < 0.81:
                out.append(self._edit_case(rng))
            elif r < 0.91:
                out.append(self._alias_case(rng))
            elif r < 0.922:
                out.append(self._bign_case(rng))
            elif r < 0.934:
                out.append({"kind": "biginv", "n": rng.choice([17, 24, 33, 40, 65, 96]), "seed": rng.randint(0, 2 ** 31 - 1),
                            "cls": rng.choice(METHODS), "layout": rng.choice([None, None, "F", "strided"])})
            else:
                out.append(self._reject_case(rng))
        return out

    # ------------------------------------------------------------------ implementation
    def _gmat(self, M, case):
        taxa = None if case["taxa"] is None else numpy.array(case["taxa"], dtype=object)
        grp = None if case.get("taxa_grp") is None else numpy.array(case["taxa_grp"], dtype="int64")
        lay = case.get("layout")
        if case["phased"]:
            mat = numpy.array(case["geno"], dtype="int8").reshape(case["ploidy"], case["n"], case["m"])
            return M["PG"](mat=_layout(mat, lay), taxa=taxa, taxa_grp=grp)
        mat = numpy.array(case["geno"], dtype="int8").reshape(case["n"], case["m"])
        return M["UG"](mat=_layout(mat, lay), taxa=taxa, taxa_grp=grp, ploidy=case["ploidy"])

    @staticmethod
    def _kwargs(case):
        kw = {}
        form = case.get("argform")
        if case["method"] in ("vr", "yang"):
            kw["p_anc"] = _arg(case["p"], form)
        elif case["method"] == "gw":
            kw["mkrwt"] = _arg(case["w"], form)
            kw["afreq"] = _arg(case["p"], form)
        return kw

    def _source(self, M, case):
        """the genotype object handed to `from_gmat` and, for a grouped source, what it holds after
        `group_taxa()` (order of taxa, labels, metadata)"""
        gm = self._gmat(M, case)
        if not case.get("grouped") or case.get("taxa_grp") is None:
            return gm, None
        gm.group_taxa()
        eff = {"geno": canon.enc(gm.mat), "taxa": None if gm.taxa is None else [str(t) for t in gm.taxa],
               "taxa_grp": [int(t) for t in gm.taxa_grp], "meta": self._meta(gm)}
        return gm, eff

    @staticmethod
    def _meta(o):
        parts = {"name": o.taxa_grp_name, "stix": o.taxa_grp_stix, "spix": o.taxa_grp_spix, "len": o.taxa_grp_len}
        if all(v is None for v in parts.values()):
            return None
        if any(v is None for v in parts.values()):
            return "partial"
        return {k: [int(x) for x in v] for k, v in parts.items()}

    _SUB = {}

    def _build(self, M, case, gm, kw=None):
        kw = self._kwargs(case) if kw is None else kw
        if case["via"] == "factory":
            return M["fcty"][case["method"]]().from_gmat(gm, **kw)
        cls = M["cls"][case["method"]]
        if case["via"] == "subclass":                    # a user subclass inherits the class method
            if cls not in self._SUB:
                self._SUB[cls] = type("User" + cls.__name__, (cls,), {})
            cls = self._SUB[cls]
        return cls.from_gmat(gm, **kw)

    @staticmethod
    def _labels(c):
        return {"taxa": None if c.taxa is None else [str(t) for t in c.taxa],
                "taxa_grp": None if c.taxa_grp is None else [int(t) for t in c.taxa_grp]}

    @staticmethod
    def _codes(*name_lists):
        """order-preserving, injective integer codes of the taxon names of one case (the model sorts codes)"""
        names = sorted({str(t) for l in name_lists if l is not None for t in l})
        return {t: i for i, t in enumerate(names)}

    def _snap_obj(self, c, codes):
        """the labelled object as the model of DenseSquareTaxaMatrix sees it"""
        meta = self._meta(c)
        return {"mat": canon.enc(c.mat),
                "taxa": None if c.taxa is None else [codes.get(str(t), -1 - i) for i, t in enumerate(c.taxa)],
                "taxa_grp": None if c.taxa_grp is None else [int(t) for t in c.taxa_grp],
                "meta": None if meta == "partial" else meta, "meta_partial": meta == "partial",
                "names": None if c.taxa is None else [str(t) for t in c.taxa]}

    @staticmethod
    def _acc_forms(c, n):
        """the accessors with the index forms numpy accepts besides two non-negative integers; every returned
        element is reported with the (row, column) it must come from"""
        pos = numpy.arange(n * n).reshape(n, n)
        forms = [(-1, -1), (-n, n - 1), (n - 1,), (slice(None), 0), (slice(None, None, -1), -1),
                 ([0, n - 1], [n - 1, 0])]
        if n >= 2:
            mask = numpy.zeros(n, dtype=bool)
            mask[[0, n - 1]] = True
            forms.append((mask,))
            forms.append((slice(1, None), slice(None, -1)))
        out = []
        for args in forms:
            where = numpy.asarray(pos[args]).ravel()
            co = numpy.asarray(c.coancestry(*args)).ravel()
            kin = numpy.asarray(c.kinship(*args)).ravel()
            if len(co) != len(where) or len(kin) != len(where):
                out.append([0, 0, "nan", "nan"])
                continue
            for w, a, b in zip(where, co, kin):
                out.append([int(w) // n, int(w) % n, canon.enc(float(a)), canon.enc(float(b))])
        return out

    def _obs_cmat(self, M, case, c, accforms=False):
        """what the Spec of one freshly built relationship matrix looks at"""
        isinst = isinstance(c, M["cls"][case["method"]]) and isinstance(c, M["base"])
        out = {"mat": canon.enc(c.mat), "class_ok": bool(isinst), **self._labels(c), "meta": self._meta(c)}
        n = case["n"]
        acc = []
        for i in range(n):
            for j in range(n):
                acc.append([i, j, canon.enc(c.coancestry(i, j)), canon.enc(c.kinship(i, j))])
        if accforms and n >= 1:
            acc += self._acc_forms(c, n)
        out["acc"] = acc
        out["co"] = canon.enc(c.mat_asformat("coancestry"))
        out["kin"] = canon.enc(c.mat_asformat("kinship"))
        return out

    # ---- crash isolation: the implementation runs in a forked child (one per batch of cases)
    _iso = None

    @staticmethod
    def _fingerprint():
        """identity of every attribute of the classes under test: changes when an in-memory mutant is applied"""
        M = _mods()
        seen, out = set(), []
        roots = list(M["cls"].values()) + list(M["fcty"].values()) + [M["PG"], M["UG"]]
        for r in roots:
            for cls in r.__mro__:
                if cls in seen or not cls.__module__.startswith("pybrops"):
                    continue
                seen.add(cls)
                out.append(tuple(id(v) for v in cls.__dict__.values()))
        return tuple(out)

    def run_impl(self, case):
        import os
        if os.environ.get("VERIF_C13_NOFORK") or not hasattr(os, "fork"):
            return self._run_impl_here(case)
        _mods()                                      # import in the parent: the child inherits the loaded package
        if self._iso is None:
            C13._iso = _Isolated(self._run_impl_here, self._fingerprint)
        return self._iso.call(case)

    def _end_batch(self):
        if self._iso is not None:
            self._iso.end_batch()

    def _run_impl_here(self, case):
        M = _mods()
        k = case["kind"]
        if k == "summ":
            mat = numpy.array([[_fl(v) for v in r] for r in case["mat"]], dtype="float64")
            mat = _layout(mat, case.get("layout"), junk=-12345.0)
            taxa = None if case["taxa"] is None else numpy.array(case["taxa"], dtype=object)
            c = M["cls"][case["cls"]](mat=mat, taxa=taxa)
            sym = bool((mat == mat.T).all())
            return {"mat": canon.enc(c.mat), "symmetric": sym, **_summaries(c, sym, extras=bool(case.get("extras")))}
        if k == "edit":
            return self._run_edit(M, case)
        if k == "alias":
            return self._run_alias(M, case)
        if k == "bign":
            return self._run_bign(M, case)
        if k == "biginv":
            return self._run_biginv(M, case)
        if k == "reject":
            try:
                gm = self._gmat(M, case)
                c = self._build(M, case, gm)
            except (ZeroDivisionError, RuntimeError, ValueError) as e:
                return {"err": _err_tag(e), "text": str(e)[:200]}
            if not numpy.isfinite(c.mat).all():
                return {"err": "nonfinite"}
            return {"err": None, "mat": canon.enc(c.mat)}
        gm, eff = self._source(M, case)
        src_before = (canon.enc(gm.mat), None if gm.taxa is None else [str(t) for t in gm.taxa],
                      None if gm.taxa_grp is None else [int(t) for t in gm.taxa_grp])
        kw = self._kwargs(case)                      # the SAME argument objects serve every call of this case
        c = self._build(M, case, gm, kw)
        out = self._obs_cmat(M, case, c, accforms=bool(case.get("accforms")))
        out["eff"] = eff
        if _finite(out["mat"]):
            out["summ"] = _summaries(c, True, extras=bool(case.get("accforms")))
        if case.get("sel") is not None:
            idx = [int(i) for i in case["sel"]]
            a = self._build(M, case, gm.select_taxa(idx), kw)
            b = c.select_taxa(idx)
            out["sel_a"] = {"mat": canon.enc(a.mat), **self._labels(a)}
            out["sel_b"] = {"mat": canon.enc(b.mat), **self._labels(b)}
        # the source must come out of all this untouched, and the object still holds what was observed
        src_after = (canon.enc(gm.mat), None if gm.taxa is None else [str(t) for t in gm.taxa],
                     None if gm.taxa_grp is None else [int(t) for t in gm.taxa_grp])
        out["source_intact"] = bool(src_before == src_after)
        fresh = self._kwargs(case)
        out["args_intact"] = bool(all(type(kw[k]) is type(fresh[k]) and numpy.array_equal(kw[k], fresh[k])
                                      for k in fresh if fresh[k] is not None))
        out["object_intact"] = bool(canon.enc(c.mat) == out["mat"] and self._labels(c)["taxa"] == out["taxa"])
        return out

    # ---- histories on ONE object
    def _run_edit(self, M, case):
        if case["src"] == "mat":
            mat = numpy.array([[_fl(v) for v in r] for r in case["mat"]], dtype="float64")
            mat = _layout(mat, case.get("layout"), junk=-9.0)
            taxa = None if case["taxa"] is None else numpy.array(case["taxa"], dtype=object)
            grp = None if case.get("taxa_grp") is None else numpy.array(case["taxa_grp"], dtype="int64")
            c = M["cls"][case["cls"]](mat=mat, taxa=taxa, taxa_grp=grp)
        else:
            c = self._build(M, case, self._source(M, case)[0])
        n = c.mat.shape[0]
        codes = self._codes(case.get("taxa"))

        def snap():
            m = c.mat.copy()
            sym = bool((m == m.T).all())
            return {"mat": canon.enc(m), "symmetric": sym, **_summaries(c, sym), "obj": self._snap_obj(c, codes)}

        steps = [snap()]                     # first round of summaries (anything cached is cached now)
        ident = id(c.mat)
        same_array = True
        info = []
        for k, e in enumerate(case["edits"]):
            op = e["op"]
            if op == "set":
                c.mat[e["i"], e["j"]] = _fl(e["v"])
                if e.get("mirror"):
                    c.mat[e["j"], e["i"]] = _fl(e["v"])
                info.append(None)
            elif op == "add_diag":
                c.mat[numpy.diag_indices(n)] += _fl(e["v"])
                info.append(None)
            elif op == "read":                # nothing: the summaries are simply read once more
                info.append(None)
            elif op == "assign":             # attribute re-assignment through the public setter
                c.mat = _layout(numpy.array([[_fl(v) for v in r] for r in e["mat"]], dtype="float64"),
                                e.get("layout"), junk=-9.0)
                info.append(None)
            elif op == "reorder":
                perm = numpy.array(e["perm"], dtype="int64")
                if e.get("how") == "reorder":
                    c.reorder(perm, axis=e.get("axis", -1))
                else:
                    c.reorder_taxa(perm)
                info.append(None)
            elif op == "sort":
                c.sort(axis=e.get("axis", -1)) if e.get("how") == "sort" else c.sort_taxa()
                info.append(None)
            elif op == "group":
                c.group(axis=e.get("axis", -1)) if e.get("how") == "group" else c.group_taxa()
                info.append(None)
            elif op == "mutate_view":
                # the arrays handed out by the read-only methods belong to the caller: overwrite one
                what = e["what"]
                if what == "co":
                    r = c.mat_asformat("coancestry")
                elif what == "kin":
                    r = c.mat_asformat("kinship")
                elif what == "inv":
                    try:
                        r = c.inverse()
                    except numpy.linalg.LinAlgError:
                        r = numpy.zeros((1,))
                elif what == "max_rows":
                    r = c.max(axis=1)
                elif what == "min_cols_kin":
                    r = c.min(format="kinship", axis=0)
                elif what == "mean_rows":
                    r = c.mean(axis=1)
                else:                        # "select" / "select_rev": the object returned by select_taxa
                    o2 = c.select_taxa(list(range(n))[::-1] if what == "select_rev" else list(range(n)))
                    r = o2.mat
                    if o2.taxa is not None:
                        o2.taxa[:] = "overwritten"
                    if o2.taxa_grp is not None:
                        o2.taxa_grp[:] = -77
                r = numpy.asarray(r)
                if r.ndim >= 1 and r.flags.writeable:
                    r[...] = 12345.0
                info.append(None)
            elif op == "jitter":
                seed = (case["seed"] + k) % (2 ** 32)
                natt = int(e.get("nattempt", 100))
                # oracle inputs of the model: the uniform vectors `apply_jitter` will draw from the global
                # stream (same MT19937 state as a RandomState seeded alike) and the verdicts of the
                # eigen-solver test, recorded by an instance-level wrapper around the real method
                clone = numpy.random.RandomState(seed)
                draws = [clone.uniform(_fl(e["lo"]), _fl(e["hi"]), n) for _ in range(min(natt, 25))]
                answers = []

                def recorder(eigvaltol=2e-14, _c=c, _a=answers):
                    r = bool(type(_c).is_positive_semidefinite(_c, eigvaltol))
                    _a.append(r)
                    return r
                c.is_positive_semidefinite = recorder
                numpy.random.seed(seed)
                try:
                    ok = bool(c.apply_jitter(eigvaltol=_fl(e["tol"]), minjitter=_fl(e["lo"]),
                                             maxjitter=_fl(e["hi"]), nattempt=natt))
                finally:
                    del c.is_positive_semidefinite
                info.append({"ok": ok, "answers": list(answers), "draws": canon.enc(draws[:max(0, len(answers) - 1)])
                             if len(answers) - 1 <= len(draws) else None})
            else:
                raise ValueError(op)
            if op in ("assign", "reorder", "sort", "group"):
                ident = id(c.mat)            # these legitimately bind a new array
            elif id(c.mat) != ident:
                same_array = False
            steps.append(snap())             # the matrix is read back from the object: the model takes it as is
        return {"steps": steps, "info": info, "same_array": same_array}

    # ---- several objects computed from ONE genotype matrix
    def _gsnap(self, gm):
        return {"geno": canon.enc(gm.mat), "taxa": None if gm.taxa is None else [str(t) for t in gm.taxa],
                "taxa_grp": None if gm.taxa_grp is None else [int(t) for t in gm.taxa_grp], "meta": self._meta(gm)}

    def _run_alias(self, M, case):
        codes = self._codes(case.get("taxa"))
        gm = self._gmat(M, case)
        if case.get("grouped") and case.get("taxa_grp") is not None:
            gm.group_taxa()
        gsnaps = [self._gsnap(gm)]
        objs, built = [], []
        for o in case["objs"]:
            sub = {**case, **o}
            c = self._build(M, sub, gm)
            objs.append(c)
            built.append(self._obs_cmat(M, sub, c))
        snaps = [[self._snap_obj(c, codes) for c in objs]]
        results = []
        for op in case["ops"]:
            tgt = gm if op["on"] == "gmat" else objs[op["on"]]
            name = op["op"]
            res = None
            if name == "reorder_taxa":
                tgt.reorder_taxa(numpy.array(op["perm"], dtype="int64"))
            elif name == "reorder":
                tgt.reorder(numpy.array(op["perm"], dtype="int64"), axis=op.get("axis", -1))
            elif name == "sort_taxa":
                tgt.sort_taxa()
            elif name == "sort":
                tgt.sort(axis=op.get("axis", -1))
            elif name == "group_taxa":
                tgt.group_taxa()
            elif name == "group":
                tgt.group(axis=op.get("axis", -1))
            elif name == "select_taxa":      # a new object; afterwards it is overwritten in place
                o2 = tgt.select_taxa(numpy.array(op["perm"], dtype="int64"))
                res = self._snap_obj(o2, codes)
                o2.mat[...] = 777.0
                if o2.taxa is not None:
                    o2.taxa[:] = "overwritten"
                if o2.taxa_grp is not None:
                    o2.taxa_grp[:] = -77
            elif name == "set":              # element write through `.mat` of one object
                tgt.mat[op["i"], op["j"]] = _fl(op["v"])
                tgt.mat[op["j"], op["i"]] = _fl(op["v"])
            elif name == "gset":             # the genotype data edited in place (labels stay)
                if gm.mat.ndim == 3:
                    gm.mat[:, op["i"], :] = 1 - gm.mat[:, op["j"], :]
                else:
                    gm.mat[op["i"], :] = case["ploidy"] - gm.mat[op["j"], :]
            else:
                raise ValueError(name)
            results.append(res)
            snaps.append([self._snap_obj(c, codes) for c in objs])
            gsnaps.append(self._gsnap(gm))
        late = None
        if case.get("late") is not None:
            sub = {**case, **case["late"]}
            late = self._obs_cmat(M, sub, self._build(M, sub, gm))
        return {"built": built, "snaps": snaps, "gsnaps": gsnaps, "results": results, "late": late}

    # ---- many taxa (judged against an independent evaluation in numpy; too large for the rational oracle)
    @staticmethod
    def _bign_geno(case):
        rs = numpy.random.RandomState(case["seed"])
        n, m, pl = case["n"], case["m"], case["ploidy"]
        freq = numpy.array([_fl(f) for f in case["freq"]])
        X = rs.binomial(pl, freq[None, :], size=(n, m)).astype("int8")
        X[0, :] = 0                      # every marker polymorphic
        X[1, :] = pl
        if not case["phased"]:
            return X, X
        g = numpy.zeros((pl, n, m), dtype="int8")
        first = rs.randint(0, pl, size=(n, m))
        for ph in range(pl):
            # the X alleles of a taxon occupy the phases first, first+1, ... (mod ploidy)
            g[ph] = (((ph - first) % pl) < X).astype("int8")
        return g, X

    def _run_bign(self, M, case):
        n, m, pl = case["n"], case["m"], case["ploidy"]
        g, X = self._bign_geno(case)
        taxa = numpy.array([f"N{(i * 7919) % n:05d}" for i in range(n)], dtype=object)
        grp = numpy.array([(i * 31) % 5 for i in range(n)], dtype="int64")
        gm = M["PG"](mat=g, taxa=taxa, taxa_grp=grp) if case["phased"] else \
            M["UG"](mat=g, taxa=taxa, taxa_grp=grp, ploidy=pl)
        c = self._build(M, case, gm)
        G = numpy.array(c.mat, dtype="float64")
        # independent evaluation: one marker at a time, exact integers where the formula allows it
        Xi = X.astype("int64")
        meth = case["method"]
        p = None
        if meth != "mol":
            if case["p"] is None:
                p = Xi.sum(axis=0).astype("float64") / float(pl * n)
            elif isinstance(case["p"], list):
                p = numpy.array([_fl(v) for v in case["p"]])
            else:
                p = numpy.full(m, _fl(case["p"]))
        w = None
        if meth == "gw":
            w = numpy.ones(m) if case["w"] is None else (numpy.array([_fl(v) for v in case["w"]])
                                                         if isinstance(case["w"], list) else numpy.full(m, _fl(case["w"])))
        if meth == "mol":
            S = numpy.zeros((n, n), dtype="int64")
            for k in range(m):
                x = Xi[:, k]
                if pl == 2:
                    S += numpy.multiply.outer(x - 1, x - 1)
                else:
                    S += numpy.multiply.outer(x, x) + numpy.multiply.outer(1 - x, 1 - x)
            F = (1.0 + S / float(m)) if pl == 2 else (2.0 * S / float(m))
        else:
            F = numpy.zeros((n, n))
            for k in range(m):
                z = Xi[:, k] - pl * p[k]
                if meth == "vr":
                    F += numpy.multiply.outer(z, z)
                elif meth == "yang":
                    F += numpy.multiply.outer(z, z) / (pl * p[k] * (1.0 - p[k]))
                else:
                    F += w[k] * numpy.multiply.outer(z, z)
            if meth == "vr":
                F = F / (pl * float(numpy.sum(p * (1.0 - p))))
            elif meth == "yang":
                F = F / float(m)
        scale = float(numpy.abs(F).max()) or 1.0
        out = {"shape_ok": bool(G.shape == (n, n)), "finite": bool(numpy.isfinite(G).all())}
        if not (out["shape_ok"] and out["finite"]):
            return out
        out["formula_dev"] = float(numpy.abs(G - F).max() / scale)
        out["sym_dev"] = float(numpy.abs(G - G.T).max() / scale)
        out["co_exact"] = bool(numpy.array_equal(c.mat_asformat("coancestry"), G))
        out["kin_exact"] = bool(numpy.array_equal(c.mat_asformat("kinship"), G / 2.0))
        out["taxa_ok"] = bool(c.taxa is not None and list(c.taxa) == list(taxa))
        out["grp_ok"] = bool(c.taxa_grp is not None and list(c.taxa_grp) == list(grp))
        ii = [0, 1, n // 2, n - 1]
        out["acc_ok"] = bool(all(c.coancestry(i, j) == G[i, j] and c.kinship(i, j) == G[i, j] / 2.0
                                 for i in ii for j in ii))
        summ_ok = True
        for fmt, A in (("coancestry", G), ("kinship", G / 2.0)):
            summ_ok &= bool(c.max(format=fmt) == A.max() and c.min(format=fmt) == A.min())
            summ_ok &= bool(numpy.array_equal(c.max(format=fmt, axis=0), A.max(axis=0)))
            summ_ok &= bool(numpy.array_equal(c.min(format=fmt, axis=1), A.min(axis=1)))
            summ_ok &= bool(c.max_inbreeding(format=fmt) == numpy.diag(A).max())
            tot = float(sum(float(v) for v in A.sum(axis=1)))      # row sums, then a plain Python sum
            summ_ok &= bool(abs(float(c.mean(format=fmt)) - tot / (n * n)) <= 1e-10 * scale)
            summ_ok &= bool(numpy.abs(c.mean(format=fmt, axis=0) - A.sum(axis=0) / n).max() <= 1e-10 * scale)
        out["summ_ok"] = summ_ok
        if case.get("sel") is not None and (meth == "mol" or case["p"] is not None):
            idx = [int(i) for i in case["sel"]]
            a = self._build(M, case, gm.select_taxa(idx))
            b = c.select_taxa(idx)
            want = F[numpy.ix_(idx, idx)]
            out["sel_dev"] = float(max(numpy.abs(a.mat - want).max(), numpy.abs(b.mat - want).max()) / scale)
            out["sel_labels"] = bool(list(a.taxa) == [taxa[i] for i in idx] and list(b.taxa) == list(a.taxa)
                                     and list(a.taxa_grp) == [grp[i] for i in idx]
                                     and list(b.taxa_grp) == list(a.taxa_grp))
        return out

    # ---- inverse / minimum inbreeding of well-conditioned matrices larger than the exact oracle handles
    @staticmethod
    def _biginv_mat(case):
        """symmetric, strictly diagonally dominant, dyadic entries: well conditioned for every size"""
        rs = numpy.random.RandomState(case["seed"])
        n = case["n"]
        A = rs.randint(-8, 9, size=(n, n)).astype("float64") / 4.0
        A = numpy.triu(A) + numpy.triu(A, 1).T
        off = numpy.abs(A).sum(axis=1) - numpy.abs(numpy.diag(A))
        A[numpy.diag_indices(n)] = off + rs.randint(1, 9, size=n) / 2.0
        return A

    def _run_biginv(self, M, case):
        A = self._biginv_mat(case)
        n = case["n"]
        c = M["cls"][case["cls"]](mat=_layout(A.copy(), case.get("layout"), junk=-3.0))
        out = {"dev": {}, "touched": []}
        ones = numpy.ones(n)
        for fmt, B in (("coancestry", A), ("kinship", A / 2.0)):
            inv = numpy.asarray(c.inverse(format=fmt))
            if not numpy.array_equal(c.mat, A):
                out["touched"].append(f"inverse({fmt})")
            mi = float(c.min_inbreeding(format=fmt))
            if not numpy.array_equal(c.mat, A):
                out["touched"].append(f"min_inbreeding({fmt})")
            ok_shape = inv.shape == (n, n) and bool(numpy.isfinite(inv).all())
            out["dev"][fmt] = {
                "shape": ok_shape,
                "resid": float(numpy.abs(B @ inv - numpy.eye(n)).max()) if ok_shape else None,
                "resid_left": float(numpy.abs(inv @ B - numpy.eye(n)).max()) if ok_shape else None,
                # 1/(1'G^-1 1) from an independent linear solve on the COANCESTRY matrix, halved for kinship
                "min_inb": mi, "want": float((0.5 if fmt == "kinship" else 1.0) / numpy.linalg.solve(A, ones).sum())}
        return out

    @staticmethod
    def _judge_biginv(case, obs):
        bad = [f"object_modified_by_reading_it({t})" for t in obs["touched"]]
        for fmt, d in obs["dev"].items():
            if not d["shape"]:
                bad.append(f"{fmt}.inverse.shape/finite")
                continue
            if d["resid"] > 1e-9 or d["resid_left"] > 1e-9:
                bad.append(f"{fmt}.inverse(resid={max(d['resid'], d['resid_left']):.3g})")
            if not math.isfinite(d["min_inb"]) or abs(d["min_inb"] - d["want"]) > 1e-9 * abs(d["want"]):
                bad.append(f"{fmt}.min_inbreeding({d['min_inb']!r} vs {d['want']!r})")
        return {"corr": not bad, "spec": not bad, "nontrivial": True,
                "detail": f"biginv[n={case['n']} {case.get('layout')}] spec_failed={bad}"}

    # ------------------------------------------------------------------ model requests
    @staticmethod
    def _base_req(case, obs=None):
        b = {k: case[k] for k in ("method", "ploidy", "phased", "n", "m", "geno", "p", "w")}
        b["via"] = case.get("via", "class")
        if obs is not None and isinstance(obs, dict) and obs.get("eff") is not None:
            b["geno"] = obs["eff"]["geno"]      # a grouped source was sorted by group_taxa(): use what it holds
        return b

    @staticmethod
    def _spec_cmat_req(base, src, o):
        """the Spec request for one freshly built matrix: `src` = labels / metadata of its source"""
        oo = {kk: o[kk] for kk in ("mat", "co", "kin", "taxa", "taxa_grp", "acc")}
        oo["meta"] = None if o["meta"] == "partial" else o["meta"]
        return {"op": "c13.spec_cmat", **base, "taxa": src["taxa"], "taxa_grp": src["taxa_grp"],
                "meta": None if src.get("meta") == "partial" else src.get("meta"), "out": oo}

    @staticmethod
    def _reorder_req(pre, post, name, indices=None):
        strip = lambda o: {k: o[k] for k in ("mat", "taxa", "taxa_grp", "meta")}
        d = {"name": name}
        if indices is not None:
            d["indices"] = [int(i) for i in indices]
        return {"op": "c13.spec_reorder", "pre": strip(pre), "post": strip(post), "do": d}

    _OBJ_OPS = {"reorder": "reorder_taxa", "reorder_taxa": "reorder_taxa", "sort": "sort_taxa",
                "sort_taxa": "sort_taxa", "group": "group_taxa", "group_taxa": "group_taxa",
                "select_taxa": "select_taxa"}

    # ---- the driver is a pure function of the request: answers are memoised by request content, so the model /
    # Spec evaluation of a case whose implementation output did not change (most cases under an in-memory
    # mutant of the self-test, every re-evaluation while shrinking) is not repeated
    _ANSWERS = {}
    _PLANS = {}

    @staticmethod
    def _req_key(r):
        import hashlib
        import json
        return hashlib.sha1(json.dumps(r, sort_keys=True, separators=(",", ":")).encode()).hexdigest()

    def requests(self, case, obs):
        self._end_batch()                            # all implementation calls of the batch are done
        full = self._requests_full(case, obs)
        keys = [self._req_key(r) for r in full]
        send = [k not in self._ANSWERS for k in keys]
        self._PLANS[id(obs)] = (keys, send)
        return [r for r, s_ in zip(full, send) if s_]

    def _merge_answers(self, obs, answers):
        plan = self._PLANS.pop(id(obs), None)
        if plan is None:
            return answers
        keys, send = plan
        it = iter(answers)
        out = []
        for k, s_ in zip(keys, send):
            if s_:
                a = next(it)
                if isinstance(a, dict) and "err" not in a:
                    self._ANSWERS[k] = a
            else:
                a = self._ANSWERS[k]
            out.append(a)
        return out

    def _requests_full(self, case, obs):
        k = case["kind"]
        if k in ("bign", "biginv"):
            return []
        if k == "summ":
            reqs = [{"op": "c13.summ", "mat": case["mat"]}]
            if _finite(obs):
                reqs.append({"op": "c13.spec_summ", "mat": obs["mat"], "co": obs["co"], "kin": obs["kin"],
                             "symmetric": obs["symmetric"]})
            return reqs
        if k == "edit":
            reqs = []
            for st in obs["steps"]:
                if _finite(st):
                    reqs.append({"op": "c13.summ", "mat": st["mat"]})
                    reqs.append({"op": "c13.spec_summ", "mat": st["mat"], "co": st["co"], "kin": st["kin"],
                                 "symmetric": st["symmetric"]})
            if all(_finite(st) for st in obs["steps"]):
                for t, e in enumerate(case["edits"]):
                    inf = obs["info"][t]
                    if e["op"] == "jitter" and inf["draws"] is not None:
                        reqs.append({"op": "c13.jitter", "mat": obs["steps"][t]["mat"], "draws": inf["draws"],
                                     "answers": inf["answers"]})
                    elif e["op"] in ("reorder", "sort", "group"):
                        reqs.append(self._reorder_req(obs["steps"][t]["obj"], obs["steps"][t + 1]["obj"],
                                                      self._OBJ_OPS[e["op"]], e.get("perm")))
            return reqs
        if k == "alias":
            reqs = []
            g0 = obs["gsnaps"][0]
            for o, b in zip(case["objs"], obs["built"]):
                base = self._base_req({**case, **o})
                base["geno"] = g0["geno"]
                if _finite(b):
                    reqs.append(self._spec_cmat_req(base, g0, b))
            for t, op in enumerate(case["ops"]):
                if op["on"] != "gmat" and op["op"] in self._OBJ_OPS:
                    pre = obs["snaps"][t][op["on"]]
                    post = obs["results"][t] if op["op"] == "select_taxa" else obs["snaps"][t + 1][op["on"]]
                    if _finite(pre) and _finite(post):
                        reqs.append(self._reorder_req(pre, post, self._OBJ_OPS[op["op"]], op.get("perm")))
            if obs["late"] is not None and _finite(obs["late"]):
                base = self._base_req({**case, **case["late"]})
                want = self._gmat_expected(case, obs)
                base["geno"] = obs["gsnaps"][-1]["geno"]
                reqs.append(self._spec_cmat_req(base, want, obs["late"]))
            return reqs
        base = self._base_req(case, obs)
        if k == "reject":
            return [{"op": "c13.cmat", **base, "sel": None}]
        reqs = [{"op": "c13.cmat", **base, "sel": case.get("sel")}]
        if _finite(obs):
            src = obs["eff"] if obs.get("eff") is not None else {"taxa": case["taxa"], "taxa_grp": case["taxa_grp"],
                                                                 "meta": None}
            spec = self._spec_cmat_req(base, src, obs)
            if case.get("sel") is not None:
                spec["sel"] = case["sel"]
                spec["out"]["sel_a"] = obs["sel_a"]
                spec["out"]["sel_b"] = obs["sel_b"]
            reqs.append(spec)
            reqs.append({"op": "c13.spec_summ", "mat": obs["mat"], "co": obs["summ"]["co"],
                         "kin": obs["summ"]["kin"], "symmetric": True})
            if case["method"] == "yang":
                reqs.append({"op": "c13.yang_float", **base})
        return reqs

    @staticmethod
    def _gmat_expected(case, obs):
        """labels / metadata the genotype matrix must hold after the operations addressed to it
        (`reorder_taxa` with explicit indices only): computed from its first snapshot"""
        g = dict(obs["gsnaps"][0])
        for t, op in enumerate(case["ops"]):
            if op["on"] == "gmat" and op["op"] in ("sort_taxa", "group_taxa"):
                g = dict(obs["gsnaps"][t + 1])          # the order the genotype matrix chose: read back
            elif op["on"] == "gmat" and op["op"] == "reorder_taxa":
                perm = op["perm"]
                g = {"taxa": None if g["taxa"] is None else [g["taxa"][i] for i in perm],
                     "taxa_grp": None if g["taxa_grp"] is None else [g["taxa_grp"][i] for i in perm], "meta": None}
        return {"taxa": g["taxa"], "taxa_grp": g["taxa_grp"], "meta": g["meta"]}

    # ------------------------------------------------------------------ comparison
    @staticmethod
    def _cmp_summ(model, impl):
        """model summaries (exact, on the model's matrix) against the implementation's; returns list of
        the names that disagree"""
        bad = []
        sc = _scale0(model["co"]["mat"])
        for key in ("co", "kin"):
            ms, im = model[key], impl[key]
            if not _close(ms["mat"], im["mat"], sc):
                bad.append(key + ".mat")
            for name in ("max", "min", "mean"):
                for ax in ("all", "rows", "cols"):
                    if ms[name][ax] is None or not _close(ms[name][ax], im[name][ax], sc):
                        bad.append(f"{key}.{name}.{ax}")
            if ms["max_inb"] is None or not _close(ms["max_inb"], im["max_inb"], sc):
                bad.append(key + ".max_inb")
            if ms["inv"] is not None:
                inv = canon.dec(ms["inv"])
                A = canon.dec(ms["mat"])
                mx = max((abs(v) for r in inv for v in r), default=Fraction(0))
                ma = max((abs(v) for r in A for v in r), default=Fraction(0))
                if len(A) * ma * mx <= 10 ** 4:
                    if im["inv"] is None or not canon.close(inv, canon.dec(im["inv"]), rel=1e-6,
                                                             abs_=float(mx) * 1e-6):
                        bad.append(key + ".inv")
                    tot = sum(v for r in inv for v in r)
                    if abs(tot) * 1000 >= mx:
                        if im["min_inb"] is None or not canon.close_enc(ms["min_inb"], im["min_inb"], rel=1e-6):
                            bad.append(key + ".min_inb")
        return bad

    BIGN_TOL = 1e-9

    def _judge_bign(self, case, obs):
        bad = []
        if not (obs.get("shape_ok") and obs.get("finite")):
            bad.append("shape/finite")
        else:
            if obs["formula_dev"] > self.BIGN_TOL:
                bad.append(f"formula(dev={obs['formula_dev']:.3g})")
            if obs["sym_dev"] > 1e-12:
                bad.append("symmetric")
            for key, name in (("co_exact", "coancestry_view_is_mat"), ("kin_exact", "kinship_exactly_half"),
                              ("taxa_ok", "taxa_carried"), ("grp_ok", "taxa_grp_carried"),
                              ("acc_ok", "accessors"), ("summ_ok", "summaries")):
                if not obs[key]:
                    bad.append(name)
            if "sel_dev" in obs:
                if obs["sel_dev"] > self.BIGN_TOL:
                    bad.append("select_commutes")
                if not obs["sel_labels"]:
                    bad.append("select_labels")
        return {"corr": not bad, "spec": not bad, "nontrivial": True,
                "detail": f"bign[{case['method']}/{case['via']} n={case['n']} m={case['m']}] spec_failed={bad}"}

    def _judge_alias(self, case, obs, answers):
        failed, bad = [], []
        pos = 0
        nobj = len(case["objs"])
        for i, b in enumerate(obs["built"]):
            if not _finite(b):
                failed.append(f"obj{i}.nonfinite")
                continue
            a = answers[pos]["ok"]
            pos += 1
            failed += [f"obj{i}.{f}" for f in a["failed"]]
            if not b["class_ok"] or b["meta"] == "partial":
                failed.append(f"obj{i}.class/meta")
        gexp = dict(obs["gsnaps"][0])
        for t, op in enumerate(case["ops"]):
            before, after = obs["snaps"][t], obs["snaps"][t + 1]
            tgt = op["on"]
            if tgt != "gmat" and op["op"] in self._OBJ_OPS:
                pre = before[tgt]
                post = obs["results"][t] if op["op"] == "select_taxa" else after[tgt]
                if _finite(pre) and _finite(post):
                    a = answers[pos]["ok"]
                    pos += 1
                    failed += [f"op{t}.obj{tgt}.{f}" for f in a["failed"]]
                else:
                    failed.append(f"op{t}.nonfinite")
                if post.get("meta_partial"):
                    failed.append(f"op{t}.obj{tgt}.partial_metadata")
            # every object the operation was not addressed to is untouched (`select_taxa` / `set`: see below)
            for i in range(nobj):
                if i == tgt and op["op"] not in ("select_taxa", "set"):
                    continue
                if i == tgt and op["op"] == "set":
                    want = canon.dec(before[i]["mat"])
                    want = [list(r) for r in want]
                    want[op["i"]][op["j"]] = Fraction(op["v"])
                    want[op["j"]][op["i"]] = Fraction(op["v"])
                    if canon.dec(after[i]["mat"]) != want:
                        bad.append(f"op{t}.obj{i}.element_write")
                    if any(after[i][kk] != before[i][kk] for kk in ("taxa", "taxa_grp", "meta", "names")):
                        failed.append(f"op{t}.obj{i}.labels_changed_by_element_write")
                    continue
                if after[i] != before[i]:
                    what = [kk for kk in ("mat", "taxa", "taxa_grp", "meta", "names") if after[i][kk] != before[i][kk]]
                    failed.append(f"op{t}({op['op']} on {tgt}).obj{i}.changed:{'+'.join(what)}")
            # the genotype matrix: only its own `reorder_taxa` may change it
            g0, g1 = obs["gsnaps"][t], obs["gsnaps"][t + 1]
            if tgt == "gmat" and op["op"] == "gset":
                if (g1["taxa"], g1["taxa_grp"], g1["meta"]) != (g0["taxa"], g0["taxa_grp"], g0["meta"]):
                    bad.append(f"op{t}.gmat.labels_after_data_write")
            elif tgt == "gmat" and op["op"] in ("sort_taxa", "group_taxa"):
                gexp = dict(g1)
                same_sets = sorted(map(str, g0["taxa"] or [])) == sorted(map(str, g1["taxa"] or []))
                if not same_sets:
                    bad.append(f"op{t}.gmat.{op['op']}")
            elif tgt == "gmat":
                perm = op["perm"]
                gexp = {"taxa": None if gexp["taxa"] is None else [gexp["taxa"][i] for i in perm],
                        "taxa_grp": None if gexp["taxa_grp"] is None else [gexp["taxa_grp"][i] for i in perm],
                        "meta": None, "geno": None}
                if (g1["taxa"], g1["taxa_grp"], g1["meta"]) != (gexp["taxa"], gexp["taxa_grp"], gexp["meta"]):
                    bad.append(f"op{t}.gmat.reorder")          # the genotype matrix's own reordering: C03's subject
            elif g1 != g0:
                what = [kk for kk in ("geno", "taxa", "taxa_grp", "meta") if g1[kk] != g0[kk]]
                failed.append(f"op{t}({op['op']} on obj{tgt}).gmat.changed:{'+'.join(what)}")
        if obs["late"] is not None:
            if not _finite(obs["late"]):
                failed.append("late.nonfinite")
            else:
                a = answers[pos]["ok"]
                pos += 1
                failed += [f"late.{f}" for f in a["failed"]]
                if not obs["late"]["class_ok"]:
                    failed.append("late.class")
        return {"corr": not (bad or failed), "spec": not failed, "nontrivial": case["n"] >= 2 and len(case["ops"]) >= 1,
                "detail": f"alias[{'+'.join(o['method'] for o in case['objs'])}] ops="
                          f"{[(o['op'], o['on']) for o in case['ops']]} corr_mismatch={bad} spec_failed={failed}"}

    def _judge_edit(self, case, obs, answers):
        steps = obs["steps"]
        if not all(_finite(st) for st in steps):
            return {"corr": False, "spec": False, "nontrivial": True,
                    "detail": "non-finite matrix / summary after an in-place edit"}
        bad, failed = [], []
        for t, st in enumerate(steps):
            model, spec = answers[2 * t]["ok"], answers[2 * t + 1]["ok"]
            bad += [f"step{t}.{b}" for b in self._cmp_summ(model, st)]
            failed += [f"step{t}.{f}" for f in spec["failed"]]
            failed += [f"step{t}.object_modified_by_reading_it({x})" for x in st.get("touched", [])]
        # the edits themselves: the matrix / labels read back are the edited ones
        changed = False
        extra, nxt = {}, 2 * len(steps)          # position of the additional answer of edit t
        for t, e in enumerate(case["edits"]):
            if (e["op"] == "jitter" and obs["info"][t]["draws"] is not None) or e["op"] in ("reorder", "sort", "group"):
                extra[t] = nxt
                nxt += 1
        for t, e in enumerate(case["edits"]):
            before, after = canon.dec(steps[t]["mat"]), canon.dec(steps[t + 1]["mat"])
            ob, oa = steps[t]["obj"], steps[t + 1]["obj"]
            labels_same = all(ob[kk] == oa[kk] for kk in ("taxa", "taxa_grp", "names"))
            meta_same = ob["meta"] == oa["meta"] and not oa.get("meta_partial")
            want = [list(r) for r in before]
            op = e["op"]
            if op in ("reorder", "sort", "group"):
                a = answers[extra[t]]["ok"]
                failed += [f"edit{t}.{op}.{f}" for f in a["failed"]]
                if oa.get("meta_partial"):
                    failed.append(f"edit{t}.{op}.partial_metadata")
                changed = changed or after != before or not labels_same
                continue
            if op == "set":
                want[e["i"]][e["j"]] = Fraction(e["v"])
                if e.get("mirror"):
                    want[e["j"]][e["i"]] = Fraction(e["v"])
            elif op == "add_diag":
                for i in range(len(want)):
                    want[i][i] = Fraction(float(want[i][i]) + _fl(e["v"]))
            elif op == "assign":
                want = [[Fraction(v) for v in r] for r in e["mat"]]
            elif op == "mutate_view":
                if after != before:
                    # an array handed out by a read-only method shares memory with the object
                    failed.append(f"edit{t}.object_changed_through_returned_array({e['what']})")
            elif op == "read":
                if after != before:
                    failed.append(f"edit{t}.object_changed_by_reading_its_summaries")
            else:                                   # jitter: the model with the recorded oracle inputs
                inf = obs["info"][t]
                if inf["draws"] is not None:
                    mj = answers[extra[t]]["ok"]
                    if mj["ok"] != inf["ok"] or not _close(mj["mat"], steps[t + 1]["mat"],
                                                              _scale(mj["mat"]), rel=1e-12):
                        bad.append(f"edit{t}.jitter_model")
                lo, hi = Fraction(e["lo"]), Fraction(e["hi"])
                for i in range(len(want)):
                    d = after[i][i] - before[i][i]
                    if d != 0 and lo * Fraction(999, 1000) <= d <= hi * Fraction(1001, 1000):
                        want[i][i] = after[i][i]
            if want != after and op not in ("mutate_view", "read"):
                bad.append(f"edit{t}.matrix")
            if not labels_same:
                failed.append(f"edit{t}.labels_changed_by_{op}")
            if not meta_same and op != "assign":
                bad.append(f"edit{t}.metadata")
            changed = changed or after != before
        if not obs["same_array"]:
            bad.append("matrix object replaced")
        return {"corr": not (bad or failed), "spec": not failed,
                "nontrivial": changed and len(steps[0]["mat"]) >= 2,
                "detail": f"edit[{case['src']}] ops={[e['op'] for e in case['edits']]} corr_mismatch={bad} "
                          f"spec_failed={failed} jitter="
                          f"{[None if i is None else (i['ok'], i['answers']) for i in obs['info']]}"}

    def judge(self, case, obs, answers):
        answers = self._merge_answers(obs, answers)
        v = self._judge(case, obs, answers)
        v["all_answers"] = answers                   # memoised answers included (the core only keeps the sent ones)
        return v

    def _judge(self, case, obs, answers):
        for a in answers:
            if "err" in a:
                raise RuntimeError("driver error: " + a["err"])
        k = case["kind"]
        if k == "bign":
            return self._judge_bign(case, obs)
        if k == "biginv":
            return self._judge_biginv(case, obs)
        if k == "alias":
            return self._judge_alias(case, obs, answers)
        if k == "summ":
            model = answers[0]["ok"]
            if not _finite(obs):
                return {"corr": False, "spec": False, "nontrivial": True, "detail": "non-finite summary of a finite matrix"}
            spec = answers[1]["ok"]
            bad = self._cmp_summ(model, obs)
            xbad = _extras_bad(obs)
            return {"corr": not (bad or xbad), "spec": bool(spec["ok"]) and not xbad, "nontrivial": len(case["mat"]) >= 2,
                    "detail": f"summ corr_mismatch={bad} spec_failed={spec['failed'] + xbad}"}
        if k == "edit":
            return self._judge_edit(case, obs, answers)
        if k == "reject":
            model = answers[0]["ok"]
            mtag = _MODEL_TAG.get(model.get("err"), model.get("err"))
            corr = (mtag == obs["err"])
            return {"corr": corr, "spec": True, "nontrivial": False,
                    "detail": f"reject model={model.get('err')} impl={obs['err']} {obs.get('text', '')}"}
        model = answers[0]["ok"]
        if not _finite(obs):
            return {"corr": False, "spec": False, "nontrivial": True,
                    "detail": "non-finite relationship matrix / summary on a valid input"}
        spec1 = answers[1]["ok"]
        spec2 = answers[2]["ok"]
        bad = []
        if "err" in model:
            bad.append("model rejects: " + str(model["err"]))
        else:
            sc = _scale0(model["mat"])
            if not _close(model["mat"], obs["mat"], sc):
                bad.append("mat")
            bad += self._cmp_summ(model, obs["summ"])
            if case.get("sel") is not None:
                for key in ("sel_a", "sel_b"):
                    if not isinstance(model[key], list) or not _close(model[key], obs[key]["mat"], sc):
                        bad.append(key)
            if case["method"] == "yang":
                yf = answers[3]["ok"]
                if "err" in yf or not _finite(yf["mat"]) or not _close(yf["mat"], obs["mat"], sc):
                    bad.append("yang_as_written_on_Float")
        xbad = _extras_bad(obs["summ"])
        if not obs.get("source_intact", True):
            xbad.append("source_genotype_matrix_modified")
        if not obs.get("object_intact", True):
            xbad.append("object_modified_by_reading_it")
        if not obs.get("args_intact", True):
            xbad.append("argument_array_modified")
        spec = (bool(spec1["ok"]) and bool(spec2["ok"]) and obs["class_ok"] and obs["meta"] != "partial"
                and not xbad)
        X = case["geno"] if not case["phased"] else \
            [[sum(case["geno"][ph][i][kk] for ph in range(case["ploidy"])) for kk in range(case["m"])]
             for i in range(case["n"])]
        nontriv = (case["n"] >= 2 and case["m"] >= 2 and len({tuple(r) for r in X}) >= 2
                   and any(self._polymorphic(X, case["ploidy"], kk) for kk in range(case["m"])))
        return {"corr": not (bad or xbad), "spec": spec, "nontrivial": nontriv,
                "detail": f"cmat[{case['method']}/{case['via']}] corr_mismatch={bad} "
                          f"spec_failed={spec1['failed'] + spec2['failed'] + xbad} class_ok={obs['class_ok']}"}

    def signature(self, case, obs, verdict):
        sig = {"kind": case["kind"], "method": case.get("method", case.get("cls"))}
        failed = []
        for a in verdict.get("all_answers", verdict.get("answers", [])) or []:
            if isinstance(a, dict) and isinstance(a.get("ok"), dict) and "failed" in a["ok"]:
                failed += a["ok"]["failed"]
        sig["failed"] = ",".join(sorted(set(failed)))
        return sig

    def shrink(self, case):
        k = case["kind"]
        if k == "edit":
            for t in range(len(case["edits"])):
                if len(case["edits"]) > 1:
                    c = dict(case)
                    c["edits"] = case["edits"][:t] + case["edits"][t + 1:]
                    yield c
            return
        if k == "bign":
            return
        if k == "biginv":
            for nn in (17, 24, 33, 65):
                if nn < case["n"]:
                    yield {**case, "n": nn}
            return
        if k == "alias":
            for t in range(len(case["ops"])):
                c = dict(case)
                c["ops"] = case["ops"][:t] + case["ops"][t + 1:]
                yield c
            if case.get("late") is not None:
                c = dict(case)
                c["late"] = None
                yield c
            return
        if k == "summ":
            n = len(case["mat"])
            if n > 12:                                  # large matrices: halve first
                for keep in (range(n // 2), range(n // 2, n), range(1, n), range(n - 1)):
                    keep = list(keep)
                    c = dict(case)
                    c["mat"] = [[case["mat"][i][j] for j in keep] for i in keep]
                    if c["taxa"] is not None:
                        c["taxa"] = [case["taxa"][i] for i in keep]
                    yield c
                return
            for i in range(n):
                if n > 1:
                    c = dict(case)
                    c["mat"] = [[v for j, v in enumerate(r) if j != i] for ii, r in enumerate(case["mat"]) if ii != i]
                    if c["taxa"] is not None:
                        c["taxa"] = [t for j, t in enumerate(c["taxa"]) if j != i]
                    yield c
            return
        n, m = case["n"], case["m"]
        if case.get("sel") is not None:
            c = dict(case)
            c["sel"] = None
            yield c
        if n > 1:                                           # drop a taxon
            for i in range(n):
                c = dict(case)
                c["n"] = n - 1
                if case["phased"]:
                    c["geno"] = [[r for ii, r in enumerate(ph) if ii != i] for ph in case["geno"]]
                else:
                    c["geno"] = [r for ii, r in enumerate(case["geno"]) if ii != i]
                for key in ("taxa", "taxa_grp"):
                    if case.get(key) is not None:
                        c[key] = [t for ii, t in enumerate(case[key]) if ii != i]
                if case.get("sel") is not None:
                    def adj(j, i=i, n=n):
                        a = j if j >= 0 else n + j           # the taxon meant
                        if a == i:
                            return None
                        if j >= 0:
                            return j - (1 if j > i else 0)
                        return j if a > i else j + 1           # end-relative indices stay end-relative
                    c["sel"] = [adj(j) for j in case["sel"] if adj(j) is not None] or None
                yield c
        if m > 1:                                           # drop a marker
            for kk in range(m):
                c = dict(case)
                c["m"] = m - 1
                if case["phased"]:
                    c["geno"] = [[[v for j, v in enumerate(r) if j != kk] for r in ph] for ph in case["geno"]]
                else:
                    c["geno"] = [[v for j, v in enumerate(r) if j != kk] for r in case["geno"]]
                for key in ("p", "w"):
                    if isinstance(case.get(key), list):
                        c[key] = [v for j, v in enumerate(case[key]) if j != kk]
                yield c
        for key in ("taxa", "taxa_grp"):
            if case.get(key) is not None:
                c = dict(case)
                c[key] = None
                yield c

    # ------------------------------------------------------------------ self-test mutants
    def mutants(self):
        M = _mods()
        Mol, VR, Yang, GW = (M["cls"][k] for k in METHODS)
        Base = M["base"]

        @contextlib.contextmanager
        def patch(obj, name, new):
            old = obj.__dict__[name]
            setattr(obj, name, new)
            try:
                yield
            finally:
                setattr(obj, name, old)

        def finish(cls, G, gmat, keep_grp=True):
            out = cls(mat=G, taxa=gmat.taxa, taxa_grp=gmat.taxa_grp if keep_grp else None)
            return out

        def resolve_p(gmat, p):
            if p is None:
                return gmat.afreq()
            if isinstance(p, numpy.ndarray):
                return p
            return numpy.repeat(float(p), gmat.nvrnt)

        # --- mechanism 1: molecular
        def mol_uncentred(cls, gmat, **kw):
            X = gmat.tacount(int)
            r = 1.0 / gmat.nvrnt
            if gmat.ploidy == 1:
                Y = 1 - X
                G = (2.0 * r) * ((X @ X.T) + (Y @ Y.T))
            else:
                G = 1.0 + r * (X @ X.T)                    # X not shifted to {-1,0,1}
            return finish(cls, G, gmat)

        def mol_no_rnvrnt(cls, gmat, **kw):
            X = gmat.tacount(int)
            if gmat.ploidy == 1:
                Y = 1 - X
                G = 2.0 * ((X @ X.T) + (Y @ Y.T)).astype(float)
            else:
                X -= 1
                G = 1.0 + 1.0 * (X @ X.T)                  # 1/m dropped
            return finish(cls, G, gmat)

        def mol_haploid_half(cls, gmat, **kw):
            X = gmat.tacount(int)
            r = 1.0 / gmat.nvrnt
            if gmat.ploidy == 1:
                Y = 1 - X
                G = r * ((X @ X.T) + (Y @ Y.T))            # (1/m) for (2/m)
            else:
                X -= 1
                G = 1.0 + r * (X @ X.T)
            return finish(cls, G, gmat)

        # --- mechanism 2: VanRaden
        def vr_scale_no_ploidy(cls, gmat, p_anc=None, **kw):
            p = resolve_p(gmat, p_anc)
            Z = gmat.tacount() - p[None, :] * float(gmat.ploidy)
            G = (1.0 / p.dot(1.0 - p)) * Z.dot(Z.T)
            return finish(cls, G, gmat)

        def vr_gram_transposed(cls, gmat, p_anc=None, **kw):
            p = resolve_p(gmat, p_anc)
            Z = gmat.tacount() - p[None, :] * float(gmat.ploidy)
            W = Z.T.dot(Z)                                  # Z'Z (markers × markers) folded back to n × n
            n = Z.shape[0]
            G = numpy.zeros((n, n))
            k = min(n, W.shape[0])
            G[:k, :k] = W[:k, :k]
            G = (1.0 / (float(gmat.ploidy) * p.dot(1.0 - p))) * G
            return finish(cls, G, gmat)

        def vr_centre_no_ploidy(cls, gmat, p_anc=None, **kw):
            p = resolve_p(gmat, p_anc)
            Z = gmat.tacount() - p[None, :]
            G = (1.0 / (float(gmat.ploidy) * p.dot(1.0 - p))) * Z.dot(Z.T)
            return finish(cls, G, gmat)

        # --- mechanism 3: Yang
        def yang_no_sqrt(cls, gmat, p_anc=None, **kw):
            p = resolve_p(gmat, p_anc)
            Z = gmat.tacount() - p[None, :] * float(gmat.ploidy)
            Z = Z * (1.0 / (float(gmat.ploidy) * p * (1.0 - p)))
            G = (1.0 / gmat.nvrnt) * Z.dot(Z.T)
            return finish(cls, G, gmat)

        def yang_no_m(cls, gmat, p_anc=None, **kw):
            p = resolve_p(gmat, p_anc)
            Z = gmat.tacount() - p[None, :] * float(gmat.ploidy)
            Z = Z * (1.0 / numpy.sqrt(float(gmat.ploidy) * p * (1.0 - p)))
            G = Z.dot(Z.T)
            return finish(cls, G, gmat)

        # --- mechanism 4: generalised weighted
        def gw_mut(kind):
            def f(cls, gmat, mkrwt=None, afreq=None, **kw):
                m = gmat.nvrnt
                w = numpy.full((m,), 1.0) if mkrwt is None else \
                    (mkrwt if isinstance(mkrwt, numpy.ndarray) else numpy.full((m,), float(mkrwt)))
                p = gmat.afreq() if afreq is None else \
                    (afreq if isinstance(afreq, numpy.ndarray) else numpy.full((m,), float(afreq)))
                Z = gmat.tacount() - float(gmat.ploidy) * p[None, :]
                if kind == "ignore_w":
                    G = Z.dot(Z.T)
                elif kind == "w_squared":
                    G = (Z * w[None, :] * w[None, :]).dot(Z.T)
                else:                                       # weights applied to the uncentred matrix
                    G = (gmat.tacount() * w[None, :]).dot(Z.T)
                return finish(cls, G, gmat)
            return f

        # --- mechanism 5: formats and summaries
        def asformat_same(self, format):
            return self._mat.copy()

        def kinship_same(self, *args, **kw):
            return self._mat[args]

        def min_inb_no_inverse(self, format="coancestry"):
            out = 1.0 / self.mat.sum()
            return 0.5 * out if format.lower() == "kinship" else out

        def min_inb_kinship_double(self, format="coancestry"):
            out = 1.0 / numpy.linalg.inv(self.mat).sum()
            return 2.0 * out if format.lower() == "kinship" else out

        def inverse_kinship_half(self, format="coancestry"):
            out = numpy.linalg.inv(self._mat)
            return 0.5 * out if format.lower() == "kinship" else out

        def max_inb_all(self, format="coancestry"):
            out = self.mat.max()
            return 0.5 * out if format.lower() == "kinship" else out

        def mean_swapped_axis(self, format="coancestry", axis=None, dtype=None):
            ax = axis if axis is None else 1 - axis
            out = self._mat.mean(axis=ax, dtype=dtype)
            if format.lower() == "kinship":
                out = out * 0.5
            return out

        def max_is_absmax(self, format="coancestry", axis=None):
            out = numpy.abs(self._mat).max(axis=axis)
            if format.lower() == "kinship":
                out = out * 0.5
            return out

        def psd_always(self, eigvaltol=2e-14):
            return True

        # --- labels / factories
        def vr_drop_grp(cls, gmat, p_anc=None, **kw):
            p = resolve_p(gmat, p_anc)
            Z = gmat.tacount() - p[None, :] * float(gmat.ploidy)
            G = (1.0 / (float(gmat.ploidy) * p.dot(1.0 - p))) * Z.dot(Z.T)
            return finish(cls, G, gmat, keep_grp=False)

        def mol_sorted_taxa(cls, gmat, **kw):
            X = gmat.tacount(int)
            r = 1.0 / gmat.nvrnt
            if gmat.ploidy == 1:
                Y = 1 - X
                G = (2.0 * r) * ((X @ X.T) + (Y @ Y.T))
            else:
                X -= 1
                G = 1.0 + r * (X @ X.T)
            taxa = None if gmat.taxa is None else numpy.array(sorted(gmat.taxa), dtype=object)
            return cls(mat=G, taxa=taxa, taxa_grp=gmat.taxa_grp)

        VRF = M["fcty"]["vr"]
        MolF = M["fcty"]["mol"]

        def vrf_drops_p(self, gmat, p_anc=None, **kw):
            return VR.from_gmat(gmat=gmat, p_anc=None, **kw)

        def molf_wrong_class(self, gmat, **kw):
            c = Mol.from_gmat(gmat=gmat, **kw)
            return Mol(mat=0.5 * c.mat, taxa=c.taxa, taxa_grp=c.taxa_grp)

        def mol_int8(cls, gmat, **kw):
            X = gmat.tacount("int8")                     # narrow accumulator: X X' wraps at 128
            r = 1.0 / gmat.nvrnt
            if gmat.ploidy == 1:
                Y = (1 - X).astype("int8")
                G = (2.0 * r) * ((X @ X.T) + (Y @ Y.T))
            else:
                X -= 1
                G = 1.0 + r * (X @ X.T)
            return finish(cls, numpy.asarray(G, dtype="float64"), gmat)

        def gw_float32(cls, gmat, mkrwt=None, afreq=None, **kw):
            m = gmat.nvrnt
            w = numpy.full((m,), 1.0) if mkrwt is None else \
                (mkrwt if isinstance(mkrwt, numpy.ndarray) else numpy.full((m,), float(mkrwt)))
            p = gmat.afreq() if afreq is None else \
                (afreq if isinstance(afreq, numpy.ndarray) else numpy.full((m,), float(afreq)))
            Z = (gmat.tacount() - float(gmat.ploidy) * p[None, :]).astype("float32")
            G = (Z * w[None, :].astype("float32")).dot(Z.T).astype("float64")
            return finish(cls, G, gmat)

        orig_inverse = Base.__dict__["inverse"]

        def inverse_memo(self, format="coancestry"):
            key = (id(self._mat), format.lower())       # memoised on the identity of the array
            cache = self.__dict__.setdefault("_inv_cache", {})
            if key not in cache:
                cache[key] = orig_inverse(self, format)
            return cache[key]

        def min_inb_memo(self, format="coancestry"):
            out = 1.0 / inverse_memo(self, "coancestry").sum()
            return 0.5 * out if format.lower() == "kinship" else out

        @contextlib.contextmanager
        def memoised_inverse():
            with patch(Base, "inverse", inverse_memo), patch(Base, "min_inbreeding", min_inb_memo):
                yield

        def mean_memo(self, format="coancestry", axis=None, dtype=None):
            cache = self.__dict__.setdefault("_mean_cache", {})
            key = (id(self._mat), axis)
            if key not in cache:
                cache[key] = self._mat.mean(axis=axis, dtype=dtype)
            out = cache[key]
            return out * 0.5 if format.lower() == "kinship" else out

        def with_meta(cls0, tweak):
            orig = cls0.__dict__["from_gmat"].__func__

            def f(cls, gmat, *a, **kw):
                out = orig(cls, gmat, *a, **kw)
                tweak(out)
                return out
            return classmethod(f)

        def drop_meta(out):
            out.taxa_grp_name = None
            out.taxa_grp_stix = None
            out.taxa_grp_spix = None
            out.taxa_grp_len = None

        def spix_is_stix(out):
            if out.taxa_grp_stix is not None:
                out.taxa_grp_spix = out.taxa_grp_stix.copy()

        def jitter_mut(kind):
            def f(self, eigvaltol=2e-14, minjitter=1e-10, maxjitter=1e-6, nattempt=100):
                diagix = numpy.diag_indices_from(self._mat)
                old = self._mat[diagix].copy()
                counter = 0
                bad = not self.is_positive_semidefinite(eigvaltol)
                while bad and counter < nattempt:
                    u = numpy.random.uniform(minjitter, maxjitter, len(old))
                    if kind == "accumulate":
                        self._mat[diagix] = self._mat[diagix] + u      # adds to the previous attempt
                    elif kind == "offdiag":
                        self._mat[diagix] = old + u
                        if self._mat.shape[0] > 1:
                            self._mat[0, 1] += u[0]                     # touches an off-diagonal entry
                    else:
                        self._mat[diagix] = old + u
                    bad = not self.is_positive_semidefinite(eigvaltol)
                    counter += 1
                if bad:
                    if kind != "no_restore":
                        self._mat[diagix] = old
                    return False
                return True
            return f

        # --- round 3: one mutant per new case kind
        from pybrops.core.mat.DenseSquareTaxaMatrix import DenseSquareTaxaMatrix as SqTaxa
        UG, PG = M["UG"], M["PG"]

        def reorder_in_place(self, indices, **kw):
            for axis in self.square_taxa_axes:
                ix = tuple(indices if i == axis else slice(None) for i in range(self.mat_ndim))
                self._mat = self._mat[ix]
            if self._taxa is not None:
                self._taxa[:] = self._taxa[indices]             # the label buffers are shared with the source
            if self._taxa_grp is not None:
                self._taxa_grp[:] = self._taxa_grp[indices]
            self._taxa_grp_name = self._taxa_grp_stix = self._taxa_grp_spix = self._taxa_grp_len = None

        def gw_blocked(cls, gmat, mkrwt=None, afreq=None, **kw):
            m = gmat.nvrnt
            w = numpy.full((m,), 1.0) if mkrwt is None else \
                (mkrwt if isinstance(mkrwt, numpy.ndarray) else numpy.full((m,), float(mkrwt)))
            p = gmat.afreq() if afreq is None else \
                (afreq if isinstance(afreq, numpy.ndarray) else numpy.full((m,), float(afreq)))
            Z = gmat.tacount() - float(gmat.ploidy) * p[None, :]
            blk = max(min(m, 1024), 1)
            G = numpy.zeros((gmat.ntaxa, gmat.ntaxa))
            for st in range(0, m - blk + 1, blk):                # full blocks only
                Zb = Z[:, st:st + blk]
                G += (Zb * w[None, st:st + blk]).dot(Zb.T)
            return finish(cls, G, gmat)

        def mol_taxa_blocks(cls, gmat, **kw):
            X = gmat.tacount(int)
            r = 1.0 / gmat.nvrnt
            n = X.shape[0]
            G = numpy.ones((n, n)) if gmat.ploidy == 2 else numpy.zeros((n, n))
            blk = 1024
            for a in range(0, n - n % blk if n > blk else n, blk if n > blk else max(n, 1)):   # rows past the last full block are left at the fill value
                b = min(a + blk, n)
                if gmat.ploidy == 1:
                    Y = 1 - X
                    G[a:b, :] = (2.0 * r) * ((X[a:b] @ X.T) + (Y[a:b] @ Y.T))
                else:
                    X1 = X - 1
                    G[a:b, :] = 1.0 + r * (X1[a:b] @ X1.T)
            return finish(cls, G, gmat)

        def afreq_int8(self, dtype=None):
            ax = (self.phase_axis, self.taxa_axis) if hasattr(self, "phase_axis") and self._mat.ndim == 3 else self.taxa_axis
            return self._mat.sum(ax, dtype="int8") / (self.ploidy * self.ntaxa)

        @contextlib.contextmanager
        def narrow_afreq():
            with patch(UG, "afreq", afreq_int8), patch(PG, "afreq", afreq_int8):
                yield

        def yang_clipped(cls, gmat, p_anc=None, **kw):
            p = numpy.clip(resolve_p(gmat, p_anc), 1e-6, 1.0 - 1e-6)         # "avoid division by zero"
            Z = gmat.tacount() - p[None, :] * float(gmat.ploidy)
            Z = Z * (1.0 / numpy.sqrt(float(gmat.ploidy) * p * (1.0 - p)))
            G = (1.0 / gmat.nvrnt) * Z.dot(Z.T)
            return finish(cls, G, gmat)

        def vr_isclose(cls, gmat, p_anc=None, **kw):
            p = resolve_p(gmat, p_anc).astype(float)
            p = numpy.where(numpy.isclose(p, 0.0), 0.0, numpy.where(numpy.isclose(p, 1.0), 1.0, p))
            Z = gmat.tacount() - p[None, :] * float(gmat.ploidy)
            G = (1.0 / (float(gmat.ploidy) * p.dot(1.0 - p))) * Z.dot(Z.T)
            return finish(cls, G, gmat)

        def gw_tiny_weights_dropped(cls, gmat, mkrwt=None, afreq=None, **kw):
            m = gmat.nvrnt
            w = numpy.full((m,), 1.0) if mkrwt is None else \
                (mkrwt.astype(float) if isinstance(mkrwt, numpy.ndarray) else numpy.full((m,), float(mkrwt)))
            w = numpy.where(w < 1e-8, 0.0, w)
            p = gmat.afreq() if afreq is None else \
                (afreq if isinstance(afreq, numpy.ndarray) else numpy.full((m,), float(afreq)))
            Z = gmat.tacount() - float(gmat.ploidy) * p[None, :]
            return finish(cls, (Z * w[None, :]).dot(Z.T), gmat)

        def kinship_scalar_only(self, *args, **kw):
            if all(isinstance(a, (int, numpy.integer)) and a >= 0 for a in args) and len(args) == 2:
                return 0.5 * self._mat[args]
            return self._mat[args]

        def max_negative_axis(self, format="coancestry", axis=None):
            if isinstance(axis, int) and axis < 0:
                axis = 0
            out = self._mat.max(axis=axis)
            if format.lower() == "kinship":
                out = out * 0.5
            return out

        def min_tuple_axis(self, format="coancestry", axis=None):
            if isinstance(axis, tuple):
                axis = axis[0]
            out = self._mat.min(axis=axis)
            if format.lower() == "kinship":
                out = out * 0.5
            return out

        def mol_memory_order(cls, gmat, **kw):
            T = gmat.tacount(int)
            X = T.ravel(order="K").reshape(T.shape)          # walks the buffer, whatever its layout
            r = 1.0 / gmat.nvrnt
            if gmat.ploidy == 1:
                Y = 1 - X
                G = (2.0 * r) * ((X @ X.T) + (Y @ Y.T))
            else:
                X = X - 1
                G = 1.0 + r * (X @ X.T)
            return finish(cls, G, gmat)

        def mean_flat_buffer(self, format="coancestry", axis=None, dtype=None):
            n = self._mat.shape[0]
            A = self._mat.ravel(order="K").reshape(n, n)      # Fortran-ordered input comes out transposed
            out = A.mean(axis=axis, dtype=dtype)
            return out * 0.5 if format.lower() == "kinship" else out

        def mean_checksum_memo(self, format="coancestry", axis=None, dtype=None):
            cache = self.__dict__.setdefault("_mean_cache2", {})
            key = (float(self._mat.sum()), float(numpy.abs(self._mat).sum()), axis)   # invariant under re-ordering
            if key not in cache:
                cache[key] = self._mat.mean(axis=axis, dtype=dtype)
            out = cache[key]
            return out * 0.5 if format.lower() == "kinship" else out

        def max_memo_per_object(self, format="coancestry", axis=None):
            cache = self.__dict__.setdefault("_max_cache", {})
            if axis not in cache:
                cache[axis] = self._mat.max(axis=axis)
            out = cache[axis]
            return out * 0.5 if format.lower() == "kinship" else out

        def asformat_no_copy(self, format):
            return self._mat if format.lower() == "coancestry" else 0.5 * self._mat

        def psd_ignores_tol(self, eigvaltol=2e-14):
            return bool(numpy.all(numpy.linalg.eigvals(self._mat) >= 2e-14))

        def psd_relative(self, eigvaltol=2e-14):
            ev = numpy.linalg.eigvals(self._mat)
            return bool(numpy.all(ev.real >= max(eigvaltol, 0.0) - 1e-5 * numpy.abs(ev).max()))

        def vr_groups_source(cls, gmat, p_anc=None, **kw):
            if gmat.taxa is not None or gmat.taxa_grp is not None:
                gmat.group_taxa()                                # re-orders the caller's genotype matrix
            p = resolve_p(gmat, p_anc)
            Z = gmat.tacount() - p[None, :] * float(gmat.ploidy)
            G = (1.0 / (float(gmat.ploidy) * p.dot(1.0 - p))) * Z.dot(Z.T)
            out = finish(cls, G, gmat)
            out.taxa_grp_name, out.taxa_grp_stix = gmat.taxa_grp_name, gmat.taxa_grp_stix
            out.taxa_grp_spix, out.taxa_grp_len = gmat.taxa_grp_spix, gmat.taxa_grp_len
            return out

        def select_shares_labels(self, indices, **kw):
            mat = self._mat
            for axis in self.square_taxa_axes:
                mat = numpy.take(mat, indices, axis=axis)
            full = len(indices) == self.ntaxa
            taxa = self._taxa if self._taxa is None else numpy.take(self._taxa, indices, axis=0)
            grp = self._taxa_grp if self._taxa_grp is None else numpy.take(self._taxa_grp, indices, axis=0)
            out = self.__class__(mat=mat, taxa=taxa, taxa_grp=grp, **kw)
            if full and list(indices) == sorted(indices):
                out._mat = self._mat                             # "nothing to copy" for the identity selection
            return out

        yang_orig = Yang.__dict__["from_gmat"].__func__
        afreq_memo = {}

        def yang_afreq_memo(cls, gmat, p_anc=None, **kw):
            if p_anc is None:                                    # sample frequencies remembered per source object
                key = (id(gmat), gmat.nvrnt)
                if key not in afreq_memo:
                    afreq_memo[key] = gmat.afreq()
                p_anc = afreq_memo[key]
            return yang_orig(cls, gmat, p_anc=p_anc, **kw)

        def vr_scales_argument(cls, gmat, p_anc=None, **kw):
            p = resolve_p(gmat, p_anc)
            if isinstance(p_anc, numpy.ndarray) and p_anc.dtype == numpy.float64:
                p_anc *= float(gmat.ploidy)                      # the caller's array
                Mx = p_anc[None, :]
            else:
                Mx = p[None, :] * float(gmat.ploidy)
            p = Mx[0] / float(gmat.ploidy)
            Z = gmat.tacount() - Mx
            G = (1.0 / (float(gmat.ploidy) * p.dot(1.0 - p))) * Z.dot(Z.T)
            return finish(cls, G, gmat)

        def kinship_in_place(self, *args, **kw):
            out = self._mat[args]
            out *= 0.5                                           # a slice of the matrix is a view of it
            return out

        # --- round 4: one mutant per new case kind / Spec clause
        import os
        import signal

        def select_clips_matrix(self, indices, **kw):
            mat = self._mat
            for axis in self.square_taxa_axes:
                mat = numpy.take(mat, indices, axis=axis, mode="clip")     # -1 is clipped to 0, labels are not
            taxa = self._taxa if self._taxa is None else numpy.take(self._taxa, indices, axis=0)
            grp = self._taxa_grp if self._taxa_grp is None else numpy.take(self._taxa_grp, indices, axis=0)
            return self.__class__(mat=mat, taxa=taxa, taxa_grp=grp, **kw)

        def reorder_clips_matrix(self, indices, **kw):
            pos = numpy.maximum(numpy.asarray(indices), 0)
            for axis in self.square_taxa_axes:
                ix = tuple(pos if i == axis else slice(None) for i in range(self.mat_ndim))
                self._mat = self._mat[ix]
            if self._taxa is not None:
                self._taxa = self._taxa[indices]
            if self._taxa_grp is not None:
                self._taxa_grp = self._taxa_grp[indices]
            self._taxa_grp_name = self._taxa_grp_stix = self._taxa_grp_spix = self._taxa_grp_len = None

        def gmat_select_wraps_twice(orig):
            def f(self, indices, **kw):
                idx = numpy.asarray(indices)
                idx = numpy.where(idx < 0, idx + self.ntaxa - 1, idx)          # off by one from the end
                return orig(self, idx, **kw)
            return f

        @contextlib.contextmanager
        def gmat_select_end_relative_off_by_one():
            with patch(UG, "select_taxa", gmat_select_wraps_twice(UG.__dict__["select_taxa"])), \
                    patch(PG, "select_taxa", gmat_select_wraps_twice(PG.__dict__["select_taxa"])):
                yield

        def min_inb_in_place(which):
            def f(self, format="coancestry"):
                fmt = format.lower()
                A = self._mat
                if which == "F" and A.flags.f_contiguous and not A.flags.c_contiguous:
                    A[...] = numpy.linalg.inv(A)                              # "overwrite_a" on Fortran-ordered input
                    Ginv = A
                elif which == "kin" and fmt == "kinship":
                    A *= 0.5                                                   # works on the stored matrix ...
                    Ginv = numpy.linalg.inv(A)
                    out = 1.0 / Ginv.sum()                                     # ... which stays halved
                    return out
                elif which == "crash" and A.flags.f_contiguous and not A.flags.c_contiguous and \
                        abs(numpy.linalg.det(A)) < 1e-12:
                    os.kill(os.getpid(), signal.SIGSEGV)                       # a native routine taking the interpreter down
                    Ginv = A
                else:
                    Ginv = numpy.linalg.inv(A)
                out = 1.0 / Ginv.sum()
                return 0.5 * out if fmt == "kinship" else out
            return f

        def max_format_case_sensitive(self, format="coancestry", axis=None):
            out = self._mat.max(axis=axis)
            if format == "kinship":                                           # no .lower()
                out = out * 0.5
            return out

        def mean_explicit_dtype_float32(self, format="coancestry", axis=None, dtype=None):
            out = self._mat.mean(axis=axis, dtype=None if dtype is None else numpy.float32)
            if format.lower() == "kinship":
                out = out * 0.5
            return out

        def inverse_float32_when_large(self, format="coancestry"):
            A = self._mat if format.lower() == "coancestry" else 0.5 * self._mat
            if A.shape[0] > 64:
                return numpy.linalg.inv(A.astype("float32")).astype("float64")   # "saves memory"
            return numpy.linalg.inv(A)

        def min_inb_pinv_when_large(self, format="coancestry"):
            A = self._mat
            if A.shape[0] > 16:
                out = 1.0 / numpy.linalg.inv(A + 1e-6 * numpy.eye(A.shape[0])).sum()   # "regularised"
            else:
                out = 1.0 / numpy.linalg.inv(A).sum()
            return 0.5 * out if format.lower() == "kinship" else out

        def mat_asformat_case(self, format):
            if format == "kinship" or format == "Kinship":
                return 0.5 * self._mat
            return self._mat.copy()                                           # "KINSHIP" falls through to coancestry

        cm = classmethod
        return [
            ("r4_select_taxa_clips_negative_indices_of_the_matrix", lambda: patch(SqTaxa, "select_taxa", select_clips_matrix)),
            ("r4_reorder_taxa_clips_negative_indices_of_the_matrix", lambda: patch(SqTaxa, "reorder_taxa", reorder_clips_matrix)),
            ("r4_gmat_select_taxa_end_relative_off_by_one", gmat_select_end_relative_off_by_one),
            ("r4_min_inbreeding_inverts_fortran_ordered_matrix_in_place", lambda: patch(Base, "min_inbreeding", min_inb_in_place("F"))),
            ("r4_min_inbreeding_kinship_halves_the_stored_matrix", lambda: patch(Base, "min_inbreeding", min_inb_in_place("kin"))),
            ("r4_min_inbreeding_kills_the_interpreter_on_singular_fortran_input", lambda: patch(Base, "min_inbreeding", min_inb_in_place("crash"))),
            ("r4_max_format_string_case_sensitive", lambda: patch(Base, "max", max_format_case_sensitive)),
            ("r4_mat_asformat_upper_case_falls_through", lambda: patch(Base, "mat_asformat", mat_asformat_case)),
            ("r4_mean_explicit_dtype_is_float32", lambda: patch(Base, "mean", mean_explicit_dtype_float32)),
            ("r4_inverse_float32_past_64_taxa", lambda: patch(Base, "inverse", inverse_float32_when_large)),
            ("r4_min_inbreeding_regularised_past_16_taxa", lambda: patch(Base, "min_inbreeding", min_inb_pinv_when_large)),
            ("r3_yang_sample_frequencies_memoised_per_source_id", lambda: patch(Yang, "from_gmat", cm(yang_afreq_memo))),
            ("r3_vr_scales_the_callers_frequency_array", lambda: patch(VR, "from_gmat", cm(vr_scales_argument))),
            ("r3_kinship_accessor_halves_a_view_in_place", lambda: patch(Base, "kinship", kinship_in_place)),
            ("r3_reorder_permutes_shared_label_buffers", lambda: patch(SqTaxa, "reorder_taxa", reorder_in_place)),
            ("r3_gw_blocked_sum_drops_remainder", lambda: patch(GW, "from_gmat", cm(gw_blocked))),
            ("r3_mol_taxa_blocks_drop_remainder", lambda: patch(Mol, "from_gmat", cm(mol_taxa_blocks))),
            ("r3_afreq_int8_accumulator", narrow_afreq),
            ("r3_yang_frequencies_clipped", lambda: patch(Yang, "from_gmat", cm(yang_clipped))),
            ("r3_vr_frequencies_isclose_snapped", lambda: patch(VR, "from_gmat", cm(vr_isclose))),
            ("r3_gw_tiny_weights_dropped", lambda: patch(GW, "from_gmat", cm(gw_tiny_weights_dropped))),
            ("r3_kinship_accessor_halves_scalars_only", lambda: patch(Base, "kinship", kinship_scalar_only)),
            ("r3_max_negative_axis_is_axis0", lambda: patch(Base, "max", max_negative_axis)),
            ("r3_min_tuple_axis_first_only", lambda: patch(Base, "min", min_tuple_axis)),
            ("r3_mol_reads_buffer_in_memory_order", lambda: patch(Mol, "from_gmat", cm(mol_memory_order))),
            ("r3_mean_reads_buffer_in_memory_order", lambda: patch(Base, "mean", mean_flat_buffer)),
            ("r3_mean_memo_keyed_on_checksum", lambda: patch(Base, "mean", mean_checksum_memo)),
            ("r3_max_memo_per_object", lambda: patch(Base, "max", max_memo_per_object)),
            ("r3_mat_asformat_hands_out_internal_array", lambda: patch(Base, "mat_asformat", asformat_no_copy)),
            ("r3_is_psd_ignores_tolerance", lambda: patch(Base, "is_positive_semidefinite", psd_ignores_tol)),
            ("r3_is_psd_relative_tolerance", lambda: patch(Base, "is_positive_semidefinite", psd_relative)),
            ("r3_vr_groups_the_source_in_place", lambda: patch(VR, "from_gmat", cm(vr_groups_source))),
            ("r3_select_identity_shares_matrix", lambda: patch(SqTaxa, "select_taxa", select_shares_labels)),
            ("vr_group_metadata_dropped", lambda: patch(VR, "from_gmat", with_meta(VR, drop_meta))),
            ("mol_group_spix_is_stix", lambda: patch(Mol, "from_gmat", with_meta(Mol, spix_is_stix))),
            ("jitter_not_restored_on_failure", lambda: patch(Base, "apply_jitter", jitter_mut("no_restore"))),
            ("jitter_accumulates_attempts", lambda: patch(Base, "apply_jitter", jitter_mut("accumulate"))),
            ("jitter_touches_offdiagonal", lambda: patch(Base, "apply_jitter", jitter_mut("offdiag"))),
            ("mol_int8_accumulation", lambda: patch(Mol, "from_gmat", cm(mol_int8))),
            ("gw_float32_product", lambda: patch(GW, "from_gmat", cm(gw_float32))),
            ("inverse_memoised_on_array_identity", memoised_inverse),
            ("mean_memoised_on_array_identity", lambda: patch(Base, "mean", mean_memo)),
            ("mol_X_not_centred", lambda: patch(Mol, "from_gmat", cm(mol_uncentred))),
            ("mol_1_over_m_dropped", lambda: patch(Mol, "from_gmat", cm(mol_no_rnvrnt))),
            ("mol_haploid_1_over_m", lambda: patch(Mol, "from_gmat", cm(mol_haploid_half))),
            ("vr_scale_without_ploidy", lambda: patch(VR, "from_gmat", cm(vr_scale_no_ploidy))),
            ("vr_ZtZ", lambda: patch(VR, "from_gmat", cm(vr_gram_transposed))),
            ("vr_centre_without_ploidy", lambda: patch(VR, "from_gmat", cm(vr_centre_no_ploidy))),
            ("yang_scale_without_sqrt", lambda: patch(Yang, "from_gmat", cm(yang_no_sqrt))),
            ("yang_1_over_m_dropped", lambda: patch(Yang, "from_gmat", cm(yang_no_m))),
            ("gw_weights_ignored", lambda: patch(GW, "from_gmat", cm(gw_mut("ignore_w")))),
            ("gw_weights_squared", lambda: patch(GW, "from_gmat", cm(gw_mut("w_squared")))),
            ("gw_weights_on_uncentred", lambda: patch(GW, "from_gmat", cm(gw_mut("uncentred")))),
            ("kinship_view_equals_mat", lambda: patch(Base, "mat_asformat", asformat_same)),
            ("kinship_accessor_equals_coancestry", lambda: patch(Base, "kinship", kinship_same)),
            ("min_inbreeding_without_inverse", lambda: patch(Base, "min_inbreeding", min_inb_no_inverse)),
            ("min_inbreeding_kinship_doubled", lambda: patch(Base, "min_inbreeding", min_inb_kinship_double)),
            ("inverse_kinship_halved", lambda: patch(Base, "inverse", inverse_kinship_half)),
            ("max_inbreeding_over_all_entries", lambda: patch(Base, "max_inbreeding", max_inb_all)),
            ("mean_axis_swapped", lambda: patch(Base, "mean", mean_swapped_axis)),
            ("max_of_absolute_values", lambda: patch(Base, "max", max_is_absmax)),
            ("is_psd_always_true", lambda: patch(Base, "is_positive_semidefinite", psd_always)),
            ("vr_drops_taxa_grp", lambda: patch(VR, "from_gmat", cm(vr_drop_grp))),
            ("mol_sorts_taxa", lambda: patch(Mol, "from_gmat", cm(mol_sorted_taxa))),
            ("vr_factory_drops_p_anc", lambda: patch(VRF, "from_gmat", vrf_drops_p)),
            ("mol_factory_returns_kinship", lambda: patch(MolF, "from_gmat", molf_wrong_class)),
        ]


PROP = C13()
