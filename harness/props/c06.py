"""C06 — optimisers return feasible solutions with truthful objective values.

Functional correspondence (model output == implementation output) for the sorting optimiser, the two
hill-climbers (start subset = oracle input) and the pymoo operators of pymoo_addon (random draws =
oracle inputs, scripted or recorded during real evolutionary runs).  Relational correspondence for
the sixteen optimiser classes: the Lean Spec (`c06.spec_solution`, `c06.spec_optimum`,
`c06.spec_localopt`) is evaluated on every returned Solution on every run.
"""
import contextlib
import io
import itertools
from fractions import Fraction

import numpy

from .. import canon, compat
from ..core import Prop

compat.install()

_CACHE = {}

SUBSET_SINGLE = ["SubsetGeneticAlgorithm"]
SUBSET_MULTI = ["NSGA2SubsetGeneticAlgorithm", "NSGA3SubsetGeneticAlgorithm",
                "NSGA2SteepestDescentSubsetGeneticAlgorithm", "NSGA2StochasticDescentSubsetGeneticAlgorithm",
                "NSGA2MutatorASubsetGeneticAlgorithm", "NSGA2MutatorBSubsetGeneticAlgorithm"]
VECTOR = {"RealGeneticAlgorithm": ("real", 1), "NSGA2RealGeneticAlgorithm": ("real", 2),
          "IntegerGeneticAlgorithm": ("integer", 1), "NSGA2IntegerGeneticAlgorithm": ("integer", 2),
          "BinaryGeneticAlgorithm": ("binary", 1), "NSGA2BinaryGeneticAlgorithm": ("binary", 2)}
MEMETIC = {"NSGA2SteepestDescentSubsetGeneticAlgorithm", "NSGA2StochasticDescentSubsetGeneticAlgorithm",
           "NSGA2MutatorASubsetGeneticAlgorithm", "NSGA2MutatorBSubsetGeneticAlgorithm"}
MUTATOR_AB = {"NSGA2MutatorASubsetGeneticAlgorithm", "NSGA2MutatorBSubsetGeneticAlgorithm"}


def _f(x):
    return float(Fraction(x))


class LabelMap:
    """candidate LABELS of any dtype <-> the integer ids of the table model.  A SubsetProblem's candidate set is an
    arbitrary 1-D array: with `"labels"` in the table the problem object carries those (non-integral, unsorted,
    negative) float labels, the Lean table model keeps the integer ids `space`; the map is injective, a value that
    is no label gets a fresh id outside the space (the same id for the same value)"""

    def __init__(self, labels, ids):
        self.labels = [float(Fraction(v)) for v in labels]
        self.ids = [int(v) for v in ids]
        self.known = dict(zip(self.labels, self.ids))
        assert len(self.known) == len(self.ids)
        self.back = dict(zip(self.ids, self.labels))
        self.unknown = {}

    def id_of(self, v):
        try:
            key = float(v)
        except Exception:
            key = repr(v)
        if key in self.known:
            return self.known[key]
        if key != key:
            key = "nan"
        return self.unknown.setdefault(key, 10 ** 6 + len(self.unknown))

    def to_labels(self, ids):
        return [self.back[int(e)] for e in ids]


_CUR = {"labmap": None}        # label map of the problem object the running case is working on


def _ids(a, lm=False):
    """candidate labels -> the integer ids of the table model (identity for integer-labelled problems)"""
    lm = _CUR["labmap"] if lm is False else lm
    if lm is None:
        return [int(v) for v in numpy.asarray(a).ravel()]
    return [lm.id_of(v) for v in numpy.asarray(a).ravel()]


def _mods():
    if _CACHE:
        return _CACHE
    compat.import_pybrops()
    import importlib
    import pybrops.opt.algo.pymoo_addon as addon
    from pybrops.opt.prob.SubsetProblem import SubsetProblem
    from pybrops.opt.prob.RealProblem import RealProblem
    from pybrops.opt.prob.IntegerProblem import IntegerProblem
    from pybrops.opt.prob.BinaryProblem import BinaryProblem
    import pymoo.operators.crossover.sbx as sbx
    import pymoo.operators.mutation.pm as pm

    algmods = {}
    for name in (["SortingSubsetOptimizationAlgorithm", "SteepestDescentSubsetHillClimber",
                  "SortingSteepestDescentSubsetHillClimber"] + SUBSET_SINGLE + SUBSET_MULTI[:2] + list(VECTOR)):
        algmods[name] = importlib.import_module("pybrops.opt.algo." + name)
    mem = importlib.import_module("pybrops.opt.algo.NSGA2MemeticSubsetGeneticAlgorithm")
    for name in MEMETIC:
        algmods[name] = mem

    class TableSubsetProblem(SubsetProblem):
        """the harness' problem: objective / constraint tables (see Optimize.TableProb in Lean)"""

        def __init__(self, t):
            self.t = t
            space = [int(v) for v in t["space"]]
            self._pos = {v: i for i, v in enumerate(space)}
            self.labmap = LabelMap(t["labels"], space) if t.get("labels") else None
            if self.labmap is not None:
                self._pos = {v: i for i, v in enumerate(self.labmap.labels)}
            lab = self.labmap.labels if self.labmap is not None else space
            self._lin = numpy.array([[_f(v) for v in r] for r in t["lin"]], dtype=float).reshape(len(space), -1)
            self._quad = numpy.array([[_f(v) for v in r] for r in t["quad"]], dtype=float) if t.get("quad") else None
            self._posw = numpy.array([_f(v) for v in t["posw"]], dtype=float) if t.get("posw") else None
            # "signed": the constraint function returns the signed slack cost(x) - budget (the documented
            # G(x) <= 0 form: NEGATIVE when satisfied) instead of the penalty max(0, cost(x) - budget)
            self._ineq = [(numpy.array([_f(v) for v in c["cost"]]), _f(c["budget"]), bool(c.get("signed"))) for c in t.get("ineq", [])]
            self._eq = [(numpy.array([_f(v) for v in c["vec"]]), _f(c["target"]), bool(c.get("signed"))) for c in t.get("eq", [])]
            self._mean = bool(t["mean"])
            self.log = None
            k = int(t["k"])
            super().__init__(
                ndecn=k, decn_space=numpy.array(lab, dtype=float if self.labmap is not None else int),
                # both bounds are documented Optional: "bounds" = "none" | "no_lower" | "no_upper" leaves them out
                decn_space_lower=None if t.get("bounds") in ("none", "no_lower") else numpy.repeat(min(lab), k),
                decn_space_upper=None if t.get("bounds") in ("none", "no_upper") else numpy.repeat(max(lab), k),
                nobj=len(t["obj_wt"]), obj_wt=numpy.array([_f(v) for v in t["obj_wt"]]),
                nineqcv=len(self._ineq), ineqcv_wt=numpy.array([_f(v) for v in t.get("ineq_wt", [])]),
                neqcv=len(self._eq), eqcv_wt=numpy.array([_f(v) for v in t.get("eq_wt", [])]),
                **({"elementwise": False} if t.get("elementwise") is False else {}))
            # rarely used array forms of the candidate set: a non-contiguous view, narrow integer dtypes, read-only
            form = t.get("space_form") if self.labmap is None else None
            if form == "strided":
                big = numpy.zeros(2 * len(space), dtype=int)
                big[::2] = space
                self.decn_space = big[::2]
            elif form in ("int32", "int8"):
                self.decn_space = numpy.array(space, dtype=form)
            elif form == "readonly":
                arr = numpy.array(space, dtype=int)
                arr.setflags(write=False)
                self.decn_space = arr

        def evalfn(self, x, *args, **kwargs):
            if self.log is not None:
                self.log.append(_ids(x, self.labmap))
            ix = [self._pos[int(v)] for v in x] if self.labmap is None else [self._pos[float(v)] for v in x]
            rows = self._lin[ix]
            scale = 1.0 / len(ix) if self._mean else 1.0
            obj = scale * rows.sum(0)
            if self._quad is not None:
                obj[0] += sum(self._quad[ix[p], ix[q]] for p in range(len(ix)) for q in range(p + 1, len(ix)))
            if self._posw is not None:
                obj[0] += float((self._posw * rows[:, 0]).sum())
            ineq = numpy.array([(float(c[ix].sum()) - b) if sg else max(0.0, float(c[ix].sum()) - b)
                                for c, b, sg in self._ineq], dtype=float)
            eq = numpy.array([(float(c[ix].sum()) - b) if sg else abs(float(c[ix].sum()) - b)
                              for c, b, sg in self._eq], dtype=float)
            return self.obj_wt * obj, self.ineqcv_wt * ineq, self.eqcv_wt * eq

    def make_vector_problem(kind, t):
        base = {"real": RealProblem, "integer": IntegerProblem, "binary": BinaryProblem}[kind]
        C = numpy.array([[_f(v) for v in r] for r in t["C"]], dtype=float)
        if kind == "real":
            lo = numpy.array([_f(v) for v in t["lower"]], dtype=float)
            hi = numpy.array([_f(v) for v in t["upper"]], dtype=float)
        else:
            lo = numpy.array([int(v) for v in t["lower"]], dtype=int)
            hi = numpy.array([int(v) for v in t["upper"]], dtype=int)
        # constraints: "cap" (penalty max(0, sum(x) - cap)) and/or a list "ineq" of linear constraints
        # coef . x - budget, each either signed (negative slack when satisfied) or a penalty max(0, .)
        cons = []
        if t.get("cap") is not None:
            cons.append((numpy.ones(len(lo)), _f(t["cap"]), False))
        for c in t.get("ineq", []):
            cons.append((numpy.array([_f(v) for v in c["coef"]], dtype=float), _f(c["budget"]), bool(c.get("signed"))))
        quadw = _f(t["quadw"]) if t.get("quadw") is not None else None

        class VectorProblem(base):
            def __init__(self):
                super().__init__(ndecn=len(lo), decn_space=numpy.stack([lo, hi]), decn_space_lower=lo,
                                 decn_space_upper=hi, nobj=C.shape[0],
                                 obj_wt=numpy.array([_f(v) for v in t["obj_wt"]]),
                                 nineqcv=len(cons),
                                 **({"elementwise": False} if t.get("elementwise") is False else {}))

            def evalfn(self, x, *args, **kwargs):
                xf = numpy.asarray(x, dtype=float)
                raw = C.dot(xf)
                if quadw is not None:          # makes the first two objectives conflict: a real trade-off curve
                    raw = raw.copy()
                    raw[0] += quadw * float((xf * xf).sum())
                obj = self.obj_wt * raw
                ineq = numpy.array([(float(a.dot(xf)) - b) if sg else max(0.0, float(a.dot(xf)) - b) for a, b, sg in cons],
                                   dtype=float) if cons else numpy.zeros(0)
                return obj, self.ineqcv_wt * ineq, numpy.zeros(0)

        return VectorProblem()

    class ScriptedGenerator(numpy.random.Generator):
        """a genuine numpy Generator whose `choice` returns scripted start subsets: `nodup` when the
        caller asks for sampling without replacement, `dup` when it asks for replacement"""

        def __init__(self, nodup, dup):
            super().__init__(numpy.random.PCG64(0))
            self._nodup, self._dup = nodup, dup
            self.calls = []

        def choice(self, a, size=None, replace=True, p=None, axis=0, shuffle=True):
            self.calls.append({"size": int(size) if size is not None else None, "replace": bool(replace)})
            return numpy.array(self._dup if replace else self._nodup, dtype=numpy.asarray(a).dtype)

    _CACHE.update(addon=addon, algmods=algmods, TableSubsetProblem=TableSubsetProblem,
                  make_vector_problem=make_vector_problem, ScriptedGenerator=ScriptedGenerator, sbx=sbx, pm=pm)
    return _CACHE


# ------------------------------------------------------------------------------------------ recording
class _RandomProxy:
    """stands in for `numpy.random` inside pymoo_addon: delegates and records (or replays a script)"""

    def __init__(self, real, script=None):
        self._real = real
        self.log = []
        self._script = list(script) if script is not None else None

    def _draw(self, name, *a, **k):
        if self._script is not None:
            want, val = self._script.pop(0)
            if want != name:
                raise RuntimeError(f"scripted draw mismatch: code asked {name}, script has {want}")
            r = val
        else:
            r = getattr(self._real, name)(*a, **k)
        self.log.append((name, r))
        return r

    def choice(self, *a, **k):
        return self._draw("choice", *a, **k)

    def randint(self, *a, **k):
        return self._draw("randint", *a, **k)

    def random(self, *a, **k):
        return self._draw("random", *a, **k)

    def binomial(self, *a, **k):
        return self._draw("binomial", *a, **k)

    def __getattr__(self, name):
        return getattr(self._real, name)


class _NpProxy:
    def __init__(self, real, random):
        self._real = real
        self.random = random

    def __getattr__(self, name):
        return getattr(self._real, name)


@contextlib.contextmanager
def _patched(obj, name, new):
    old = getattr(obj, name)
    setattr(obj, name, new)
    try:
        yield old
    finally:
        setattr(obj, name, old)


def _ints(a):
    return [int(v) for v in numpy.asarray(a).ravel()]


@contextlib.contextmanager
def _recording(addon, rec, script=None, cap=6):
    """record calls of the subset operators of pymoo_addon (whatever is installed at this moment,
    original or mutant) together with the random draws they consume"""
    rp = _RandomProxy(numpy.random, script)
    rec["random"] = rp
    for key in ("sampling", "crossover", "mutation", "neighbors", "mutator", "stochastic"):
        rec.setdefault(key, [])

    def keep(lst, item):
        if len(lst) < cap:
            lst.append(item)
        else:
            lst[cap - 1] = item          # always keep the last call as well

    samp_do = addon.SubsetRandomSampling._do
    cross_do = addon.ReducedExchangeCrossover._do
    mut_do = addon.ReducedExchangeMutation._do
    sd_hc = addon.MultiObjectiveSteepestDescentHillClimberMutation.hillclimb
    tiled = addon.tiled_choice

    rec.setdefault("recorder_errors", [])

    def guarded(what, fn):
        """the recorder must never turn into an implementation failure: a call it cannot parse is noted
        (and reported as a correspondence failure by the judge), the operator's result is passed on"""
        try:
            fn()
        except Exception as e:
            if len(rec["recorder_errors"]) < 5:
                rec["recorder_errors"].append(f"{what}: {type(e).__name__}: {e}"[:200])

    def w_samp(self, problem, n_samples, **kw):
        out = samp_do(self, problem, n_samples, **kw)

        def note():
            for row in out:
                keep(rec["sampling"], {"space": _ids(self._setspace), "k": int(problem.n_var), "row": _ids(row),
                                       "replace": bool(self._replace)})
        guarded("sampling", note)
        return out

    def w_cross(self, problem, X, **kw):
        n0 = len(rp.log)
        Xin = numpy.array(X, copy=True)
        out = cross_do(self, problem, X, **kw)

        def note():
            draws = rp.log[n0:]
            di = 0
            for i in range(Xin.shape[1]):
                a, b = _ids(Xin[0, i]), _ids(Xin[1, i])
                clen = min(sum(1 for v in a if v not in b), sum(1 for v in b if v not in a))
                nex = None
                if di < len(draws) and draws[di][0] == "randint":
                    nex = int(draws[di][1])
                    di += 1
                mex = None
                if di < len(draws) and draws[di][0] == "choice":
                    mex = _ints(draws[di][1])
                    di += 1
                keep(rec["crossover"], {"a": a, "b": b, "clen": clen, "nex": nex, "mex": mex,
                                        "c1": _ids(out[0, i]), "c2": _ids(out[1, i])})
        guarded("crossover", note)
        return out

    def w_mut(self, problem, X, **kw):
        n0 = len(rp.log)
        Xin = numpy.array(X, copy=True)
        out = mut_do(self, problem, X, **kw)

        def note():
            draws = rp.log[n0:]
            space = _ids(self._setspace)
            for i in range(Xin.shape[0]):
                x = _ids(Xin[i])
                bp = [v for v in space if v not in x]
                mask = []
                if 2 * i < len(draws) and numpy.size(draws[2 * i][1]):
                    pv = min(0.5, 1.0 / max(1, len(x)))
                    mask = [bool(u < pv) for u in numpy.asarray(draws[2 * i][1]).ravel()]
                ch = _ids(draws[2 * i + 1][1]) if 2 * i + 1 < len(draws) else []
                keep(rec["mutation"], {"space": space, "x": x, "mask": mask,
                                       "choice": [bp.index(v) for v in ch if v in bp], "out": _ids(out[i])})
        guarded("mutation", note)
        return out

    def w_sd_hc(self, problem, indiv, *a, **kw):
        n0 = len(rp.log)
        x0 = numpy.array(indiv.get("X"), copy=True)
        pop = sd_hc(self, problem, indiv, *a, **kw)

        def note():
            locus = int(rp.log[n0][1]) if len(rp.log) > n0 else None
            keep(rec["neighbors"], {"space": _ids(self.setspace), "x": _ids(x0), "locus": locus,
                                    "rows": [_ids(r) for r in pop.get("X")] if len(pop) else []})
        guarded("neighbors", note)
        return pop

    tiles = []

    def w_tiled(a, size):
        r = tiled(a, size)
        guarded("tiled_choice", lambda: tiles.append(_ints(r)))
        return r

    def wrap_mutator(cls):
        hc = cls.hillclimb

        def w(self, problem, x, *a, **kw):
            x0 = numpy.array(x, copy=True)
            del tiles[:]
            out = hc(self, problem, x, *a, **kw)
            guarded("mutator", lambda: keep(rec["mutator"], {
                "space": _ids(self.setspace), "x": _ids(x0),
                "lociix": list(tiles[0]) if len(tiles) > 0 else None,
                "alleleix": list(tiles[1]) if len(tiles) > 1 else None, "out": _ids(out)}))
            return out
        return w

    st_hc = addon.StochasticHillClimberMutation.hillclimb

    def w_st(self, problem, x, *a, **kw):
        x0 = numpy.array(x, copy=True)
        out = st_hc(self, problem, x, *a, **kw)
        guarded("stochastic", lambda: keep(rec["stochastic"], {"space": _ids(self.setspace), "x": _ids(x0), "out": _ids(out)}))
        return out

    with contextlib.ExitStack() as st:
        st.enter_context(_patched(addon, "np", _NpProxy(numpy, rp)))
        st.enter_context(_patched(addon.SubsetRandomSampling, "_do", w_samp))
        st.enter_context(_patched(addon.ReducedExchangeCrossover, "_do", w_cross))
        st.enter_context(_patched(addon.ReducedExchangeMutation, "_do", w_mut))
        st.enter_context(_patched(addon.MultiObjectiveSteepestDescentHillClimberMutation, "hillclimb", w_sd_hc))
        st.enter_context(_patched(addon, "tiled_choice", w_tiled))
        st.enter_context(_patched(addon.MutatorA, "hillclimb", wrap_mutator(addon.MutatorA)))
        st.enter_context(_patched(addon.MutatorB, "hillclimb", wrap_mutator(addon.MutatorB)))
        st.enter_context(_patched(addon.StochasticHillClimberMutation, "hillclimb", w_st))
        yield rp


def _snapshot(prob):
    out = {}
    for k, v in sorted(vars(prob).items()):
        if k in ("log",):
            continue
        if isinstance(v, numpy.ndarray):
            out[k] = (str(v.dtype), v.shape, v.tobytes())
        elif isinstance(v, (int, float, bool, str, type(None), numpy.integer, numpy.floating)):
            out[k] = repr(v)
        elif isinstance(v, (list, tuple, dict)):
            out[k] = repr(v) if "array" not in repr(v) else repr(
                [tuple((a.tobytes() if isinstance(a, numpy.ndarray) else a) for a in item) for item in v])
    return out


def _solution_obs(prob, soln, kind):
    """observation of a returned Solution + fresh evaluation of every decision by the real problem"""
    decn = numpy.asarray(soln.soln_decn)
    dt = decn.dtype
    dtype = "bool" if dt == bool else "int" if numpy.issubdtype(dt, numpy.integer) else \
        "float" if numpy.issubdtype(dt, numpy.floating) else str(dt)
    fresh = []
    if decn.ndim == 2:
        for row in decn:
            try:
                o, g, h = prob.evalfn(numpy.array(row, copy=True))
                fresh.append({"obj": canon.enc(o), "ineqcv": canon.enc(g), "eqcv": canon.enc(h)})
            except Exception as e:          # a decision outside the candidate set cannot be evaluated
                fresh.append({"obj": [], "ineqcv": [], "eqcv": [], "error": f"{type(e).__name__}: {e}"[:120]})
    dec_enc = [[int(v) for v in r] for r in decn] if dtype in ("bool", "int") else canon.enc(decn)
    lm = getattr(prob, "labmap", None)
    extra = {}
    if lm is not None and decn.ndim == 2:
        # float-labelled candidate set: the exact returned values go to the Lean Spec (`decn_raw`, membership by value);
        # every other request works on the ids of the table model
        extra["decn_raw"] = canon.enc(decn.astype(float)) if dtype in ("bool", "int", "float") else None
        dec_enc = [_ids(r, lm) for r in decn]
    return {**extra, "nsoln": int(soln.nsoln), "dtype": dtype, "decn": dec_enc, "obj": canon.enc(soln.soln_obj),
            "ineqcv": canon.enc(soln.soln_ineqcv), "eqcv": canon.enc(soln.soln_eqcv), "fresh": fresh,
            "class": type(soln).__name__}


def _finite(x):
    if isinstance(x, list):
        return all(_finite(v) for v in x)
    return x not in ("nan", "inf", "-inf")


class C06(Prop):
    PID = "C06"
    MODULE = "PybropsModel.Props.C06"
    N_QUICK = 560
    N_THOROUGH = 4000
    CORRESPONDENCE = ("functional (sorting, hill-climbers incl. the older copy, pymoo_addon operators, Solution assembly from "
                      "res.X/F/G/H) + relational (16 optimiser classes, histories)")
    RULE = ("table-driven subset problems (2-12 candidates with arbitrary distinct integer labels, subset size 1..min(n,5) "
            "including n = k, 1-3 objectives with mixed-sign weights, sum or mean aggregation, optional pairwise and "
            "position-dependent terms, 0-2 inequality and 0-1 equality constraints written either as penalties max(0, .) / |.| or "
            "in the signed G(x) <= 0 form (negative slack when satisfied), optional bounds left out, tied objective values; "
            "magnitudes: O(1) integers and halves, a large common offset (25000 + {0..11}, 1e9 + {0..23}/2) and a tiny scale "
            "(multiples of 2^-30 / 2^-40)) run through the sorting optimiser, both hill-climbers (Generator, RandomState and scripted "
            "generators, with and without miscout), the older UnconstrainedSteepestAscentSetHillClimber and all subset/real/integer/"
            "binary evolutionary optimisers (1-5 generations, population 2-12, seeded; a third of the subset runs on tight candidate "
            "sets n = k+1, k+2; linear real/integer/binary problems with 0-2 signed or penalty constraints, integer ranges entirely "
            "below zero); long climbs (a hidden chain needing n-2 exchanges with k = 2), order-dependent objectives whose climb "
            "meets the same member set in several arrangements, separable problems with a tie exactly at the k-th key; HISTORIES on "
            "one problem object and one algorithm object per class: repeated minimize, re-assigned obj_wt / ineqcv_wt / candidate set / "
            "bounds between runs, a series of problem objects (earlier ones released), in-place edits of a returned Solution, every "
            "Solution judged at its return and again at the end of the history; operator-level cases with scripted draws (repeated "
            "exchange positions, identical parents, n = k, negative integer bounds).  Non-trivial = n > k and the returned decision "
            "differs from the first k candidates, a history with at least two solutions, or an operator case that changes at least "
            "one chromosome.  Round 5: (a) re-entry climbs - random pairwise-interaction problems selected (by a reference "
            "climb, never used to judge) so that the real climb brings back a member an earlier exchange removed, from the sorted "
            "start and from scripted starts; (b) candidate sets LABELLED with floats (distinct quarters in (-3, 20), unsorted, "
            "negative and integral ones mixed in; also all-integral float labels, and labels 2^-36 apart) for the sorting optimiser, both climbers, all ten "
            "subset evolutionary classes and histories with a re-assigned candidate set")
    TRUSTED = [
        "pymoo's evolutionary loop (selection, survival, duplicate elimination, termination) is not modelled: feasibility "
        "is proved for an arbitrary re-selection between operator applications; truthfulness is proved for the Solution assembled "
        "from ANY set of members pymoo ends with, under pymoo's contract that each member carries the vectors Problem._evaluate "
        "handed over for it (re-checked on every run: Lean Spec on every returned Solution and `c06.assemble` on the recorded "
        "res.X/F/G/H); non-domination of the returned set is checked by the Lean Spec on every run",
        "numpy's argsort returns a permutation that sorts its argument; ties may be broken in any order (the SIMD / "
        "introsort default is not stable), so decisions are compared with the model up to ties and the optimality "
        "theorem is proved for every sorting permutation",
        "numpy.random.choice(a, k, replace=False) returns k distinct positions of a",
        "pymoo's cross_sbx ends with repair_clamp and mut_pm with set_to_bounds_if_outside (pymoo 0.6.2 sources, read): the "
        "integer-operator theorem covers every value the real-coded arithmetic can produce before that clamp; the in-bounds "
        "output is re-checked on every recorded call",
        "float-labelled candidate sets: the table model and every functional-correspondence op work on integer ids; the harness "
        "maps label <-> id injectively (LabelMap; a value that is no label gets a fresh id outside the space) - justified by "
        "`feasible_relabel`.  The feasibility clause itself is evaluated in Lean on the returned VALUES against the rational "
        "labels (`c06.spec_solution` with `labels`: feasibleB at Rat), truthfulness by the problem's own fresh evaluation at "
        "the returned array (a value that is no label cannot be evaluated = not truthful)",
    ]
    ASSUMPTIONS = ["objective / constraint tables are integers or dyadic rationals, so numpy's float arithmetic is exact "
                   "(mean aggregation: within 1e-9 relative)",
                   "an optimiser that raises because pymoo found no feasible individual (res.X is None) returns no "
                   "solution: the property constrains returned solutions only (recorded as `no_feasible`)",
                   "local optimality is judged with the violation of the problem formulation G <= 0, H = 0: "
                   "(sum max(0,g) + sum |h|, sum obj), which since the repair of D41 is the climbers' own key for signed and "
                   "penalty-style constraint functions alike",
                   "for a candidate set with labels of a non-integer dtype the returned decision is judged by VALUE (k distinct "
                   "values, each equal to a label); no dtype is demanded of it (integer-labelled sets: integer dtype, as before)",
                   "equality constraints of the evolutionary runs have integer data, so |H| is 0 or >= 1/2 and pymoo's "
                   "feasibility tolerance (1e-4) cannot make a member with H != 0 count as feasible"]

    # ------------------------------------------------------------------ generation
    @staticmethod
    def _table(rng, n=None, k=None, nobj=1, separable=False, cons=None, mean=None, tie=False, mag=None, signed=False):
        """mag: None (O(1) integers / halves), "offset" (a large common offset: 25000 + {0..11} or 1e9 + {0..23}/2, so
        that improvements are far below 1e-5 * |score|), "tiny" (multiples of 2^-30 or 2^-40: whole objective range
        below 1e-8).  signed: constraint functions return the signed slack (negative when satisfied)"""
        n = n if n is not None else rng.choice([2, 3, 4, 4, 5, 5, 6, 6, 7, 8, 9, 10])
        k = k if k is not None else rng.choice([x for x in (1, 2, 2, 3, 3, 4, 5) if x <= n] + ([n] if rng.random() < 0.15 else []))
        space = rng.sample(range(-9, 60), n)
        hi = rng.choice([1, 3, 6, 9]) if tie else rng.choice([3, 9, 20])
        unit = Fraction(1)
        if mag == "offset":
            if rng.random() < 0.6:
                lin = [[25000 + rng.randint(0, 11) for _ in range(nobj)] for _ in range(n)]
            else:
                lin = [[10 ** 9 + Fraction(rng.randint(0, 23), 2) for _ in range(nobj)] for _ in range(n)]
        elif mag == "tiny":
            unit = Fraction(1, 2 ** rng.choice([30, 30, 40]))
            lin = [[rng.randint(-hi, hi) * unit for _ in range(nobj)] for _ in range(n)]
        else:
            lin = [[rng.randint(-hi, hi) for _ in range(nobj)] for _ in range(n)]
            if rng.random() < 0.2:
                lin = [[Fraction(v, 2) for v in r] for r in lin]
        t = {"space": space, "k": k, "lin": canon.enc(lin),
             "mean": (rng.random() < 0.4) if mean is None else mean,
             "obj_wt": canon.enc([rng.choice([1, 1, -1, -1, 2, Fraction(1, 2)]) for _ in range(nobj)])}
        if not separable:
            if rng.random() < 0.5:
                q = [[0] * n for _ in range(n)]
                for a in range(n):
                    for b in range(a + 1, n):
                        q[a][b] = q[b][a] = rng.randint(-4, 4) * unit
                t["quad"] = canon.enc(q)
            if rng.random() < 0.25 and mag is None:
                t["posw"] = [rng.randint(0, 3) for _ in range(k)]
        if t["mean"] and (t.get("quad") or t.get("posw")) and k not in (1, 2, 4, 8):
            # 1/k is not a binary fraction: (1/k)*s + q may break in floats a tie that is exact over the
            # rationals, and the hill-climber correspondence is functional (it follows every comparison)
            t["mean"] = False
        if t["mean"] and mag is not None and k not in (1, 2, 4, 8):
            t["mean"] = False           # keep every float operation exact on the extreme magnitudes
        if rng.random() < 0.1:
            t["space_form"] = rng.choice(["strided", "int32", "int8", "readonly"])
        elif rng.random() < 0.12:
            t["labels"] = C06._labels(rng, n)      # float-labelled candidate set (non-integral, unsorted, some negative)
        cons = cons if cons is not None else rng.choice(["none", "none", "ineq", "ineq", "eq", "both", "tight"])
        if cons in ("ineq", "both", "tight"):
            t["ineq"], t["ineq_wt"] = [], []
            for _ in range(rng.choice([1, 1, 2])):
                cost = [rng.randint(0, 4) for _ in range(n)]
                srt = sorted(cost)
                lo, up = sum(srt[:k]), sum(srt[-k:])
                budget = lo if cons == "tight" else rng.randint(lo, max(lo, up))
                c = {"cost": cost, "budget": budget}
                if signed and rng.random() < 0.8:
                    c["signed"] = True
                t["ineq"].append(c)
                t["ineq_wt"].append(canon.enc(rng.choice([1, 1, 2, Fraction(1, 2)])))
        if cons in ("eq", "both"):
            vec = [rng.randint(0, 1) for _ in range(n)]
            if cons == "both" and rng.random() < 0.5:
                vec = [1] * n          # met by every subset: equality and inequality values both reported, H = 0 != G
            some = rng.sample(range(n), k)
            t["eq"] = [{"vec": vec, "target": sum(vec[i] for i in some)}]
            if signed and rng.random() < 0.5:
                t["eq"][0]["signed"] = True
            t["eq_wt"] = [canon.enc(rng.choice([1, 2]))]
        return t

    @staticmethod
    def _ref_moves(t, init):
        """number of exchanges the steepest-descent climber makes from `init` on an unconstrained table problem
        (reference re-implementation in exact arithmetic; only used to SELECT long climbs, never to judge)"""
        pos = {e: i for i, e in enumerate(t["space"])}
        lin = [canon.dec(r[0]) for r in t["lin"]]
        quad = [[canon.dec(v) for v in r] for r in t["quad"]] if t.get("quad") else None
        w = canon.dec(t["obj_wt"][0])
        posw = [canon.dec(v) for v in t["posw"]] if t.get("posw") else None

        def score(x):
            ix = [pos[e] for e in x]
            sc = sum(lin[i] for i in ix)
            if posw:
                sc += sum(pw * lin[i] for pw, i in zip(posw, ix))
            if quad:
                sc += sum(quad[ix[a]][ix[b]] for a in range(len(ix)) for b in range(a + 1, len(ix)))
            return w * sc
        soln = list(init)
        wrk = [e for e in t["space"] if e not in soln]
        cur = score(soln)
        moves = 0
        while moves < 200:
            best = None
            for i in range(len(soln)):
                for j in range(len(wrk)):
                    soln[i], wrk[j] = wrk[j], soln[i]
                    sc = score(soln)
                    if sc < (best[0] if best else cur):
                        best = (sc, i, j)
                    soln[i], wrk[j] = wrk[j], soln[i]
            if best is None:
                return moves
            cur, i, j = best
            soln[i], wrk[j] = wrk[j], soln[i]
            moves += 1
        return moves

    @staticmethod
    def _labels(rng, n):
        """candidate labels of a non-integer dtype: n distinct quarters in (-3, 20), unsorted, some negative, some integral,
        at least two non-integral (a cast to an integer type leaves the candidate set or collides); a quarter of the time
        finely spaced labels instead"""
        if rng.random() < 0.25:
            # finely spaced labels (2^-36 apart, around 1, 1000 or -3): distinct floats that any tolerance, rounding to a few
            # decimals or a narrower float type identifies with each other
            base = rng.choice([1, 1000, -3])
            return canon.enc([base + Fraction(j, 2 ** 36) for j in rng.sample(range(0, 64), n)])
        while True:
            lab = [Fraction(v, 4) for v in rng.sample(range(-12, 80), n)]
            if sum(1 for v in lab if v.denominator != 1) >= min(2, n):
                return canon.enc(lab)

    @staticmethod
    def _ref_trace(n, k, lin, q, start):
        """exchanges (member out, candidate in) of the steepest-descent climb from `start` (positions) on the
        unconstrained integer problem Σ lin + Σ_{a<b} q; reference re-implementation used only to SELECT cases"""
        soln = list(start)
        wrk = [e for e in range(n) if e not in soln]

        def score(x):
            return sum(lin[i] for i in x) + sum(q[x[a]][x[b]] for a in range(len(x)) for b in range(a + 1, len(x)))
        cur = score(soln)
        trace = []
        while len(trace) < 100:
            best = None
            for i in range(k):
                for j in range(len(wrk)):
                    soln[i], wrk[j] = wrk[j], soln[i]
                    sc = score(soln)
                    if sc < (best[0] if best else cur):
                        best = (sc, i, j)
                    soln[i], wrk[j] = wrk[j], soln[i]
            if best is None:
                break
            cur, i, j = best
            trace.append((soln[i], wrk[j]))
            soln[i], wrk[j] = wrk[j], soln[i]
        return trace

    def _reentry(self, rng, mode=None):
        """NON-separable problem on which the climb brings a member back that an earlier exchange removed (pairwise
        terms: an element that was inferior in one context is the best insertion in a later one).  A climber that
        never proposes removed elements again (tabu list, 'retired' mask, a working set that shrinks) scans an
        incomplete neighbourhood from then on.  mode: "sorted" (SortingSteepestDescent..., start = k smallest single
        keys), "scripted" (SteepestDescent..., scripted start), "old" (UnconstrainedSteepestAscent..., seeded start)"""
        mode = mode or rng.choice(["sorted", "scripted", "old"])
        for _ in range(600):
            n = rng.choice([7, 8, 9, 10, 11])
            k = rng.choice([2, 3, 3, 4, 5])
            space = rng.sample(range(-9, 60), n)
            lin = rng.sample(range(-6, 7), n) if mode == "sorted" else [rng.randint(-2, 2) for _ in range(n)]
            q = [[0] * n for _ in range(n)]
            for a in range(n):
                for b in range(a + 1, n):
                    q[a][b] = q[b][a] = rng.randint(-15, 15)
            seed = rng.randrange(10 ** 6)
            if mode == "sorted":
                start = sorted(range(n), key=lambda e: lin[e])[:k]
            elif mode == "old":
                drawn = numpy.random.default_rng(seed).choice(numpy.array(space, dtype=int), (k,), replace=False)
                start = [space.index(int(e)) for e in drawn]
            else:
                start = rng.sample(range(n), k)
            tr = self._ref_trace(n, k, lin, q, start)
            gone = set()
            back = False
            for o, i in tr:
                back = back or i in gone
                gone.add(o)
            if back:
                break
        t = {"space": space, "k": k, "lin": [[v] for v in lin], "mean": False, "obj_wt": [1], "quad": q}
        if mode == "old":
            # maximises the weighted score: weight -1 turns it into the minimisation the reference climb follows
            return {"kind": "old_hillclimb", "prob": dict(t, obj_wt=[-1]), "seed": seed}
        if rng.random() < 0.15:
            t["labels"] = self._labels(rng, n)
        if mode == "sorted":
            return {"kind": "sorting_hillclimb", "prob": t}
        init = [space[e] for e in start]
        dup = list(init)
        dup[-1] = dup[0]
        return {"kind": "hillclimb", "prob": t, "gen": "scripted", "init": init, "dup": dup}

    @staticmethod
    def _position_dependent(rng):
        """order-dependent objective (as in mate selection, where the positions of the subset vector are the
        female / male slots): score = Σ_p posw[p] * lin[x_p] with distinct position weights, few spare candidates, so
        that the climb meets the same SET of members in different arrangements (a cache keyed by the set, or a
        re-evaluation of the sorted decision, reports the value of another arrangement)"""
        best = None
        for _ in range(6):             # the longest of a few random climbs (more arrangements of the same sets)
            k = rng.choice([2, 3, 3, 4])
            n = k + rng.choice([1, 1, 2, 3])
            space = rng.sample(range(-9, 60), n)
            posw = rng.sample(range(0, 7), k)
            t = {"space": space, "k": k, "lin": [[rng.randint(-9, 9)] for _ in range(n)], "mean": False,
                 "obj_wt": [rng.choice([1, -1, 2])], "posw": posw}
            init = rng.sample(space, k)
            mv = C06._ref_moves(t, init)
            if best is None or mv > best[0]:
                best = (mv, t, init)
        _, t, init = best
        dup = list(init)
        dup[-1] = dup[0]
        return {"kind": "hillclimb", "prob": t, "gen": "scripted", "init": init, "dup": dup}

    @staticmethod
    def _staircase(rng, n=None):
        """k = 2, pairwise interactions: the pairs (p_i, p_i+1) of a hidden chain score -5(i+1), every other pair +50;
        p_0, p_1 carry the two smallest single-member keys.  From {p_0, p_1} (also the sorted start) steepest descent
        slides along the chain: n - 2 exchanges, each the only improving one"""
        n = n or rng.choice([6, 7, 8, 9, 10, 12])
        space = rng.sample(range(-9, 60), n)
        chain = list(range(n))
        rng.shuffle(chain)
        q = [[50] * n for _ in range(n)]
        for i in range(n):
            q[i][i] = 0
        for i in range(n - 1):
            a, b = chain[i], chain[i + 1]
            q[a][b] = q[b][a] = -5 * (i + 1)
        lin = [[0] for _ in range(n)]
        lin[chain[0]] = [-1]
        lin[chain[1]] = [-1]
        t = {"space": space, "k": 2, "lin": lin, "mean": False, "obj_wt": [1], "quad": q}
        return t, [space[chain[0]], space[chain[1]]]

    def _long_climb(self, rng):
        if rng.random() < 0.6:
            t, init = self._staircase(rng)
            if rng.random() < 0.35:
                return {"kind": "sorting_hillclimb", "prob": t}
            return {"kind": "hillclimb", "prob": t, "gen": "scripted", "init": init, "dup": [init[0], init[0]]}
        return self._long_climb_random(rng)

    def _long_climb_random(self, rng):
        """unconstrained pairwise-interaction problem and a start from which the climb takes MORE exchanges than the
        subset has members (an iteration cap of ndecn, n or 2*ndecn moves stops before the local optimum)"""
        best = None
        for _ in range(12):
            n = rng.choice([8, 9, 10, 11])
            k = rng.choice([2, 3, 3, 4])
            space = rng.sample(range(-9, 60), n)
            q = [[0] * n for _ in range(n)]
            for a in range(n):
                for b in range(a + 1, n):
                    q[a][b] = q[b][a] = rng.randint(-9, 9)
            t = {"space": space, "k": k, "lin": [[rng.randint(-3, 3)] for _ in range(n)], "mean": False,
                 "obj_wt": [rng.choice([1, -1])], "quad": q}
            init = rng.sample(space, k)
            mv = self._ref_moves(t, init)
            if best is None or mv - k > best[0]:
                best = (mv - k, t, init)
            if mv > k + 1:
                break
        _, t, init = best
        dup = list(init)
        dup[-1] = dup[0]
        return {"kind": "hillclimb", "prob": t, "gen": "scripted", "init": init, "dup": dup}

    @staticmethod
    def _boundary_tie(rng):
        """separable problem whose k-th smallest key is tied, with strictly better candidates listed AFTER the
        tied ones: a selection that cuts at `key <= cutoff` in candidate order misses them"""
        k = rng.randint(2, 5)
        t_better = rng.randint(1, k - 1)                 # strictly better than the boundary value
        n_tied = (k - t_better) + rng.randint(1, 3)      # more tied candidates than free places
        n_worse = rng.randint(0, 3)
        v = rng.randint(-3, 6)
        keys = [v] * n_tied + [v + rng.randint(1, 5) for _ in range(n_worse)]
        rng.shuffle(keys)
        keys += [v - rng.randint(1, 4) for _ in range(t_better)]          # the better ones come last
        if rng.random() < 0.3:                                            # sometimes one worse candidate at the very end
            keys.append(v + rng.randint(1, 5))
        wt = rng.choice([1, -1])
        return {"space": rng.sample(range(-9, 60), len(keys)), "k": k, "lin": [[wt * x] for x in keys],
                "mean": rng.random() < 0.3, "obj_wt": [wt]}

    @staticmethod
    def _vector(rng, kind, nobj, signed=None):
        n = rng.randint(1, 5)
        if kind == "real":
            lo = [Fraction(rng.randint(-8, 8), 4) for _ in range(n)]
            hi = [l + Fraction(rng.randint(1, 12), 4) for l in lo]
        elif kind == "integer":
            # whole ranges below zero included (rounding of negative values, negative upper bounds)
            lo = [rng.randint(-9, 3) for _ in range(n)]
            hi = [l + rng.randint(0, 5) for l in lo]
        else:
            lo, hi = [0] * n, [1] * n
        t = {"lower": canon.enc(lo), "upper": canon.enc(hi),
             "C": [[rng.randint(-4, 4) for _ in range(n)] for _ in range(nobj)],
             "obj_wt": canon.enc([rng.choice([1, -1, 2]) for _ in range(nobj)]), "cap": None}
        r = rng.random()
        if r < 0.25:
            t["cap"] = canon.enc(sum(lo) + Fraction(rng.randint(0, 2 * n), 2))
        elif r < 0.65:
            # linear constraints coef . x <= budget with the budget between the box minimum and maximum of coef . x;
            # signed (default 3 in 4): the reported value is the negative slack of a satisfied constraint, different
            # for different members of a front
            t["ineq"] = []
            for _ in range(rng.choice([1, 1, 2])):
                coef = [rng.randint(-3, 3) for _ in range(n)]
                cmin = sum(min(c * l, c * h) for c, l, h in zip(coef, lo, hi))
                cmax = sum(max(c * l, c * h) for c, l, h in zip(coef, lo, hi))
                budget = cmin + (cmax - cmin) * Fraction(rng.choice([2, 3, 3, 4]), 4)
                sg = (rng.random() < 0.75) if signed is None else signed
                t["ineq"].append({"coef": coef, "budget": canon.enc(budget), "signed": sg})
        if kind == "real" and nobj >= 2 and rng.random() < 0.3:
            t["quadw"] = canon.enc(rng.choice([1, Fraction(1, 2)]))
        return t

    def corpus(self):
        sep = {"space": [10, 13, 11, 17, 12, 19], "k": 3, "lin": [[3], [1], [4], [1], [5], [9]], "mean": False, "obj_wt": [1]}
        tie = {"space": [7, 3, 5, 1], "k": 2, "lin": [[2], [2], [2], [2]], "mean": True, "obj_wt": [-1]}
        con = dict(sep, ineq=[{"cost": [1, 2, 3, 1, 2, 3], "budget": 4}], ineq_wt=[1],
                   quad=[[0, 2, 0, 3, 0, 0], [2, 0, 1, 4, 0, 0], [0, 1, 0, 0, 2, 0], [3, 4, 0, 0, 0, 1], [0, 0, 2, 0, 0, 0], [0, 0, 0, 1, 0, 0]])
        full = {"space": [5, 3, 9], "k": 3, "lin": [[1, 2], [0, 1], [2, 0]], "mean": False, "obj_wt": [1, -1]}
        mo = {"space": [10, 13, 11, 17, 12, 19], "k": 3, "lin": [[3, 1], [1, 5], [4, 1], [1, 4], [5, 9], [9, 2]], "mean": False, "obj_wt": [1, 1]}
        stair = {"space": [20, 38, 39, 7, 15, -4, 54, -1], "k": 2, "lin": [[-1], [0], [0], [0], [0], [-1], [0], [0]], "mean": False, "obj_wt": [1],
                 "quad": [[0, 50, -10, 50, 50, -5, 50, 50], [50, 0, 50, 50, -25, 50, 50, -20], [-10, 50, 0, 50, 50, 50, 50, -15],
                          [50, 50, 50, 0, 50, 50, -35, 50], [50, -25, 50, 50, 0, 50, -30, 50], [-5, 50, 50, 50, 50, 0, 50, 50],
                          [50, 50, 50, -35, -30, 50, 0, 50], [50, -20, -15, 50, 50, 50, 50, 0]]}
        small = {"space": [5, 3, 9, 1], "k": 3, "lin": [[0, 0], [2, 3], [4, 2], [1, 1]], "mean": False, "obj_wt": [1, 1]}
        reent = {"space": [0, 1, 2, 3, 4, 5, 6, 7, 8], "k": 3, "mean": False, "obj_wt": [1],
                 "lin": [[3], [-1], [3], [1], [-4], [0], [-1], [1], [1]],
                 "quad": [[0, -1, 7, -1, -6, 1, 1, -5, 1], [-1, 0, -2, -5, 8, 5, -5, -8, 0], [7, -2, 0, 0, -10, 4, 2, -9, -4],
                          [-1, -5, 0, 0, -6, -1, 3, -2, 7], [-6, 8, -10, -6, 0, 6, 1, 2, -2], [1, 5, 4, -1, 6, 0, -1, 5, 3],
                          [1, -5, 2, 3, 1, -1, 0, 5, -3], [-5, -8, -9, -2, 2, 5, 5, 0, 5], [1, 0, -4, 7, -2, 3, -3, 5, 0]]}
        flab = ["7/4", "-1/2", 3, "17/4", "11/2", "-9/4"]                  # labels of the 6 candidates of sep / con / mo
        fnear = ["68719476741/68719476736", "68719476753/68719476736", 1, "68719476739/68719476736", "68719476767/68719476736",
                 "68719476737/68719476736"]                                 # 1 + {5, 17, 0, 3, 31, 1} * 2^-36
        flab9 = ["1/2", "7/4", 3, "17/4", "11/2", "27/4", 8, "-5/4", "-5/2"]
        return [
            {"kind": "sorting", "prob": sep},
            {"kind": "sorting", "prob": tie},
            {"kind": "sorting", "prob": {"space": [4], "k": 1, "lin": [[0]], "mean": False, "obj_wt": [1]}},
            # tie exactly at the selection boundary, strictly better candidate listed after the tied ones
            {"kind": "sorting", "prob": {"space": [21, 8, 13, 40], "k": 2, "lin": [[5], [5], [1], [7]], "mean": False, "obj_wt": [1]}},
            {"kind": "sorting", "prob": {"space": [3, 9, 1, 7, 5], "k": 3, "lin": [[-2], [-2], [-2], [-6], [-4]], "mean": False, "obj_wt": [-1]}},
            # unconstrained, non-separable: the sorted start has cv = 0 but a single exchange improves it
            {"kind": "sorting_hillclimb", "prob": {"space": [11, 4, 25, 8], "k": 2, "lin": [[1], [2], [3], [4]], "mean": False, "obj_wt": [1],
                                                   "quad": [[0, 9, 0, 0], [9, 0, 0, 0], [0, 0, 0, 0], [0, 0, 0, 0]]}},
            # constrained: the first feasible point of the climb is not yet a single-exchange local optimum
            {"kind": "sorting_hillclimb", "prob": {"space": [11, 4, 25, 8, 30], "k": 2, "lin": [[1], [2], [5], [3], [9]], "mean": False, "obj_wt": [1],
                                                   "ineq": [{"cost": [3, 3, 0, 0, 0], "budget": 3}], "ineq_wt": [1]}},
            {"kind": "hillclimb", "prob": con, "gen": "real", "seed": 1},
            {"kind": "hillclimb", "prob": con, "gen": "scripted", "init": [19, 12, 11], "dup": [19, 19, 12]},
            {"kind": "hillclimb", "prob": dict(sep, k=6), "gen": "real", "seed": 2},
            {"kind": "sorting_hillclimb", "prob": con},
            {"kind": "ga", "algo": "SubsetGeneticAlgorithm", "prob": con, "ngen": 3, "pop_size": 6, "seed": 3},
            {"kind": "ga", "algo": "NSGA2SubsetGeneticAlgorithm", "prob": mo, "ngen": 3, "pop_size": 6, "seed": 4},
            # candidate set only slightly larger than the subset
            {"kind": "ga", "algo": "SubsetGeneticAlgorithm", "prob": {"space": [5, 3, 9, 1], "k": 3, "lin": [[4], [2], [3], [1]], "mean": False, "obj_wt": [-1]},
             "ngen": 5, "pop_size": 8, "seed": 11},
            {"kind": "ga", "algo": "NSGA2SubsetGeneticAlgorithm", "prob": {"space": [5, 3, 9, 1, 6, 2], "k": 4, "lin": [[4, 1], [2, 2], [3, 0], [1, 5], [0, 3], [2, 2]], "mean": False, "obj_wt": [1, -1]},
             "ngen": 5, "pop_size": 8, "seed": 12},
            {"kind": "ga", "algo": "NSGA2SteepestDescentSubsetGeneticAlgorithm", "prob": full, "ngen": 2, "pop_size": 4, "seed": 5, "phc": 1.0},
            # regression cases of D34 (duplicate members, fixed by f3bb3b1b) and D35 (n = k crash, fixed by 39facf4d)
            {"kind": "ga", "algo": "NSGA2MutatorASubsetGeneticAlgorithm", "prob": small, "ngen": 3, "pop_size": 6, "seed": 0, "phc": 1.0, "nhcstep": None},
            {"kind": "ga", "algo": "NSGA2MutatorBSubsetGeneticAlgorithm", "prob": small, "ngen": 3, "pop_size": 6, "seed": 0, "phc": 1.0, "nhcstep": None},
            {"kind": "ga", "algo": "NSGA2MutatorASubsetGeneticAlgorithm", "prob": full, "ngen": 2, "pop_size": 4, "seed": 1, "phc": 1.0, "nhcstep": None},
            {"kind": "ga", "algo": "NSGA2MutatorBSubsetGeneticAlgorithm", "prob": full, "ngen": 2, "pop_size": 4, "seed": 1, "phc": 1.0, "nhcstep": None},
            {"kind": "ga", "algo": "NSGA2StochasticDescentSubsetGeneticAlgorithm", "prob": full, "ngen": 2, "pop_size": 4, "seed": 1, "phc": 1.0, "nhcstep": None},
            # pymoo finds no feasible individual (budget 0): the optimiser raises, nothing is returned (vacuous)
            {"kind": "ga", "algo": "SubsetGeneticAlgorithm", "prob": dict(sep, ineq=[{"cost": [1, 2, 3, 1, 2, 3], "budget": 0}], ineq_wt=[1]),
             "ngen": 2, "pop_size": 4, "seed": 3},
            {"kind": "ga", "algo": "NSGA2IntegerGeneticAlgorithm", "vkind": "integer",
             "prob": {"lower": [0, 0], "upper": [3, 3], "C": [[1, 2], [-1, 1]], "obj_wt": [1, 1], "cap": -1}, "ngen": 2, "pop_size": 4, "seed": 3},
            # ---- round 4 -------------------------------------------------------------------------------------
            # constraint functions in the documented G(x) <= 0 form (negative slack when satisfied), every pymoo-driven
            # family: the Solution assembled from res.G / res.H must carry the signed values
            {"kind": "ga", "algo": "SubsetGeneticAlgorithm", "prob": dict(sep, ineq=[{"cost": [1, 2, 3, 1, 2, 3], "budget": 7, "signed": True}], ineq_wt=[1]),
             "ngen": 3, "pop_size": 6, "seed": 21},
            {"kind": "ga", "algo": "NSGA2SubsetGeneticAlgorithm", "prob": dict(mo, ineq=[{"cost": [1, 2, 3, 1, 2, 3], "budget": 8, "signed": True},
                                                                                      {"cost": [2, 0, 1, 1, 0, 2], "budget": 4, "signed": True}], ineq_wt=[1, 2]),
             "ngen": 3, "pop_size": 8, "seed": 22},
            {"kind": "ga", "algo": "NSGA3SubsetGeneticAlgorithm", "prob": dict(mo, ineq=[{"cost": [1, 2, 3, 1, 2, 3], "budget": 8, "signed": True}], ineq_wt=[1]),
             "ngen": 2, "pop_size": 6, "seed": 23, "nrefpts": 4},
            {"kind": "ga", "algo": "IntegerGeneticAlgorithm", "vkind": "integer",
             "prob": {"lower": [-6, -6, -6], "upper": [-1, -1, -1], "C": [[1, 2, -1]], "obj_wt": [-1], "cap": None,
                      "ineq": [{"coef": [1, 1, 1], "budget": -5, "signed": True}]}, "ngen": 3, "pop_size": 6, "seed": 24},
            {"kind": "ga", "algo": "BinaryGeneticAlgorithm", "vkind": "binary",
             "prob": {"lower": [0, 0, 0, 0], "upper": [1, 1, 1, 1], "C": [[-3, -1, -2, -2]], "obj_wt": [1], "cap": None,
                      "ineq": [{"coef": [2, 1, 1, 2], "budget": 4, "signed": True}]}, "ngen": 3, "pop_size": 6, "seed": 25},
            {"kind": "ga", "algo": "RealGeneticAlgorithm", "vkind": "real",
             "prob": {"lower": [0, "-1/2"], "upper": [2, "3/2"], "C": [[1, -2]], "obj_wt": [1], "cap": None,
                      "ineq": [{"coef": [1, 1], "budget": 3, "signed": True}]}, "ngen": 3, "pop_size": 6, "seed": 26},
            # multi-objective real front with several members whose signed constraint values differ row by row
            {"kind": "ga", "algo": "NSGA2RealGeneticAlgorithm", "vkind": "real",
             "prob": {"lower": [0, 0, 0], "upper": [2, 2, 2], "C": [[1, 1, 0], [-1, -1, 1]], "obj_wt": [1, 1], "cap": None,
                      "ineq": [{"coef": [1, 2, -1], "budget": 5, "signed": True}, {"coef": [-1, 0, 1], "budget": 2, "signed": True}]},
             "ngen": 4, "pop_size": 10, "seed": 27},
            {"kind": "ga", "algo": "NSGA2IntegerGeneticAlgorithm", "vkind": "integer",
             "prob": {"lower": [-4, -4], "upper": [3, 3], "C": [[1, 1], [-1, -1]], "obj_wt": [1, 1], "cap": None,
                      "ineq": [{"coef": [1, -1], "budget": 2, "signed": True}]}, "ngen": 3, "pop_size": 8, "seed": 28},
            # as many equality as inequality constraints (arrays of equal shape), equality met by every subset
            {"kind": "ga", "algo": "NSGA2SteepestDescentSubsetGeneticAlgorithm", "ngen": 2, "pop_size": 6, "seed": 40, "phc": 0.5,
             "prob": dict(mo, ineq=[{"cost": [1, 2, 3, 1, 2, 3], "budget": 9, "signed": True}], ineq_wt=[1],
                          eq=[{"vec": [1, 1, 1, 1, 1, 1], "target": 3}], eq_wt=[1])},
            {"kind": "ga", "algo": "NSGA2MutatorBSubsetGeneticAlgorithm", "ngen": 2, "pop_size": 6, "seed": 41, "phc": 0.5, "nhcstep": 2,
             "prob": dict(mo, ineq=[{"cost": [1, 2, 3, 1, 2, 3], "budget": 9, "signed": True}], ineq_wt=[2],
                          eq=[{"vec": [1, 1, 1, 1, 1, 1], "target": 3, "signed": True}], eq_wt=[1])},
            {"kind": "ga", "algo": "SubsetGeneticAlgorithm", "ngen": 2, "pop_size": 6, "seed": 42,
             "prob": dict(sep, ineq=[{"cost": [1, 2, 3, 1, 2, 3], "budget": 9, "signed": True}], ineq_wt=[1],
                          eq=[{"vec": [1, 1, 1, 1, 1, 1], "target": 3}], eq_wt=[1])},
            # legacy RandomState generator and the optional miscout dictionary
            {"kind": "ga", "algo": "SubsetGeneticAlgorithm", "prob": sep, "ngen": 2, "pop_size": 4, "seed": 29, "rngkind": "RandomState", "miscout": True},
            {"kind": "ga", "algo": "NSGA2RealGeneticAlgorithm", "vkind": "real", "rngkind": "RandomState", "miscout": True,
             "prob": {"lower": [0, 0], "upper": [1, 1], "C": [[1, 0], [-1, 1]], "obj_wt": [1, 1], "cap": None}, "ngen": 2, "pop_size": 4, "seed": 30},
            {"kind": "hillclimb", "prob": con, "gen": "real", "seed": 31, "rngkind": "RandomState", "miscout": True},
            # a large common offset (subset scores ~1e5 and ~4e9, single-exchange improvements of 1 and 0.5) and a tiny
            # scale (whole objective range below 1e-8): exact comparison decides, not a tolerance
            {"kind": "hillclimb", "gen": "scripted", "init": [11, 25, 3, 17], "dup": [11, 11, 3, 17],
             "prob": {"space": [11, 25, 3, 17, 7, 4, 30, 8, 19, 2, 40, 21], "k": 4, "mean": False, "obj_wt": [1],
                      "lin": [[25002], [25009], [25001], [25003], [25000], [25007], [25004], [25011], [25005], [25006], [25008], [25010]]}},
            {"kind": "hillclimb", "gen": "scripted", "init": [5, 9, 1], "dup": [5, 5, 1],
             "prob": {"space": [5, 9, 1, 7, 3, 8], "k": 3, "mean": False, "obj_wt": [1],
                      "lin": [["2000000011/2"], ["2000000007/2"], [1000000009], ["2000000001/2"], [1000000000], ["2000000003/2"]]}},
            {"kind": "hillclimb", "gen": "scripted", "init": [5, 9, 1], "dup": [5, 5, 1],
             "prob": {"space": [5, 9, 1, 7, 3, 8], "k": 3, "mean": False, "obj_wt": [1],
                      "lin": [["5/1073741824"], ["3/1073741824"], ["7/1073741824"], ["-2/1073741824"], ["1/1073741824"], ["-4/1073741824"]]}},
            {"kind": "sorting_hillclimb",
             "prob": {"space": [11, 4, 25, 8, 30], "k": 2, "mean": False, "obj_wt": [1], "lin": [[25001], [25002], [25003], [25004], [25009]],
                      "quad": [[0, 9, 0, 0, 0], [9, 0, 0, 0, 0], [0, 0, 0, 0, 0], [0, 0, 0, 0, 0], [0, 0, 0, 0, 0]]}},
            {"kind": "sorting", "prob": {"space": [5, 9, 1, 7, 3, 8], "k": 3, "mean": False, "obj_wt": [1],
                                         "lin": [["2000000011/2"], ["2000000007/2"], [1000000009], ["2000000001/2"], [1000000000], ["2000000003/2"]]}},
            {"kind": "sorting", "prob": {"space": [5, 9, 1, 7, 3, 8], "k": 2, "mean": False, "obj_wt": [-1],
                                         "lin": [["5/1073741824"], ["3/1073741824"], ["7/1073741824"], ["-2/1073741824"], ["1/1073741824"], ["-4/1073741824"]]}},
            {"kind": "ga", "algo": "SubsetGeneticAlgorithm", "ngen": 3, "pop_size": 6, "seed": 32,
             "prob": {"space": [5, 9, 1, 7, 3, 8], "k": 2, "mean": False, "obj_wt": [1],
                      "lin": [["5/1073741824"], ["3/1073741824"], ["7/1073741824"], ["-2/1073741824"], ["1/1073741824"], ["-4/1073741824"]]}},
            # histories: ONE algorithm object per class, one problem object whose public attributes the user re-assigns
            # between runs (weights, candidate set, bounds), or a series of problem objects (the earlier ones released)
            {"kind": "history", "prob": sep, "seed": 1, "steps": [
                {"op": "min", "algo": "sorting"}, {"op": "set_wt", "obj_wt": [-1]}, {"op": "min", "algo": "sorting"},
                {"op": "min", "algo": "hillclimb", "seed": 5}, {"op": "poke"}, {"op": "set_wt", "obj_wt": [1]},
                {"op": "min", "algo": "hillclimb", "seed": 5}, {"op": "min", "algo": "sorting_hillclimb"},
                {"op": "set_space", "keep": [5, 0, 2, 4]}, {"op": "min", "algo": "sorting"}, {"op": "min", "algo": "hillclimb", "seed": 5},
                {"op": "min", "algo": "sorting_hillclimb"}]},
            {"kind": "history", "prob": con, "seed": 2, "steps": [
                {"op": "min", "algo": "hillclimb", "seed": 7}, {"op": "min", "algo": "hillclimb", "seed": 7},
                {"op": "min", "algo": "SubsetGeneticAlgorithm", "seed": 8, "ngen": 2, "pop_size": 6}, {"op": "set_wt", "obj_wt": [-2]},
                {"op": "set_cwt", "ineq_wt": [3]},
                {"op": "min", "algo": "SubsetGeneticAlgorithm", "seed": 8, "ngen": 2, "pop_size": 6}, {"op": "min", "algo": "sorting_hillclimb"}]},
            {"kind": "history", "prob": mo, "seed": 3, "steps": [
                {"op": "min", "algo": "NSGA2SubsetGeneticAlgorithm", "seed": 9, "ngen": 2, "pop_size": 6}, {"op": "poke"},
                {"op": "set_wt", "obj_wt": [1, -1]}, {"op": "min", "algo": "NSGA2SubsetGeneticAlgorithm", "seed": 9, "ngen": 2, "pop_size": 6}]},
            {"kind": "history", "prob": sep, "seed": 4, "steps": [st for i_ in range(7) for st in (
                {"op": "new_prob", "prob": {"space": [10, 13, 11, 17, 12, 19], "k": 3, "mean": False, "obj_wt": [1],
                                            "lin": [[(3 * i_ + 5 * j_ * j_) % 11] for j_ in range(6)]}},
                {"op": "min", "algo": "sorting"}, {"op": "min", "algo": "sorting_hillclimb"})]},
            {"kind": "history", "vkind": "real", "seed": 5,
             "prob": {"lower": [0, 0], "upper": [10, 10], "C": [[-1, -2]], "obj_wt": [1], "cap": None}, "steps": [
                {"op": "min", "algo": "RealGeneticAlgorithm", "seed": 1, "ngen": 3, "pop_size": 6},
                {"op": "set_bounds", "lower": [1, 1], "upper": [4, 4]},
                {"op": "min", "algo": "RealGeneticAlgorithm", "seed": 1, "ngen": 3, "pop_size": 6}]},
            {"kind": "history", "vkind": "real", "seed": 6,
             "prob": {"lower": [0, 0], "upper": [10, 10], "C": [[-1, -2], [1, 0]], "obj_wt": [1, 1], "cap": None}, "steps": [
                {"op": "set_bounds", "lower": [1, 1], "upper": [4, 4]},
                {"op": "min", "algo": "NSGA2RealGeneticAlgorithm", "seed": 2, "ngen": 3, "pop_size": 8}]},
            {"kind": "history", "vkind": "integer", "seed": 7,
             "prob": {"lower": [-5, -5], "upper": [5, 5], "C": [[1, 1]], "obj_wt": [1], "cap": None}, "steps": [
                {"op": "set_bounds", "lower": [-2, -1], "upper": [3, 2]},
                {"op": "min", "algo": "IntegerGeneticAlgorithm", "seed": 3, "ngen": 3, "pop_size": 6},
                {"op": "set_wt", "obj_wt": [-1]}, {"op": "min", "algo": "IntegerGeneticAlgorithm", "seed": 3, "ngen": 3, "pop_size": 6}]},
            # optional bounds left out (None): every subset optimiser family
            {"kind": "ga", "algo": "SubsetGeneticAlgorithm", "prob": dict(sep, bounds="none"), "ngen": 2, "pop_size": 4, "seed": 35},
            {"kind": "ga", "algo": "NSGA2SubsetGeneticAlgorithm", "prob": dict(mo, bounds="no_upper"), "ngen": 2, "pop_size": 6, "seed": 36},
            {"kind": "ga", "algo": "NSGA3SubsetGeneticAlgorithm", "prob": dict(mo, bounds="no_lower"), "ngen": 2, "pop_size": 6, "seed": 37, "nrefpts": 4},
            {"kind": "ga", "algo": "NSGA2MutatorASubsetGeneticAlgorithm", "prob": dict(mo, bounds="none"), "ngen": 2, "pop_size": 4, "seed": 38, "phc": 1.0, "nhcstep": 2},
            {"kind": "hillclimb", "prob": dict(con, bounds="none"), "gen": "real", "seed": 39},
            {"kind": "hillclimb", "prob": dict(con, space_form="readonly"), "gen": "real", "seed": 43},
            {"kind": "sorting_hillclimb", "prob": dict(con, space_form="strided")},
            {"kind": "sorting", "prob": dict(sep, space_form="int8")},
            {"kind": "ga", "algo": "SubsetGeneticAlgorithm", "prob": dict(sep, space_form="readonly"), "ngen": 2, "pop_size": 4, "seed": 44},
            {"kind": "ga", "algo": "NSGA2SubsetGeneticAlgorithm", "prob": dict(mo, space_form="int32"), "ngen": 2, "pop_size": 6, "seed": 45},
            {"kind": "sorting", "prob": dict(sep, bounds="none")},
            # order-dependent objective: the climb meets the set {-6, 50, -3} in two arrangements
            {"kind": "hillclimb", "gen": "scripted", "init": [-6, 58, 50], "dup": [-6, 58, -6],
             "prob": {"space": [58, -6, 50, 22, -3], "k": 3, "lin": [[6], [-2], [3], [8], [-6]], "mean": False, "obj_wt": [2], "posw": [1, 0, 2]}},
            # a long climb: 6 exchanges with a 2-member subset, each the only improving one (iteration caps)
            {"kind": "hillclimb", "gen": "scripted", "init": [-4, 20], "dup": [-4, -4], "prob": stair},
            {"kind": "sorting_hillclimb", "prob": stair},
            # the older copy of the exchange climber (UnconstrainedSteepestAscentSetHillClimber, maximising)
            {"kind": "old_hillclimb", "prob": dict(con, ineq=[], ineq_wt=[]), "seed": 4},
            {"kind": "old_hillclimb", "prob": mo, "seed": 5},
            # regression case of D41 (repaired): signed constraint functions; the climbers used to add the raw values Σ g + Σ h
            # into their violation key and stopped at [12, 15] although [10, 15] is feasible with a better score
            {"kind": "hillclimb", "gen": "scripted", "init": [12, 15], "dup": [12, 12],
             "prob": {"space": [10, 11, 12, 13, 14, 15], "k": 2, "mean": False, "obj_wt": [1], "lin": [[-4], [-3], [-2], [-5], [4], [-3]],
                      "ineq": [{"cost": [4, 3, 0, 3, 3, 0], "budget": 4, "signed": True}, {"cost": [0, 1, 0, 2, 2, 3], "budget": 3, "signed": True}],
                      "ineq_wt": [1, 1]}},
            # regression cases of D42 (repaired): Problem._evaluate, vectorised branch (elementwise = False) evaluated
            # `self.evalfn(v *args, **kwargs)` = v * (): ValueError for ndecn >= 2, the empty vector for ndecn = 1
            {"kind": "ga", "algo": "SubsetGeneticAlgorithm", "prob": dict(sep, elementwise=False), "ngen": 2, "pop_size": 4, "seed": 33},
            {"kind": "ga", "algo": "SubsetGeneticAlgorithm", "prob": dict(sep, k=1, elementwise=False), "ngen": 2, "pop_size": 4, "seed": 34},
            {"kind": "ga", "algo": "NSGA2SubsetGeneticAlgorithm", "prob": dict(mo, elementwise=False), "ngen": 2, "pop_size": 6, "seed": 46},
            {"kind": "ga", "algo": "NSGA2RealGeneticAlgorithm", "vkind": "real",
             "prob": {"lower": [0, 0], "upper": [2, 2], "C": [[1, 0], [-1, 1]], "obj_wt": [1, 1], "cap": None, "elementwise": False,
                      "ineq": [{"coef": [1, 1], "budget": 3, "signed": True}]}, "ngen": 2, "pop_size": 6, "seed": 47},
            {"kind": "ga", "algo": "IntegerGeneticAlgorithm", "vkind": "integer",
             "prob": {"lower": [-3], "upper": [3], "C": [[2]], "obj_wt": [1], "cap": None, "elementwise": False}, "ngen": 2, "pop_size": 4, "seed": 48},
            # signed constraints for the sorted-start climber and two constraints of which one is violated at the start
            {"kind": "sorting_hillclimb",
             "prob": {"space": [10, 11, 12, 13, 14, 15], "k": 2, "mean": False, "obj_wt": [1], "lin": [[-4], [-3], [-2], [-5], [4], [-3]],
                      "ineq": [{"cost": [4, 3, 0, 3, 3, 0], "budget": 4, "signed": True}, {"cost": [0, 1, 0, 2, 2, 3], "budget": 3, "signed": True}],
                      "ineq_wt": [1, 1]}},
            {"kind": "hillclimb", "gen": "scripted", "init": [13, 14], "dup": [13, 13],
             "prob": {"space": [10, 11, 12, 13, 14, 15], "k": 2, "mean": False, "obj_wt": [1], "lin": [[-4], [-3], [-2], [-5], [4], [-3]],
                      "ineq": [{"cost": [4, 3, 0, 3, 3, 0], "budget": 4, "signed": True}, {"cost": [0, 1, 0, 2, 2, 3], "budget": 3, "signed": True}],
                      "ineq_wt": [1, 2], "eq": [{"vec": [1, 0, 1, 0, 1, 0], "target": 1, "signed": True}], "eq_wt": [1]}},
            # ---- round 5 -------------------------------------------------------------------------------------
            # (a) a climb that brings back a member removed by an earlier exchange (pairwise terms): 9 candidates, k = 3,
            #     sorted start {4, 1, 6}; the climb ends at {7, 4, 2} after re-inserting a member it had exchanged out
            {"kind": "sorting_hillclimb", "prob": reent},
            {"kind": "hillclimb", "gen": "scripted", "init": [4, 1, 6], "dup": [4, 4, 6], "prob": reent},
            {"kind": "sorting_hillclimb", "prob": dict(reent, labels=flab9)},
            {"kind": "old_hillclimb", "seed": 267290,
             "prob": {"space": [12, 4, 40, 27, 49, 53, 25], "k": 4, "lin": [[1], [-1], [1], [0], [0], [-2], [2]], "mean": False, "obj_wt": [-1],
                      "quad": [[0, -5, -5, 14, -9, 9, -7], [-5, 0, -4, 9, 8, 6, 0], [-5, -4, 0, 8, 9, 9, 5], [14, 9, 8, 0, 1, -3, 1],
                               [-9, 8, 9, 1, 0, 2, -3], [9, 6, 9, -3, 2, 0, 12], [-7, 0, 5, 1, -3, 12, 0]]}},
            # (b) candidate sets labelled with non-integral floats (a SubsetProblem's decn_space is any 1-D array): every
            #     subset optimiser family; the returned VALUES must be k distinct labels, evaluated afresh by the problem
            {"kind": "sorting", "prob": dict(sep, labels=flab)},
            {"kind": "hillclimb", "prob": dict(con, labels=flab), "gen": "real", "seed": 51},
            {"kind": "hillclimb", "prob": dict(con, labels=flab), "gen": "scripted", "init": [19, 12, 11], "dup": [19, 19, 12]},
            {"kind": "sorting_hillclimb", "prob": dict(con, labels=flab)},
            {"kind": "ga", "algo": "SubsetGeneticAlgorithm", "prob": dict(con, labels=flab), "ngen": 3, "pop_size": 6, "seed": 52},
            {"kind": "ga", "algo": "NSGA2SubsetGeneticAlgorithm", "prob": dict(mo, labels=flab), "ngen": 3, "pop_size": 6, "seed": 53},
            {"kind": "ga", "algo": "NSGA3SubsetGeneticAlgorithm", "prob": dict(mo, labels=flab), "ngen": 3, "pop_size": 6, "seed": 54, "nrefpts": 4},
            {"kind": "ga", "algo": "NSGA3SubsetGeneticAlgorithm", "prob": dict(mo, labels=[3, 7, 1, 12, 5, 9]), "ngen": 2, "pop_size": 6, "seed": 55, "nrefpts": 4},
            {"kind": "ga", "algo": "NSGA2SteepestDescentSubsetGeneticAlgorithm", "prob": dict(mo, labels=flab), "ngen": 2, "pop_size": 6, "seed": 56, "phc": 1.0},
            {"kind": "ga", "algo": "NSGA2StochasticDescentSubsetGeneticAlgorithm", "prob": dict(mo, labels=flab), "ngen": 2, "pop_size": 6, "seed": 57, "phc": 1.0, "nhcstep": 2},
            {"kind": "ga", "algo": "NSGA2MutatorASubsetGeneticAlgorithm", "prob": dict(mo, labels=flab), "ngen": 2, "pop_size": 6, "seed": 58, "phc": 1.0, "nhcstep": None},
            {"kind": "ga", "algo": "NSGA2MutatorBSubsetGeneticAlgorithm", "prob": dict(mo, labels=flab), "ngen": 2, "pop_size": 6, "seed": 59, "phc": 1.0, "nhcstep": 2},
            {"kind": "ga", "algo": "NSGA2SubsetGeneticAlgorithm", "prob": dict(mo, labels=fnear), "ngen": 3, "pop_size": 6, "seed": 60},
            {"kind": "ga", "algo": "SubsetGeneticAlgorithm", "prob": dict(con, labels=fnear), "ngen": 3, "pop_size": 6, "seed": 61},
            {"kind": "sorting_hillclimb", "prob": dict(con, labels=fnear)},
            {"kind": "history", "prob": dict(sep, labels=flab), "seed": 8, "steps": [
                {"op": "min", "algo": "sorting"}, {"op": "min", "algo": "hillclimb", "seed": 5}, {"op": "set_space", "keep": [5, 0, 2, 4]},
                {"op": "min", "algo": "sorting_hillclimb"}, {"op": "min", "algo": "SubsetGeneticAlgorithm", "seed": 8, "ngen": 2, "pop_size": 6}]},
            {"kind": "op_crossover", "a": [1, 2, 3, 4], "b": [3, 5, 1, 6], "nex": 1, "mex": [1]},
            {"kind": "op_crossover", "a": [1, 2, 3, 4], "b": [8, 5, 7, 6], "nex": 3, "mex": [2, 0, 2]},
            {"kind": "op_crossover", "a": [1, 2, 3], "b": [3, 1, 2], "nex": None, "mex": []},
            {"kind": "op_mutation", "space": [1, 2, 3, 4, 5], "x": [4, 2, 1], "u": [], "choice": []},
            {"kind": "op_sampling", "space": [7, 3, 5, 1], "k": 3, "rows": [[5, 7, 1], [1, 3, 7]]},
            {"kind": "op_neighbors", "space": [7, 3, 5, 1, 9], "x": [5, 7], "locus": 1},
            {"kind": "op_round", "which": "sbx", "lower": [-1, 0], "upper": [3, 4], "stub": [[["5/2", "1/2"]], [["-1/2", "7/2"]]], "X": [[[0, 1]], [[2, 3]]]},
        ]

    # relative frequencies of the optimiser classes among the `ga` cases (the memetic variants cost 0.2-0.3 s a run)
    GA_WEIGHTS = [("SubsetGeneticAlgorithm", 6), ("NSGA2SubsetGeneticAlgorithm", 6), ("NSGA3SubsetGeneticAlgorithm", 4),
                  ("NSGA2SteepestDescentSubsetGeneticAlgorithm", 3), ("NSGA2StochasticDescentSubsetGeneticAlgorithm", 2),
                  ("NSGA2MutatorASubsetGeneticAlgorithm", 3), ("NSGA2MutatorBSubsetGeneticAlgorithm", 3),
                  ("RealGeneticAlgorithm", 6), ("NSGA2RealGeneticAlgorithm", 9), ("IntegerGeneticAlgorithm", 6),
                  ("NSGA2IntegerGeneticAlgorithm", 6), ("BinaryGeneticAlgorithm", 4), ("NSGA2BinaryGeneticAlgorithm", 4)]

    def _ga_case(self, rng):
        names = [a for a, w in self.GA_WEIGHTS for _ in range(w)]
        algo = rng.choice(names)
        c = {"kind": "ga", "algo": algo, "ngen": rng.randint(1, 4), "pop_size": rng.randint(2, 10),
             "seed": rng.randrange(10 ** 6)}
        if rng.random() < 0.12:
            c["rngkind"] = "RandomState"
        if rng.random() < 0.12:
            c["miscout"] = True
        vectorised = rng.random() < 0.1      # problem built with elementwise = False: Problem._evaluate gets the whole batch
        if algo in VECTOR:
            kind, nobj = VECTOR[algo]
            c["vkind"] = kind
            c["prob"] = self._vector(rng, kind, nobj if nobj == 1 else rng.choice([2, 2, 3]))
            if nobj > 1:
                c["pop_size"] = rng.randint(4, 12)
            if vectorised:
                c["prob"]["elementwise"] = False
            return c
        nobj = 1 if algo in SUBSET_SINGLE else rng.choice([2, 2, 3])
        signed = rng.random() < 0.5
        mag = rng.choice([None, None, None, None, "offset", "tiny"])
        if rng.random() < 0.35:
            # tight: candidate set only slightly larger than the subset, a few more generations
            k_ = rng.choice([3, 3, 4, 5, 6])
            c["prob"] = self._table(rng, n=k_ + rng.choice([1, 1, 2]), k=k_, nobj=nobj, mean=False,
                                    cons=rng.choice(["none", "none", "none", "ineq"]), signed=signed, mag=mag)
            c["ngen"] = rng.randint(3, 5)
            c["pop_size"] = rng.randint(6, 10)
        else:
            c["prob"] = self._table(rng, n=rng.choice([2, 3, 4, 5, 6, 7, 8, 9]), nobj=nobj, mean=False,
                                    cons=rng.choice(["none", "none", "ineq", "ineq", "eq", "both"]), signed=signed, mag=mag)
        if vectorised:
            c["prob"]["elementwise"] = False
        if rng.random() < 0.15:
            c["prob"]["bounds"] = rng.choice(["none", "none", "no_lower", "no_upper"])     # documented Optional
        if algo == "NSGA3SubsetGeneticAlgorithm":
            # Das-Dennis directions exist only for C(p+nobj-1, nobj-1) points (pymoo rejects others)
            c["nrefpts"] = rng.choice([2, 3, 4, 5, 6] if nobj == 2 else [3, 6, 10])
        if algo in MEMETIC:
            c["phc"] = rng.choice([0.1, 0.5, 1.0])
            c["ngen"] = min(c["ngen"], 3)
            c["pop_size"] = min(c["pop_size"], 8)
            if algo != "NSGA2SteepestDescentSubsetGeneticAlgorithm":
                c["nhcstep"] = rng.choice([None, None, 1, 2, 5])
        return c

    def _history_case(self, rng):
        if rng.random() < 0.3:
            return self._vector_history_case(rng)
        multi = rng.random() < 0.2
        nobj = rng.choice([2, 3]) if multi else 1

        def table():
            t = self._table(rng, n=rng.choice([4, 5, 6, 7]), k=rng.choice([2, 3]), nobj=nobj, mean=False,
                            separable=rng.random() < 0.6, cons=rng.choice(["none", "none", "ineq", "eq"]),
                            mag=rng.choice([None, None, None, "offset"]), signed=rng.random() < 0.3)
            t.pop("posw", None)
            return t
        t = table()
        cur = t
        pool = ["NSGA2SubsetGeneticAlgorithm"] if multi else ["sorting", "sorting", "hillclimb", "hillclimb", "sorting_hillclimb", "SubsetGeneticAlgorithm"]
        steps = []
        nmin = 0
        want = rng.choice([2, 3, 3, 4, 5])
        while nmin < want:
            r = rng.random()
            if steps and r < 0.2:
                steps.append({"op": "set_wt", "obj_wt": canon.enc([rng.choice([1, -1, 2, -2, Fraction(1, 2)]) for _ in range(nobj)])})
            elif steps and r < 0.25 and cur.get("ineq"):
                steps.append({"op": "set_cwt", "ineq_wt": canon.enc([rng.choice([1, 2, 3, Fraction(1, 2)]) for _ in cur["ineq"]])})
            elif steps and r < 0.35 and len(cur["space"]) > cur["k"]:
                n_ = len(cur["space"])
                keep = rng.sample(range(n_), rng.randint(cur["k"], n_ - 1) if rng.random() < 0.7 else n_)
                steps.append({"op": "set_space", "keep": keep})
                cur = self._restrict_table(cur, keep)
            elif steps and r < 0.5:
                cur = table()
                steps.append({"op": "new_prob", "prob": cur})
            elif steps and r < 0.6:
                steps.append({"op": "poke"})
            else:
                a = rng.choice(pool) if not steps or rng.random() < 0.4 else \
                    next((st["algo"] for st in reversed(steps) if st["op"] == "min"), rng.choice(pool))
                steps.append({"op": "min", "algo": a, "seed": rng.randrange(10 ** 6), "ngen": rng.randint(1, 3), "pop_size": rng.randint(4, 8)})
                nmin += 1
        return {"kind": "history", "prob": t, "seed": rng.randrange(10 ** 6), "steps": steps}

    def _vector_history_case(self, rng):
        vkind = rng.choice(["real", "real", "integer", "binary"])
        multi = rng.random() < 0.5
        algo = {("real", False): "RealGeneticAlgorithm", ("real", True): "NSGA2RealGeneticAlgorithm",
                ("integer", False): "IntegerGeneticAlgorithm", ("integer", True): "NSGA2IntegerGeneticAlgorithm",
                ("binary", False): "BinaryGeneticAlgorithm", ("binary", True): "NSGA2BinaryGeneticAlgorithm"}[(vkind, multi)]
        t = self._vector(rng, vkind, 2 if multi else 1)
        t["cap"] = None
        t.pop("ineq", None)            # bounds change below: keep every box point feasible
        steps = []
        cur = t
        for _ in range(rng.choice([2, 2, 3])):
            if steps and rng.random() < 0.8 and vkind != "binary":
                # a narrower box inside the current one (the optimum of the old box is usually outside it)
                lo = [canon.dec(v) for v in cur["lower"]]
                hi = [canon.dec(v) for v in cur["upper"]]
                nl, nh = [], []
                for l, h in zip(lo, hi):
                    if vkind == "real":
                        w = h - l
                        a = l + w * Fraction(rng.randint(0, 2), 4)
                        b = a + w * Fraction(rng.randint(1, 2), 4)
                    else:
                        a = l + (1 if h - l >= 2 and rng.random() < 0.7 else 0)
                        b = h - (1 if h - a >= 1 and rng.random() < 0.7 else 0)
                    nl.append(a)
                    nh.append(b)
                cur = dict(cur, lower=canon.enc(nl), upper=canon.enc(nh))
                steps.append({"op": "set_bounds", "lower": cur["lower"], "upper": cur["upper"]})
            elif steps and rng.random() < 0.5:
                steps.append({"op": "set_wt", "obj_wt": canon.enc([rng.choice([1, -1, 2]) for _ in cur["obj_wt"]])})
            steps.append({"op": "min", "algo": algo, "seed": rng.randrange(10 ** 6), "ngen": rng.randint(2, 4), "pop_size": rng.randint(4, 8)})
        return {"kind": "history", "vkind": vkind, "prob": t, "seed": rng.randrange(10 ** 6), "steps": steps}

    def generate(self, rng, n, tier):
        out = []
        for i in range(n):
            r = rng.random()
            if r < 0.03:
                out.append({"kind": "sorting", "prob": self._boundary_tie(rng)})
            elif r < 0.12:
                big = rng.random() < 0.1
                t = self._table(rng, n=(rng.choice([17, 20, 24]) if big else None), k=(rng.choice([1, 2, 3]) if big else None),
                                separable=True, nobj=1, tie=rng.random() < 0.5,
                                mag=rng.choice([None, None, None, "offset", "offset", "tiny"]), signed=rng.random() < 0.3)
                out.append({"kind": "sorting", "prob": t})
            elif r < 0.14:
                out.append(self._long_climb(rng))
            elif r < 0.17:
                out.append(self._position_dependent(rng))
            elif r < 0.30:
                # a third with signed constraint functions (G(x) <= 0 form: negative slack when satisfied)
                t = self._table(rng, nobj=1, tie=rng.random() < 0.3, mag=rng.choice([None, None, None, "offset", "offset", "tiny"]),
                                signed=rng.random() < 0.33)
                if rng.random() < 0.5:
                    c = {"kind": "hillclimb", "prob": t, "gen": "real", "seed": rng.randrange(10 ** 6)}
                    if rng.random() < 0.15:
                        c["rngkind"] = "RandomState"
                else:
                    init = rng.sample(t["space"], t["k"])
                    dup = list(init)
                    if len(dup) > 1:
                        dup[rng.randrange(1, len(dup))] = dup[0]
                    c = {"kind": "hillclimb", "prob": t, "gen": "scripted", "init": init, "dup": dup}
                if rng.random() < 0.15:
                    c["miscout"] = True
                out.append(c)
            elif r < 0.39:
                mag = rng.choice([None, None, None, "offset", "offset", "tiny"])
                t = self._table(rng, nobj=1, tie=rng.random() < 0.3, cons=rng.choice(["none", "none", "ineq", "eq", "both", "tight"]),
                                mag=mag, signed=rng.random() < 0.33)
                if not t.get("quad") and rng.random() < 0.6:      # mostly non-separable: the sorted start is no optimum
                    n_ = len(t["space"])
                    unit = Fraction(1, 2 ** 30) if mag == "tiny" else 1
                    q = [[0] * n_ for _ in range(n_)]
                    for a in range(n_):
                        for b in range(a + 1, n_):
                            q[a][b] = q[b][a] = rng.randint(-6, 6) * unit
                    t["quad"] = canon.enc(q)
                    if t["mean"] and t["k"] not in (1, 2, 4, 8):
                        t["mean"] = False
                c = {"kind": "sorting_hillclimb", "prob": t}
                if rng.random() < 0.15:
                    c["miscout"] = True
                out.append(c)
            elif r < 0.41:
                out.append(self._reentry(rng))
            elif r < 0.67:
                out.append(self._ga_case(rng))
            elif r < 0.71:
                out.append(self._history_case(rng))
            elif r < 0.74:
                t = self._table(rng, nobj=rng.choice([1, 1, 2]), cons="none", mean=False,
                                mag=rng.choice([None, None, "offset", "tiny"]))
                t.pop("posw", None)
                t.pop("labels", None)
                out.append({"kind": "old_hillclimb", "prob": t, "seed": rng.randrange(10 ** 6)})
            elif r < 0.85:
                n_ = rng.randint(1, 7)
                pool = rng.sample(range(1, 30), 2 * n_)
                a = pool[:n_]
                shared = rng.randint(0, n_)
                b = rng.sample(a, shared) + pool[n_:2 * n_ - shared]
                rng.shuffle(b)
                clen = len([v for v in a if v not in b])
                nex = None if clen < 2 else rng.randint(1, clen - 1)
                mex = [rng.randrange(clen) for _ in range(nex or 0)]
                out.append({"kind": "op_crossover", "a": a, "b": b, "nex": nex, "mex": mex})
            elif r < 0.88:
                space = rng.sample(range(1, 30), rng.randint(1, 8))
                x = rng.sample(space, rng.randint(1, len(space)))
                out.append({"kind": "op_mutation", "space": space, "x": x, "u": [], "choice": []})
            elif r < 0.91:
                space = rng.sample(range(1, 30), rng.randint(1, 8))
                k = rng.randint(1, len(space))
                out.append({"kind": "op_sampling", "space": space, "k": k,
                            "rows": [rng.sample(space, k) for _ in range(rng.randint(1, 3))]})
            elif r < 0.94:
                space = rng.sample(range(1, 30), rng.randint(1, 8))
                x = rng.sample(space, rng.randint(1, len(space)))
                out.append({"kind": "op_neighbors", "space": space, "x": x, "locus": rng.randrange(len(x))})
            else:
                nv, nm = rng.randint(1, 4), rng.randint(1, 3)
                lo = [rng.randint(-9, 3) for _ in range(nv)]
                hi = [l + rng.randint(0, 5) for l in lo]
                which = rng.choice(["sbx", "pm"])

                def val(j):
                    return Fraction(rng.randint(2 * lo[j], 2 * hi[j]), 2) if rng.random() < 0.6 else \
                        Fraction(rng.randint(8 * lo[j], 8 * hi[j]), 8)
                if which == "sbx":
                    stub = [[[val(j) for j in range(nv)] for _ in range(nm)] for _ in range(2)]
                    X = [[[rng.randint(lo[j], hi[j]) for j in range(nv)] for _ in range(nm)] for _ in range(2)]
                else:
                    stub = [[val(j) for j in range(nv)] for _ in range(nm)]
                    X = [[rng.randint(lo[j], hi[j]) for j in range(nv)] for _ in range(nm)]
                out.append({"kind": "op_round", "which": which, "lower": lo, "upper": hi, "stub": canon.enc(stub), "X": X})
        return out

    def exhaustive(self, tier):
        """thorough tier: every crossover of two 2-member chromosomes over a 4-candidate space with every
        admissible draw, and every start arrangement of the hill climber on three fixed 5-candidate problems"""
        if tier != "thorough":
            return None
        out = []
        arr = list(itertools.permutations([1, 2, 3, 4], 2))
        for a in arr:
            for b in arr:
                clen = len([v for v in a if v not in b])
                if clen < 2:
                    out.append({"kind": "op_crossover", "a": list(a), "b": list(b), "nex": None, "mex": []})
                else:
                    for mex in ([0], [1]):
                        out.append({"kind": "op_crossover", "a": list(a), "b": list(b), "nex": 1, "mex": mex})
        space = [12, 7, 30, 4, 9]
        probs = [
            {"space": space, "k": 2, "lin": [[3], [1], [4], [1], [5]], "mean": False, "obj_wt": [1],
             "quad": [[0, 2, -1, 0, 3], [2, 0, 1, -2, 0], [-1, 1, 0, 2, 2], [0, -2, 2, 0, -3], [3, 0, 2, -3, 0]]},
            {"space": space, "k": 2, "lin": [[1], [1], [1], [1], [1]], "mean": True, "obj_wt": [-1],
             "ineq": [{"cost": [2, 1, 0, 3, 1], "budget": 2}], "ineq_wt": [1]},
            {"space": space, "k": 3, "lin": [[2], [0], [1], [3], [1]], "mean": False, "obj_wt": [1], "posw": [0, 1, 2],
             "eq": [{"vec": [1, 0, 1, 0, 1], "target": 1}], "eq_wt": [2]},
        ]
        for t in probs:
            for init in itertools.permutations(space, t["k"]):
                dup = list(init)
                dup[-1] = dup[0]
                out.append({"kind": "hillclimb", "prob": t, "gen": "scripted", "init": list(init), "dup": dup})
        return out

    # ------------------------------------------------------------------ implementation
    IMPL_TIMEOUT_S = 3.0      # nominal; the CPU-time budget per case is 4 x this (legitimate cases need < 0.5 s)
    TIMEOUTS = 0
    MUTANT_ACTIVE = False      # set while a self-test mutant is installed (only used to fail fast on hangs)
    MUTANT_SCOPE = None        # predicate on the case tag: which cases can reach the code the mutant patches
    BASELINE = {}

    def run_impl(self, case):
        """one case on the real code, under a CPU-time guard (no wall-clock verdicts: machine load must not turn a
        correct optimiser into a timeout): an optimiser that does not come back (possible for a broken acceptance
        rule) is reported as `implementation raised: TimeoutError`"""
        import json as _json
        key = _json.dumps(case, sort_keys=True, default=str)
        if C06.MUTANT_ACTIVE and C06.MUTANT_SCOPE is not None and not C06.MUTANT_SCOPE(self._tag(case)) and key in C06.BASELINE:
            # self-test only: the installed mutant patches code this case never reaches; re-use the
            # observation made on the unmutated code a moment ago (saves ~80 % of the self-test time)
            return C06.BASELINE[key]
        if self.MUTANT_ACTIVE and C06.TIMEOUTS >= 3 and case["kind"] in ("hillclimb", "sorting_hillclimb", "old_hillclimb", "history"):
            # self-test only: the installed mutant has already hung three times, do not wait for every case
            raise TimeoutError("optimiser does not terminate under this mutant (repeated timeouts)")
        from harness.core import cpu_deadline
        try:
            # CPU-time budget (4 x the nominal figure) with a wall backstop
            with cpu_deadline(self.IMPL_TIMEOUT_S * 4, wall_factor=30, what="optimiser"):
                obs = self._run_impl(case)
        except TimeoutError:
            C06.TIMEOUTS += 1
            raise
        if not C06.MUTANT_ACTIVE:
            # the most recent observations of the unmutated code (the self-test evaluates its base right before
            # it installs the mutants)
            C06.BASELINE[key] = obs
            if len(C06.BASELINE) > 4000:
                for old_key in list(C06.BASELINE)[:1000]:
                    del C06.BASELINE[old_key]
        return obs

    @staticmethod
    def _tag(case):
        return "ga:" + case["algo"] if case["kind"] == "ga" else case["kind"]

    def _run_impl(self, case):
        m = _mods()
        kind = case["kind"]
        addon = m["addon"]
        _CUR["labmap"] = None
        if kind in ("sorting", "hillclimb", "sorting_hillclimb"):
            prob = m["TableSubsetProblem"](case["prob"])
            lm = _CUR["labmap"] = prob.labmap
            snap = _snapshot(prob)
            extra = {}
            if kind == "sorting":
                algo = m["algmods"]["SortingSubsetOptimizationAlgorithm"].SortingSubsetOptimizationAlgorithm()
            elif kind == "sorting_hillclimb":
                algo = m["algmods"]["SortingSteepestDescentSubsetHillClimber"].SortingSteepestDescentSubsetHillClimber(
                    rng=numpy.random.default_rng(0))
            else:
                space = numpy.array(prob.decn_space, copy=True)
                if case["gen"] == "real":
                    # Generator or (rarely used) legacy RandomState: both are accepted by the constructor
                    mk = numpy.random.RandomState if case.get("rngkind") == "RandomState" else numpy.random.default_rng
                    gen = mk(case["seed"])
                    # the start subset the algorithm will draw, replayed on a clone of the generator
                    clone = mk(case["seed"])
                    extra["init"] = _ids(clone.choice(space, int(case["prob"]["k"]), replace=False))
                else:
                    # scripted start subsets are written in ids; the generator hands out the candidates' labels
                    gen = m["ScriptedGenerator"](*((case["init"], case["dup"]) if lm is None else
                                                   (lm.to_labels(case["init"]), lm.to_labels(case["dup"]))))
                algo = m["algmods"]["SteepestDescentSubsetHillClimber"].SteepestDescentSubsetHillClimber(rng=gen)
            if kind == "sorting_hillclimb":
                prob.log = []
            miscout = {} if case.get("miscout") else None
            soln = algo.minimize(prob, miscout=miscout) if miscout is not None else algo.minimize(prob)
            if kind == "sorting_hillclimb":
                # evaluations: n singletons, then the sorted prefix the hill climb starts from
                n_ = len(case["prob"]["space"])
                extra["init"] = prob.log[n_] if len(prob.log) > n_ else None
                extra["singletons"] = prob.log[:n_]
                prob.log = None
            obs = _solution_obs(prob, soln, "subset")
            obs.update(extra)
            if kind == "hillclimb" and case["gen"] == "scripted":
                obs["choice_calls"] = gen.calls
                obs["init"] = list(case["init"]) if gen.calls and not gen.calls[0]["replace"] else list(case["dup"])
            obs["problem_untouched"] = (_snapshot(prob) == snap)
            return obs
        if kind == "history":
            return self._run_history(m, case)
        if kind == "old_hillclimb":
            return self._run_old_hillclimb(m, case)
        if kind == "ga":
            return self._run_ga(m, case)
        if kind == "op_crossover":
            a, b = case["a"], case["b"]
            script = ([("randint", case["nex"])] if case["nex"] is not None else []) + \
                     [("choice", numpy.array(case["mex"], dtype=int))]
            X = numpy.array([[a], [b]], dtype=int)
            X0 = X.copy()
            rp = _RandomProxy(numpy.random, script)
            with _patched(addon, "np", _NpProxy(numpy, rp)):
                out = addon.ReducedExchangeCrossover()._do(None, X)
            return {"c1": _ints(out[0, 0]), "c2": _ints(out[1, 0]), "input_untouched": bool((X == X0).all()),
                    "draws_left": len(rp._script)}
        if kind == "op_mutation":
            prob = m["TableSubsetProblem"]({"space": case["space"], "k": len(case["x"]), "lin": [[0]] * len(case["space"]),
                                            "mean": False, "obj_wt": [1]})
            bp = [v for v in case["space"] if v not in case["x"]]
            script = [("random", numpy.array([_f(v) for v in case["u"]], dtype=float)),
                      ("choice", numpy.array([bp[i] for i in case["choice"]], dtype=int))]
            X = numpy.array([case["x"]], dtype=int)
            X0 = X.copy()
            rp = _RandomProxy(numpy.random, script)
            with _patched(addon, "np", _NpProxy(numpy, rp)):
                out = addon.ReducedExchangeMutation(setspace=numpy.array(case["space"], dtype=int))._do(prob, X)
            return {"out": _ints(out[0]), "input_untouched": bool((X == X0).all())}
        if kind == "op_sampling":
            prob = m["TableSubsetProblem"]({"space": case["space"], "k": case["k"], "lin": [[0]] * len(case["space"]),
                                            "mean": False, "obj_wt": [1]})
            asked = []

            class RP(_RandomProxy):
                def choice(self, a, size=None, replace=True, **k):
                    asked.append(bool(replace))
                    return super().choice(a, size, replace=replace, **k)
            rp = RP(numpy.random, [("choice", numpy.array(r, dtype=int)) for r in case["rows"]])
            with _patched(addon, "np", _NpProxy(numpy, rp)):
                out = addon.SubsetRandomSampling(setspace=numpy.array(case["space"], dtype=int))._do(prob, len(case["rows"]))
            return {"rows": [_ints(r) for r in out], "dtype_int": bool(numpy.issubdtype(out.dtype, numpy.integer)),
                    "replace_asked": asked}
        if kind == "op_neighbors":
            from pymoo.core.individual import Individual
            prob = m["TableSubsetProblem"]({"space": case["space"], "k": len(case["x"]),
                                            "lin": [[i, -i] for i in range(len(case["space"]))], "mean": False, "obj_wt": [1, 1]})
            prob.log = []
            ind = Individual()
            ind.X = numpy.array(case["x"], dtype=int)
            rp = _RandomProxy(numpy.random, [("choice", case["locus"])])
            with _patched(addon, "np", _NpProxy(numpy, rp)):
                mut = addon.MultiObjectiveSteepestDescentHillClimberMutation(
                    setspace=numpy.array(case["space"], dtype=int), p_hillclimb=1.0)
                pop = mut.hillclimb(prob, ind)
            return {"evaluated": prob.log, "front": [_ints(r) for r in pop.get("X")] if len(pop) else [],
                    "x_after": _ints(ind.X)}
        if kind == "op_round":
            lo = numpy.array(case["lower"], dtype=int)
            hi = numpy.array(case["upper"], dtype=int)
            prob = m["make_vector_problem"]("integer", {"lower": case["lower"], "upper": case["upper"],
                                                         "C": [[1] * len(lo)], "obj_wt": [1], "cap": None})
            stub = numpy.array([[[_f(v) for v in r] for r in mm] for mm in case["stub"]], dtype=float) \
                if case["which"] == "sbx" else numpy.array([[_f(v) for v in r] for r in case["stub"]], dtype=float)
            X = numpy.array(case["X"], dtype=int)
            if case["which"] == "sbx":
                with _patched(m["sbx"].SimulatedBinaryCrossover, "_do", lambda self, problem, X, *a, **k: stub.copy()):
                    out = addon.IntegerSimulatedBinaryCrossover()._do(prob, X)
            else:
                with _patched(m["pm"].PolynomialMutation, "_do", lambda self, problem, X, *a, **k: stub.copy()):
                    out = addon.IntegerPolynomialMutation()._do(prob, X)
            return {"out": _ints(out), "shape": list(out.shape), "dtype_int": bool(numpy.issubdtype(out.dtype, numpy.integer))}
        raise ValueError(kind)

    def _run_ga(self, m, case):
        addon = m["addon"]
        name = case["algo"]
        mod = m["algmods"][name]
        cls = getattr(mod, name)
        if name in VECTOR:
            vkind = VECTOR[name][0]
            prob = m["make_vector_problem"](vkind, case["prob"])
        else:
            vkind = "subset"
            prob = m["TableSubsetProblem"](case["prob"])
            _CUR["labmap"] = prob.labmap
        kw = {"ngen": case["ngen"], "pop_size": case["pop_size"]}
        if "phc" in case:
            kw["phc"] = case["phc"]
        if "nhcstep" in case:
            kw["nhcstep"] = case["nhcstep"]
        if "nrefpts" in case:
            kw["nrefpts"] = case["nrefpts"]
        # since 330f7cee every GA class draws pymoo's seed from its own generator: one seeded Generator per
        # case makes the pymoo side reproducible; the operators of pymoo_addon still use the global numpy
        # stream, which is seeded below and recorded through the proxy module
        kw["rng"] = (numpy.random.RandomState(int(case["seed"]) % (2 ** 32)) if case.get("rngkind") == "RandomState"
                     else numpy.random.default_rng(int(case["seed"])))
        algo = cls(**kw)
        snap = _snapshot(prob)
        rec = {"res_none": None, "seed_passed": None}
        real_min = mod.minimize

        def min_wrapper(*a, **k):
            rec["seed_passed"] = k.get("seed")
            res = real_min(*a, **k)
            rec["res_none"] = res.X is None
            if res.X is not None:
                # what pymoo hands back (one row per member of res.opt), copied before the algorithm class reads it
                def rows(v, n_):
                    if v is None:
                        return [[] for _ in range(n_)]
                    v = numpy.array(v, copy=True)
                    v = v.reshape(1, -1) if v.ndim == 1 else v
                    return [[int(e) for e in r] for r in v] if v.dtype == bool or numpy.issubdtype(v.dtype, numpy.integer) else canon.enc(v)
                try:
                    X = rows(res.X, 1)
                    if _CUR["labmap"] is not None:      # candidate labels -> ids of the table model
                        xa = numpy.array(res.X, copy=True)
                        X = [_ids(r) for r in (xa.reshape(1, -1) if xa.ndim == 1 else xa)]
                    rec["res"] = {"X": X, "F": rows(res.F, len(X)), "G": rows(res.G, len(X)), "H": rows(res.H, len(X))}
                except Exception as e:
                    rec.setdefault("recorder_errors", []).append(f"res: {type(e).__name__}: {e}"[:200])
            return res
        state = numpy.random.get_state()
        numpy.random.seed(int(case["seed"]) % (2 ** 32))
        raised = None
        soln = None
        try:
            with _patched(mod, "minimize", min_wrapper), _recording(addon, rec), \
                    contextlib.redirect_stdout(io.StringIO()):
                try:
                    soln = algo.minimize(prob, miscout={}) if case.get("miscout") else algo.minimize(prob)
                except TimeoutError:
                    raise
                except Exception as e:      # classified by the judge (never silently accepted)
                    import traceback
                    raised = {"type": type(e).__name__, "text": str(e)[:200],
                              "where": [l.strip() for l in traceback.format_exc().strip().splitlines()[-4:-1]]}
        finally:
            numpy.random.set_state(state)
        obs = {"vkind": vkind, "raised": raised, "res_none": rec["res_none"], "seed_passed": rec["seed_passed"], "res": rec.get("res"),
               "problem_untouched": (_snapshot(prob) == snap),
               "recorder_errors": rec.get("recorder_errors", []),
               "calls": {k: rec.get(k, []) for k in ("sampling", "crossover", "mutation", "neighbors", "mutator", "stochastic")}}
        if soln is not None:
            obs.update(_solution_obs(prob, soln, vkind))
        return obs

    # ------------------------------------------------------------------ histories on ONE problem object
    @staticmethod
    def _restrict_table(t, keep):
        """the table problem on the candidates at positions `keep` (in that order)"""
        q = dict(t)
        q["space"] = [t["space"][i] for i in keep]
        q["lin"] = [t["lin"][i] for i in keep]
        if t.get("labels"):
            q["labels"] = [t["labels"][i] for i in keep]
        if t.get("quad"):
            q["quad"] = [[t["quad"][i][j] for j in keep] for i in keep]
        for key, f in (("ineq", "cost"), ("eq", "vec")):
            if t.get(key):
                q[key] = [dict(c, **{f: [c[f][i] for i in keep]}) for c in t[key]]
        return q

    def _run_history(self, m, case):
        """several steps with ONE algorithm object per optimiser class (re-used across steps) on one problem object
        (or a series of them):
           {"op": "min", "algo": ...}          run minimize, observe the Solution at return
           {"op": "set_wt", "obj_wt": []}      the user re-assigns prob.obj_wt (public setter) between two runs
           {"op": "set_cwt", "ineq_wt": []}    ... prob.ineqcv_wt
           {"op": "set_space", "keep": []}     ... prob.decn_space: fewer candidates, other order (subset problems)
           {"op": "set_bounds", "lower", "upper"}  ... prob.decn_space_lower / _upper / decn_space (vector problems)
           {"op": "new_prob", "prob": {}}      the problem object is released and another one is built
           {"op": "poke"}                      the user reverses the rows of the last Solution in place (two-object
                                               aliasing: this must not reach the problem or later results)
        every Solution is judged against the state of the problem at the moment of its return; at the end every
        (un-poked) earlier Solution is observed again and re-evaluated by a problem object built afresh for that state"""
        import gc
        vkind = case.get("vkind", "subset")

        def build(t):
            return m["TableSubsetProblem"](t) if vkind == "subset" else m["make_vector_problem"](vkind, t)
        cur = dict(case["prob"])
        prob = build(cur)
        _CUR["labmap"] = getattr(prob, "labmap", None)
        algos = {}
        steps_obs = []
        solns = []
        state = numpy.random.get_state()
        numpy.random.seed(int(case.get("seed", 0)) % (2 ** 32))
        try:
            for st in case["steps"]:
                snap = _snapshot(prob)
                op = st["op"]
                if op == "set_wt":
                    cur = dict(cur, obj_wt=list(st["obj_wt"]))
                    prob.obj_wt = numpy.array([_f(v) for v in st["obj_wt"]])
                elif op == "set_cwt":
                    cur = dict(cur, ineq_wt=list(st["ineq_wt"]))
                    prob.ineqcv_wt = numpy.array([_f(v) for v in st["ineq_wt"]])
                elif op == "set_space":
                    cur = self._restrict_table(cur, st["keep"])
                    if cur.get("labels"):
                        prob.labmap = _CUR["labmap"] = LabelMap(cur["labels"], cur["space"])
                        prob.decn_space = numpy.array(prob.labmap.labels, dtype=float)
                    else:
                        prob.decn_space = numpy.array(cur["space"], dtype=int)
                elif op == "set_bounds":
                    cur = dict(cur, lower=list(st["lower"]), upper=list(st["upper"]))
                    dt = float if vkind == "real" else int
                    lo = numpy.array([_f(v) for v in st["lower"]]).astype(dt)
                    hi = numpy.array([_f(v) for v in st["upper"]]).astype(dt)
                    prob.decn_space_lower = lo
                    prob.decn_space_upper = hi
                    prob.decn_space = numpy.stack([lo, hi])
                elif op == "new_prob":
                    cur = dict(st["prob"])
                    prob = None
                    snap = None
                    gc.collect()
                    prob = build(cur)
                    _CUR["labmap"] = getattr(prob, "labmap", None)
                elif op == "poke":
                    if solns and solns[-1][0] is not None:
                        sol = solns[-1][0]
                        sol.soln_decn[...] = sol.soln_decn[:, ::-1].copy()
                        solns[-1][2] = True
                if op != "min":
                    o = {"op": op}
                    if op == "poke":
                        o["problem_untouched"] = _snapshot(prob) == snap
                    steps_obs.append(o)
                    continue
                name = st["algo"]
                if name not in algos:
                    seed = int(st.get("seed", 0))
                    if name == "sorting":
                        algos[name] = m["algmods"]["SortingSubsetOptimizationAlgorithm"].SortingSubsetOptimizationAlgorithm()
                    elif name == "hillclimb":
                        algos[name] = m["algmods"]["SteepestDescentSubsetHillClimber"].SteepestDescentSubsetHillClimber(
                            rng=numpy.random.default_rng(seed))
                    elif name == "sorting_hillclimb":
                        algos[name] = m["algmods"]["SortingSteepestDescentSubsetHillClimber"].SortingSteepestDescentSubsetHillClimber(
                            rng=numpy.random.default_rng(seed))
                    else:
                        algos[name] = getattr(m["algmods"][name], name)(
                            ngen=int(st.get("ngen", 2)), pop_size=int(st.get("pop_size", 6)), rng=numpy.random.default_rng(seed))
                raised = None
                soln = None
                mod = m["algmods"].get(name)
                rec = {}
                try:
                    if mod is not None and hasattr(mod, "minimize"):
                        real_min = mod.minimize

                        def min_wrapper(*a, _r=real_min, **k):
                            res = _r(*a, **k)
                            rec["res_none"] = res.X is None
                            return res
                        with _patched(mod, "minimize", min_wrapper), contextlib.redirect_stdout(io.StringIO()):
                            soln = algos[name].minimize(prob)
                    else:
                        soln = algos[name].minimize(prob)
                except TimeoutError:
                    raise
                except Exception as e:
                    raised = {"type": type(e).__name__, "text": str(e)[:200]}
                o = {"op": "min", "algo": name, "raised": raised, "res_none": rec.get("res_none"), "state": cur,
                     "problem_untouched": _snapshot(prob) == snap}
                if soln is not None:
                    o.update(_solution_obs(prob, soln, vkind))
                steps_obs.append(o)
                solns.append([soln, cur, False, len(steps_obs) - 1])
        finally:
            numpy.random.set_state(state)
        # end of the history: every earlier Solution once more, against a problem object built afresh
        end = []
        for soln, st_cur, poked, at in solns:
            if soln is None or poked:
                end.append(None)
                continue
            e = _solution_obs(build(st_cur), soln, vkind)
            e["at"] = at
            e["state"] = st_cur
            e["algo"] = steps_obs[at]["algo"]
            end.append(e)
        return {"steps": steps_obs, "end": end}

    def _run_old_hillclimb(self, m, case):
        """UnconstrainedSteepestAscentSetHillClimber.optimize(objfn, k, sspace, objfn_wt): the older copy of the
        exchange-neighbourhood climber (maximises the weighted score)"""
        import importlib
        mod = importlib.import_module("pybrops.opt.algo.UnconstrainedSteepestAscentSetHillClimber")
        t = case["prob"]
        prob = m["TableSubsetProblem"](dict(t, obj_wt=[1] * len(t["obj_wt"]), labels=None))
        wt = numpy.array([_f(v) for v in t["obj_wt"]])
        sspace = numpy.array(t["space"], dtype=int)
        s0 = sspace.copy()
        clone = numpy.random.default_rng(case["seed"])
        init = _ints(clone.choice(sspace, (int(t["k"]),), replace=False))

        def objfn(x):
            return prob.evalfn(x)[0]
        algo = mod.UnconstrainedSteepestAscentSetHillClimber(rng=numpy.random.default_rng(case["seed"]))
        score, soln, misc = algo.optimize(objfn, int(t["k"]), sspace, wt)
        fresh = objfn(numpy.array(soln, copy=True))
        return {"decn": _ints(soln), "score": canon.enc(numpy.asarray(score, dtype=float)), "fresh": canon.enc(fresh),
                "weval": canon.enc(float(misc["objfn_weval"])), "init": init,
                "dtype_int": bool(numpy.issubdtype(numpy.asarray(soln).dtype, numpy.integer)),
                "space_untouched": bool((sspace == s0).all())}

    # ------------------------------------------------------------------ model requests
    @staticmethod
    def _spec_req(case, obs, kind, single, p=None):
        p = p if p is not None else case["prob"]
        r = {"op": "c06.spec_solution", "kind": kind, "nsoln": obs["nsoln"], "single": single, "dtype": obs["dtype"],
             "decn": obs["decn"], "obj": obs["obj"], "ineqcv": obs["ineqcv"], "eqcv": obs["eqcv"],
             "fresh": [{"obj": f["obj"], "ineqcv": f["ineqcv"], "eqcv": f["eqcv"]} for f in obs["fresh"]]}
        if kind == "subset":
            r.update(k=p["k"], nobj=len(p["obj_wt"]), nineq=len(p.get("ineq", [])), neq=len(p.get("eq", [])), space=p["space"])
            if p.get("labels"):
                # candidate set with labels of another dtype: membership of the returned VALUES in the label set
                r.update(labels=p["labels"], decn=obs.get("decn_raw"))
        else:
            r.update(k=len(p["lower"]), nobj=len(p["C"]), nineq=(1 if p.get("cap") is not None else 0) + len(p.get("ineq", [])), neq=0,
                     lower=p["lower"], upper=p["upper"])
        return r

    @staticmethod
    def _wellformed(obs):
        """the observation can be sent to the Lean Spec (2-D arrays of finite numbers)"""
        try:
            return (all(isinstance(r, list) for r in obs["decn"]) and _finite(obs["decn"]) and _finite(obs["obj"])
                    and ("decn_raw" not in obs or (obs["decn_raw"] is not None and _finite(obs["decn_raw"])))
                    and _finite(obs["ineqcv"]) and _finite(obs["eqcv"])
                    and all(isinstance(r, list) for r in obs["obj"] + obs["ineqcv"] + obs["eqcv"])
                    and all(_finite([f["obj"], f["ineqcv"], f["eqcv"]]) for f in obs["fresh"]))
        except Exception:
            return False

    VERDICTS = {}

    def _out_of_scope(self, case):
        """self-test only: a mutant is installed and this case cannot reach the code it patches"""
        if not (C06.MUTANT_ACTIVE and C06.MUTANT_SCOPE is not None) or C06.MUTANT_SCOPE(self._tag(case)):
            return None
        import json as _json
        key = _json.dumps(case, sort_keys=True, default=str)
        return key if key in C06.VERDICTS else None

    def requests(self, case, obs):
        if self._out_of_scope(case) is not None:
            return []                      # the verdict on the unmutated code is re-used (see judge)
        return self._requests(case, obs)

    def judge(self, case, obs, answers):
        key = self._out_of_scope(case)
        if key is not None:
            return dict(C06.VERDICTS[key])
        v = self._judge(case, obs, answers)
        if not C06.MUTANT_ACTIVE:
            import json as _json
            C06.VERDICTS[_json.dumps(case, sort_keys=True, default=str)] = dict(v)
            if len(C06.VERDICTS) > 4000:
                for old_key in list(C06.VERDICTS)[:1000]:
                    del C06.VERDICTS[old_key]
        return v

    def _requests(self, case, obs):
        kind = case["kind"]
        if kind in ("sorting", "hillclimb", "sorting_hillclimb"):
            if not self._wellformed(obs):
                return []
            reqs = [self._spec_req(case, obs, "subset", True)]
            if kind == "sorting":
                reqs.append({"op": "c06.sorting", "prob": case["prob"]})
                reqs.append({"op": "c06.spec_optimum", "prob": case["prob"], "decn": obs["decn"][0] if obs["decn"] else [],
                             "obj": obs["obj"][0][0] if obs["obj"] and obs["obj"][0] else 0})
            elif kind == "hillclimb":
                reqs.append({"op": "c06.hillclimb", "prob": case["prob"], "init": obs["init"]})
                reqs.append({"op": "c06.spec_localopt", "prob": case["prob"], "decn": obs["decn"][0] if obs["decn"] else []})
            else:
                reqs.append({"op": "c06.hillclimb", "prob": case["prob"], "init": obs["init"] or []})
                reqs.append({"op": "c06.spec_localopt", "prob": case["prob"], "decn": obs["decn"][0] if obs["decn"] else []})
                reqs.append({"op": "c06.sorting", "prob": case["prob"]})
            # the Lean table model of the problem, evaluated at the returned decision
            reqs.append({"op": "c06.eval", "prob": case["prob"], "xs": obs["decn"][:1]})
            return reqs
        if kind == "ga":
            reqs = []
            if obs.get("raised") is None and self._wellformed(obs):
                single = (case["algo"] in SUBSET_SINGLE) or (case["algo"] in VECTOR and VECTOR[case["algo"]][1] == 1)
                reqs.append(self._spec_req(case, obs, obs["vkind"], single))
                if obs.get("res") and _finite(obs["res"]):
                    reqs.append(dict(obs["res"], op="c06.assemble", _t="assemble"))
            calls = obs["calls"]
            for c in calls["sampling"]:
                pos = [c["space"].index(v) if v in c["space"] else len(c["space"]) for v in c["row"]]
                reqs.append({"op": "c06.sample", "space": c["space"], "idx": pos, "_t": "sampling"})
            for c in calls["crossover"]:
                if c["mex"] is not None:
                    reqs.append({"op": "c06.crossover", "a": c["a"], "b": c["b"], "mex": c["mex"], "_t": "crossover"})
            for c in calls["mutation"]:
                reqs.append({"op": "c06.mutation", "space": c["space"], "x": c["x"], "mask": c["mask"], "choice": c["choice"], "_t": "mutation"})
            for c in calls["neighbors"]:
                if c["locus"] is not None:
                    reqs.append({"op": "c06.neighbors", "space": c["space"], "x": c["x"], "locus": c["locus"], "_t": "neighbors"})
            for c in calls["mutator"]:
                reqs.append({"op": "c06.mutator_rows", "space": c["space"], "x": c["x"], "lociix": c["lociix"] or [],
                             "alleleix": c["alleleix"] or [], "_t": "mutator"})
            for c in calls["stochastic"]:
                reqs.append({"op": "c06.spec_population", "space": c["space"], "k": len(c["x"]), "rows": [c["out"]], "_t": "stochastic"})
            return reqs
        if kind == "history":
            reqs = []
            vkind = case.get("vkind", "subset")
            for o in obs["steps"] + [e for e in obs["end"] if e is not None]:
                if o.get("op", "min") != "min" or o.get("raised") is not None or "decn" not in o or not self._wellformed(o):
                    continue
                p = o["state"]
                multi = (o["algo"] in SUBSET_MULTI) or (o["algo"] in VECTOR and VECTOR[o["algo"]][1] > 1)
                reqs.append(dict(self._spec_req(case, o, vkind, not multi, p), _t="spec"))
                if "at" in o or vkind != "subset":
                    continue
                if o["algo"] in ("hillclimb", "sorting_hillclimb") and o["decn"]:
                    reqs.append({"op": "c06.spec_localopt", "prob": p, "decn": o["decn"][0], "_t": "localopt"})
                if o["algo"] == "sorting" and o["decn"] and not (p.get("quad") or p.get("posw")):
                    reqs.append({"op": "c06.spec_optimum", "prob": p, "decn": o["decn"][0],
                                 "obj": o["obj"][0][0] if o["obj"] and o["obj"][0] else 0, "_t": "optimum"})
            return reqs
        if kind == "old_hillclimb":
            p = case["prob"]
            neg = dict(p, obj_wt=canon.enc([-canon.dec(v) for v in p["obj_wt"]]))
            neg = {a: b for a, b in neg.items() if a not in ("ineq", "ineq_wt", "eq", "eq_wt")}
            flat = {a: b for a, b in p.items() if a not in ("ineq", "ineq_wt", "eq", "eq_wt")}
            return [{"op": "c06.steepest_ascent", "prob": flat, "init": obs["init"]},
                    {"op": "c06.spec_localopt", "prob": neg, "decn": obs["decn"]},
                    {"op": "c06.spec_population", "space": p["space"], "k": p["k"], "rows": [obs["decn"]]}]
        if kind == "op_crossover":
            return [{"op": "c06.crossover", "a": case["a"], "b": case["b"], "mex": case["mex"]},
                    {"op": "c06.spec_population", "space": sorted(set(case["a"]) | set(case["b"])), "k": len(case["a"]),
                     "rows": [obs["c1"], obs["c2"]]}]
        if kind == "op_mutation":
            return [{"op": "c06.mutation", "space": case["space"], "x": case["x"], "mask": [], "choice": case["choice"]},
                    {"op": "c06.spec_population", "space": case["space"], "k": len(case["x"]), "rows": [obs["out"]]}]
        if kind == "op_sampling":
            return [{"op": "c06.sample", "space": case["space"], "idx": [case["space"].index(v) for v in r]} for r in case["rows"]] + \
                   [{"op": "c06.spec_population", "space": case["space"], "k": case["k"], "rows": obs["rows"]}]
        if kind == "op_neighbors":
            return [{"op": "c06.neighbors", "space": case["space"], "x": case["x"], "locus": case["locus"]},
                    {"op": "c06.spec_population", "space": case["space"], "k": len(case["x"]), "rows": obs["evaluated"] + obs["front"]}]
        if kind == "op_round":
            flat = [v for mm in case["stub"] for r in (mm if case["which"] == "sbx" else [mm]) for v in r]
            return [{"op": "c06.round", "xs": flat}]
        raise ValueError(kind)

    # ------------------------------------------------------------------ judge
    def _judge(self, case, obs, answers):
        kind = case["kind"]
        errs = [a["err"] for a in answers if "err" in a]
        if errs:
            # the model rejected what the implementation did (e.g. exchange positions outside range(clen)):
            # a correspondence failure, never a verdict on the property by itself
            return {"corr": False, "spec": True, "nontrivial": True, "fail": None,
                    "detail": f"{kind}: model rejected the recorded call: {errs[:2]} | impl={str(obs)[:600]}"}
        ans = [a["ok"] for a in answers]
        if kind in ("sorting", "hillclimb", "sorting_hillclimb"):
            return self._judge_direct(case, obs, ans)
        if kind == "ga":
            return self._judge_ga(case, obs, ans)
        if kind == "history":
            return self._judge_history(case, obs, ans)
        if kind == "old_hillclimb":
            mdl, lo, pop = ans
            wt = [canon.dec(v) for v in case["prob"]["obj_wt"]]
            truthful = canon.close_enc(obs["score"], obs["fresh"], 1e-9, 0)
            fail = None if pop["ok"] else "infeasible"
            fail = fail or (None if truthful else "untruthful") or (None if lo["ok"] else "not_locally_optimal") \
                or (None if obs["space_untouched"] else "problem_modified")
            spec = fail is None and obs["dtype_int"]
            weval = sum(w * canon.dec(v) for w, v in zip(wt, obs["score"]))
            corr = (mdl["decn"] == obs["decn"] and bool(mdl["stopped"]) and canon.close(weval, canon.dec(obs["weval"])))
            return {"corr": bool(corr), "spec": bool(spec), "fail": fail,
                    "nontrivial": len(case["prob"]["space"]) > case["prob"]["k"] and obs["decn"] != obs["init"],
                    "detail": f"old_hillclimb: impl={obs} | model decn={mdl['decn']} localopt={lo} feasible={pop}"}
        if kind == "op_crossover":
            mdl, pop = ans
            corr = (mdl["c1"] == obs["c1"] and mdl["c2"] == obs["c2"] and obs["draws_left"] == 0)
            spec = bool(pop["ok"]) and obs["input_untouched"]
            return {"corr": corr, "spec": spec, "nontrivial": obs["c1"] != case["a"],
                    "detail": f"crossover model={mdl} impl={obs} feasible={pop}"}
        if kind == "op_mutation":
            mdl, pop = ans
            return {"corr": mdl == obs["out"], "spec": bool(pop["ok"]) and obs["input_untouched"],
                    "nontrivial": len(case["x"]) < len(case["space"]),
                    "detail": f"mutation model={mdl} impl={obs} feasible={pop}"}
        if kind == "op_sampling":
            mdl, pop = ans[:-1], ans[-1]
            corr = mdl == obs["rows"] and all(r is False for r in obs["replace_asked"])
            return {"corr": corr, "spec": bool(pop["ok"]) and obs["dtype_int"], "nontrivial": case["k"] >= 2,
                    "detail": f"sampling model={mdl} impl={obs} feasible={pop}"}
        if kind == "op_neighbors":
            mdl, pop = ans
            corr = (mdl == obs["evaluated"] and all(r in mdl for r in obs["front"]) and obs["x_after"] == case["x"])
            return {"corr": corr, "spec": bool(pop["ok"]), "nontrivial": len(mdl) >= 2,
                    "detail": f"neighbors model={mdl} impl={obs} feasible={pop}"}
        if kind == "op_round":
            mdl = ans[0]
            lo, hi = case["lower"], case["upper"]
            nv = len(lo)
            inb = all(lo[i % nv] <= v <= hi[i % nv] for i, v in enumerate(obs["out"]))
            return {"corr": mdl == obs["out"], "spec": inb and obs["dtype_int"], "nontrivial": True,
                    "detail": f"round[{case['which']}] model={mdl} impl={obs}"}
        raise ValueError(kind)

    def _judge_direct(self, case, obs, ans):
        kind = case["kind"]
        p = case["prob"]
        n, k = len(p["space"]), p["k"]
        if not ans:
            return {"corr": False, "spec": False, "nontrivial": True, "fail": "malformed",
                    "detail": f"{kind}: returned Solution is not a finite 2-D record: {str(obs)[:300]}"}
        s, mdl, s2 = ans[:3]
        fail = None
        spec = bool(s["ok"]) and obs["problem_untouched"] and bool(s2["ok"])
        if not s["feasible"]:
            fail = "infeasible"
        elif not s["truthful"]:
            fail = "untruthful"
        elif not s["shapes"]:
            fail = "shapes"
        elif not obs["problem_untouched"]:
            fail = "problem_modified"
        elif not s2["ok"]:
            fail = "not_optimal" if kind == "sorting" else "not_locally_optimal"
        ev = ans[-1][0] if ans[-1] else None     # Lean evalfn at the implementation's decision
        vals_ok = (ev is not None and canon.close_enc(ev["obj"], obs["obj"][0])
                   and canon.close_enc(ev["ineqcv"], obs["ineqcv"][0])
                   and canon.close_enc(ev["eqcv"], obs["eqcv"][0])) if obs["nsoln"] == 1 and obs["obj"] else False
        if kind != "sorting":
            vals_ok = vals_ok and (canon.close_enc(mdl["obj"], obs["obj"][0]) and canon.close_enc(mdl["ineqcv"], obs["ineqcv"][0])
                                   and canon.close_enc(mdl["eqcv"], obs["eqcv"][0]))
        else:
            vals_ok = vals_ok and canon.close_enc(mdl["obj"], obs["obj"][0])
        def same_keys(srt, got):
            # numpy's default argsort (introsort / SIMD sort) breaks ties arbitrarily: the chosen members
            # must carry, position by position, the keys of the model's stable sort
            kk = dict(zip(p["space"], [canon.dec(v) for v in srt["keys"]]))
            return got is not None and [kk.get(e) for e in got] == [kk[e] for e in srt["decn"]]
        if kind == "sorting":
            corr = same_keys(mdl, obs["decn"][0]) and vals_ok
        else:
            corr = (mdl["decn"] == obs["decn"][0]) and vals_ok and bool(mdl["stopped"])
            if kind == "hillclimb" and case["gen"] == "scripted":
                corr = corr and obs["choice_calls"] == [{"size": k, "replace": False}]
            if kind == "sorting_hillclimb":
                corr = corr and same_keys(ans[3], obs["init"]) and obs["singletons"] == [[e] for e in p["space"]]
        nontriv = n > k and obs["decn"] and sorted(obs["decn"][0]) != sorted(p["space"][:k])
        return {"corr": bool(corr), "spec": bool(spec), "nontrivial": bool(nontriv), "fail": fail,
                "detail": f"{kind}: fail={fail} impl decn={obs['decn']}{(' returned values=' + str(obs.get('decn_raw')) + ' candidate labels=' + str(p.get('labels'))) if p.get('labels') else ''} obj={obs['obj']} G={obs['ineqcv']} H={obs['eqcv']} "
                          f"init={obs.get('init')} | spec={s} extra={s2} | model={ {a: mdl[a] for a in ('decn', 'obj', 'ineqcv', 'eqcv')} }"}

    def _judge_ga(self, case, obs, ans):
        algo = case["algo"]
        i = 0
        s = None
        fail = None
        if obs["raised"] is not None:
            if obs["res_none"]:
                # pymoo found no feasible individual: nothing is returned, the property is vacuous here
                spec, fail = True, None
            else:
                spec, fail = False, "raised:" + obs["raised"]["type"]
        elif not self._wellformed(obs):
            spec, fail = False, "malformed"
        else:
            s = ans[0]
            i = 1
            spec = bool(s["ok"]) and obs["problem_untouched"]
            if not s["feasible"]:
                fail = "infeasible"
            elif not s["truthful"]:
                fail = "untruthful"
            elif not s["nondominated"]:
                fail = "dominated"
            elif not s["shapes"]:
                fail = "shapes"
            elif not obs["problem_untouched"]:
                fail = "problem_modified"
        # correspondence of the recorded operator calls
        calls = obs["calls"]
        bad = [("recorder", e, None) for e in obs.get("recorder_errors", [])]
        if s is not None and obs.get("res") and _finite(obs["res"]):
            # Solution assembly: the model applied to pymoo's result arrays gives the arrays of the Solution
            a = ans[i]
            i += 1
            for f in ("decn", "obj", "ineqcv", "eqcv"):
                if canon.dec(a[f]) != canon.dec(obs[f]):
                    bad.append(("assemble:" + f, str(obs[f])[:200], str(a[f])[:200]))
        changed = False
        for c in calls["sampling"]:
            if ans[i] != c["row"] or c["replace"]:
                bad.append(("sampling", c, ans[i]))
            i += 1
        for c in calls["crossover"]:
            if c["mex"] is None:
                bad.append(("crossover-draws", c, None))
                continue
            a = ans[i]
            i += 1
            if a["c1"] != c["c1"] or a["c2"] != c["c2"]:
                bad.append(("crossover", c, a))
            changed = changed or c["c1"] != c["a"]
        for c in calls["mutation"]:
            if ans[i] != c["out"]:
                bad.append(("mutation", c, ans[i]))
            i += 1
        for c in calls["neighbors"]:
            if c["locus"] is None:
                continue
            if not all(r in ans[i] for r in c["rows"]):
                bad.append(("neighbors", c, ans[i]))
            i += 1
        for c in calls["mutator"]:
            if c["out"] not in ans[i]:
                bad.append(("mutator", c, ans[i]))
            i += 1
        for c in calls["stochastic"]:
            if not ans[i]["ok"]:
                bad.append(("stochastic", c, ans[i]))
            i += 1
        p = case["prob"]
        nontriv = obs.get("nsoln", 0) >= 1 and (algo in VECTOR or len(p["space"]) > p["k"]) and \
            (algo in VECTOR or changed or obs.get("nsoln", 0) > 1 or sorted(obs["decn"][0]) != sorted(p["space"][:p["k"]]))
        return {"corr": not bad, "spec": bool(spec), "nontrivial": bool(nontriv), "fail": fail,
                "detail": f"ga[{algo}] fail={fail} problem_untouched={obs['problem_untouched']} raised={obs['raised']} res_none={obs['res_none']} spec={s} "
                          f"decn={str(obs.get('decn'))[:300]}{(' returned values=' + str(obs.get('decn_raw'))[:300] + ' candidate labels=' + str(p.get('labels'))) if (algo not in VECTOR and p.get('labels')) else ''} "
                          f"obj={str(obs.get('obj'))[:200]} operator_mismatch={str(bad[:1])[:500]}"}

    def _judge_history(self, case, obs, ans):
        """Spec on every Solution at the moment it is returned and again at the end of the history"""
        i = 0
        fail = None
        where = None
        nsol = 0
        details = []
        vkind = case.get("vkind", "subset")
        for o in obs["steps"] + [e for e in obs["end"] if e is not None]:
            if o.get("op", "min") == "poke":
                if not o["problem_untouched"]:
                    fail, where = fail or "problem_modified", where or "poke"
                continue
            if o.get("op", "min") != "min":
                continue
            tag = f"{o.get('algo', 'end')}@{o.get('at', '')}"
            if o.get("raised") is not None:
                if not o.get("res_none"):
                    fail, where = fail or ("raised:" + o["raised"]["type"]), where or tag
                continue
            if "decn" not in o or not self._wellformed(o):
                fail, where = fail or "malformed", where or tag
                continue
            sp = ans[i]
            i += 1
            nsol += 1
            f = None
            if not sp["feasible"]:
                f = "infeasible"
            elif not sp["truthful"]:
                f = "untruthful" if "at" not in o else "untruthful_later"
            elif not sp["nondominated"]:
                f = "dominated"
            elif not sp["shapes"]:
                f = "shapes"
            elif "at" not in o and not o["problem_untouched"]:
                f = "problem_modified"
            p = o["state"]
            if "at" not in o and vkind == "subset":
                if o["algo"] in ("hillclimb", "sorting_hillclimb") and o["decn"]:
                    lo = ans[i]
                    i += 1
                    if f is None and not lo["ok"]:
                        f = "not_locally_optimal"
                if o["algo"] == "sorting" and o["decn"] and not (p.get("quad") or p.get("posw")):
                    op = ans[i]
                    i += 1
                    if f is None and not op["ok"]:
                        f = "not_optimal"
            if f is not None and fail is None:
                fail, where = f, tag
                details.append(str(o)[:400])
        return {"corr": fail is None, "spec": fail is None, "fail": fail, "nontrivial": nsol >= 2,
                "detail": f"history: fail={fail} at {where} steps={[st.get('algo', st['op']) for st in case['steps']]} {details[:1]}"}

    # ------------------------------------------------------------------ findings / shrinking
    def signature(self, case, obs, verdict):
        sig = {"kind": case["kind"], "fail": verdict.get("fail")}
        if case["kind"] == "ga":
            sig["algo"] = case["algo"]
            if case["algo"] not in VECTOR:
                sig["n_eq_k"] = len(case["prob"]["space"]) == case["prob"]["k"]
        return sig

    def shrink(self, case):
        if case["kind"] == "history":
            # only steps are dropped (the indices of `set_space` refer to the table in force at that step): shorter
            # prefixes first, then single steps that leave every later step valid
            st = case["steps"]
            for n_ in range(1, len(st)):
                if st[n_ - 1]["op"] == "min":
                    yield dict(case, steps=st[:n_])
            for i in range(len(st)):
                if st[i]["op"] in ("min", "poke", "set_wt", "set_cwt") and sum(1 for x in st if x["op"] == "min") > (1 if st[i]["op"] == "min" else 0):
                    yield dict(case, steps=st[:i] + st[i + 1:])
            return
        if "prob" in case and "space" in case["prob"]:
            p = case["prob"]
            n = len(p["space"])
            keep_init = set(case.get("init", [])) | set(case.get("dup", []))
            for i in range(n):
                if n - 1 >= p["k"] and p["space"][i] not in keep_init:
                    q = dict(p)
                    q["space"] = p["space"][:i] + p["space"][i + 1:]
                    q["lin"] = p["lin"][:i] + p["lin"][i + 1:]
                    if p.get("labels"):
                        q["labels"] = p["labels"][:i] + p["labels"][i + 1:]
                    if p.get("quad"):
                        q["quad"] = [r[:i] + r[i + 1:] for j, r in enumerate(p["quad"]) if j != i]
                    for key, f in (("ineq", "cost"), ("eq", "vec")):
                        if p.get(key):
                            q[key] = [dict(c, **{f: c[f][:i] + c[f][i + 1:]}) for c in p[key]]
                    yield dict(case, prob=q)
            for key in ("quad", "posw", "ineq", "eq", "labels"):
                if p.get(key):
                    q = {a: b for a, b in p.items() if a not in (key, key + "_wt")}
                    yield dict(case, prob=q)
        if case["kind"] == "ga":
            if case["ngen"] > 1:
                yield dict(case, ngen=case["ngen"] - 1)
            if case["pop_size"] > 2:
                yield dict(case, pop_size=case["pop_size"] - 1)

    # ------------------------------------------------------------------ self-test mutants
    def mutants(self):
        def flagged(ctx, scope):
            @contextlib.contextmanager
            def run():
                C06.MUTANT_ACTIVE = True
                C06.MUTANT_SCOPE = scope
                C06.TIMEOUTS = 0
                try:
                    with ctx():
                        yield
                finally:
                    C06.MUTANT_ACTIVE = False
                    C06.MUTANT_SCOPE = None
            return run

        def scope_of(name):
            direct = {"sorting_hillclimb": ("sorting_hillclimb", "history"), "sorting": ("sorting", "history"),
                      "hillclimb": ("hillclimb", "history"), "old_hillclimb": ("old_hillclimb",)}
            for pre in ("sorting_hillclimb", "old_hillclimb", "sorting", "hillclimb"):
                if name.startswith(pre + "_"):
                    tags = direct[pre]
                    return lambda tag: tag in tags
            if name.startswith("integer_"):
                return lambda tag: tag == "op_round" or "Integer" in tag
            if name.startswith("nsga2real_"):
                return lambda tag: "NSGA2Real" in tag
            if name.startswith("history_"):
                return lambda tag: tag == "history"
            if name.startswith("subset_ga_"):
                return lambda tag: tag in ("ga:SubsetGeneticAlgorithm", "history")
            # operators of pymoo_addon, Problem._evaluate, Solution assembly: every evolutionary run, the
            # operator-level cases and the histories
            return lambda tag: tag.startswith("ga:") or tag.startswith("op_") or tag == "history"
        return [(name, flagged(ctx, scope_of(name))) for name, ctx in _mutants()]


def _mutants():
    m = _mods()
    addon = m["addon"]
    alg = m["algmods"]

    def recompile(fn, old, new):
        """mutant of a function of /repo obtained by editing its source text in memory (never the file);
        the new function shares the module globals of the original"""
        import inspect
        src = inspect.getsource(fn).replace("\r\n", "\n")
        assert src.count(old) >= 1, (fn.__qualname__, old)
        src = "if True:\n" + src.replace(old, new)
        ns = {}
        exec(compile(src, f"<mutant {fn.__qualname__}>", "exec"), fn.__globals__, ns)
        return ns[fn.__name__]

    def method_mutant(cls, name, old, new):
        new_fn = recompile(getattr(cls, name), old, new)
        return lambda: _patched(cls, name, new_fn)

    Sort = alg["SortingSubsetOptimizationAlgorithm"].SortingSubsetOptimizationAlgorithm
    SD = alg["SteepestDescentSubsetHillClimber"].SteepestDescentSubsetHillClimber
    SSD = alg["SortingSteepestDescentSubsetHillClimber"].SortingSteepestDescentSubsetHillClimber

    def res_mutant(edit):
        """mutant of the Solution assembly of every pymoo-driven optimiser: the pymoo result object is
        altered before the algorithm class reads res.X / res.F / res.G / res.H"""
        @contextlib.contextmanager
        def ctx():
            with contextlib.ExitStack() as st:
                for mod in set(alg.values()):
                    if hasattr(mod, "minimize"):
                        real = mod.minimize

                        def w(*a, _real=real, **k):
                            res = _real(*a, **k)
                            if res.X is not None:
                                edit(res)
                            return res
                        st.enter_context(_patched(mod, "minimize", w))
                yield
        return ctx

    def other_F(res):
        F = numpy.array(res.F, dtype=float, copy=True)
        if F.ndim == 1:
            res.F = F + 1.0
        else:
            res.F = numpy.roll(F, 1, axis=0) if len(F) > 1 and not numpy.allclose(F, numpy.roll(F, 1, axis=0)) else F + 1.0

    def add_dominated(res):
        # append a truthfully evaluated member of the final population that another returned member dominates
        X = numpy.asarray(res.X)
        if X.ndim != 2 or res.pop is None:
            return
        F = numpy.asarray(res.F, dtype=float)
        for ind in res.pop:
            f = numpy.asarray(ind.F, dtype=float)
            feas = (ind.G is None or numpy.all(numpy.asarray(ind.G) <= 0)) and (ind.H is None or numpy.all(numpy.asarray(ind.H) == 0))
            if feas and any(numpy.all(g <= f) and numpy.any(g < f) for g in F):
                res.X = numpy.concatenate([X, numpy.asarray(ind.X)[None, :]])
                res.F = numpy.concatenate([F, f[None, :]])
                if res.G is not None:
                    res.G = numpy.concatenate([res.G, numpy.asarray(ind.G).reshape(1, -1)])
                if res.H is not None:
                    res.H = numpy.concatenate([res.H, numpy.asarray(ind.H).reshape(1, -1)])
                return

    def out_of_bounds(res):
        X = numpy.array(res.X, copy=True)
        if X.dtype == bool:
            return
        flat = X.reshape(-1)
        flat[0] = flat[0] + (1000 if numpy.issubdtype(X.dtype, numpy.integer) else 1000.5)
        res.X = X

    def samp_replace():
        @contextlib.contextmanager
        def ctx():
            old = addon.SubsetRandomSampling.__init__

            def init(self, setspace, replace=False):
                old(self, setspace, True)
            with _patched(addon.SubsetRandomSampling, "__init__", init):
                yield
        return ctx

    def cross_mutant():
        # exchange over all positions instead of the members unique to each parent
        return method_mutant(addon.ReducedExchangeCrossover, "_do",
                             "mab = ~np.isin(Xp[0,i,:],Xp[1,i,:])", "mab = np.ones(n_var, dtype=bool)")

    def mut_mutant():
        # mutate every member of the individual with alleles drawn from the whole set space
        return method_mutant(addon.ReducedExchangeMutation, "_do", "bp = self.setspace[mba]",
                             "bp = self.setspace; mab[:] = True; ap = Xm[i,mab]; pp = np.repeat(1.0, n_var)")

    def mut_repaired_with_replacement():
        # (a) the mutation really mutates members of the individual, but the replacement alleles are drawn with
        #     replacement whenever more loci mutate than alternative alleles exist
        import inspect
        src = inspect.getsource(addon.ReducedExchangeMutation._do).replace("\r\n", "\n")
        assert "ap[mex] = np.random.choice(bp, nex)" in src
        src = src.replace("mab = ~np.isin(Xm[i,:],self.setspace)", "mab = np.isin(Xm[i,:],self.setspace)")
        src = src.replace("ap[mex] = np.random.choice(bp, nex)", "ap[mex] = np.random.choice(bp, nex, replace = nex > len(bp))")
        ns = {}
        exec(compile("if True:\n" + src, "<mutant ReducedExchangeMutation._do>", "exec"), addon.ReducedExchangeMutation._do.__globals__, ns)
        new_fn = ns["_do"]
        return lambda: _patched(addon.ReducedExchangeMutation, "_do", new_fn)

    def hc_neighbors_mutant():
        return method_mutant(addon.MultiObjectiveSteepestDescentHillClimberMutation, "hillclimb",
                             "wrkss = self.setspace[np.logical_not(np.in1d(self.setspace, x))]", "wrkss = self.setspace")

    def round_mutant(cls):
        @contextlib.contextmanager
        def ctx():
            parent = cls.__mro__[1]

            def _do(self, problem, X, **kwargs):
                out = parent._do(self, problem=problem, X=X, **kwargs)
                return numpy.ceil(out + 0.5).astype(X.dtype)
            with _patched(cls, "_do", _do):
                yield
        return ctx

    # ---- round 4: one mutant per new class of cases ------------------------------------------------------------
    import importlib
    from pybrops.opt.prob.Problem import Problem as PbProblem
    NSGA2Real = alg["NSGA2RealGeneticAlgorithm"].NSGA2RealGeneticAlgorithm
    SubsetGA = alg["SubsetGeneticAlgorithm"].SubsetGeneticAlgorithm
    OldHC = importlib.import_module("pybrops.opt.algo.UnconstrainedSteepestAscentSetHillClimber").UnconstrainedSteepestAscentSetHillClimber

    def roll_G(res):
        # constraint rows of another member (multi-objective) / satisfied constraints reported as 0 (single)
        if res.G is None:
            return
        G = numpy.array(res.G, dtype=float, copy=True)
        res.G = numpy.roll(G, 1, axis=0) if G.ndim == 2 and len(G) > 1 else numpy.maximum(G, 0.0)

    def h_from_g(res):
        if res.G is not None and res.H is not None and numpy.shape(res.G) == numpy.shape(res.H):
            res.H = numpy.array(res.G, copy=True)

    def round_F(res):
        res.F = numpy.round(numpy.array(res.F, dtype=float), 8)

    def memo_mutant(cls, attr="minimize"):
        """the optimiser memoises its result per problem object: a second call after the user changed the
        problem's weights returns the stale Solution"""
        @contextlib.contextmanager
        def ctx():
            real = getattr(cls, attr)
            memo = {}

            def w(self, prob, *a, **k):
                if id(prob) not in memo:
                    memo[id(prob)] = (prob, real(self, prob, *a, **k))
                return memo[id(prob)][1]
            with _patched(cls, attr, w):
                yield
        return ctx

    def buffer_mutant():
        # the climber keeps one work buffer per object and hands a VIEW of it to the Solution: the next
        # call overwrites the decision of the Solution returned before
        src_old1 = "gbest_soln = self.rng.choice(prob.decn_space, prob.ndecn, replace = False)"
        src_new1 = ("_new = self.rng.choice(prob.decn_space, prob.ndecn, replace = False); "
                    "gbest_soln = getattr(self, '_buf', None); "
                    "gbest_soln = _new if (gbest_soln is None or len(gbest_soln) != len(_new)) else gbest_soln; "
                    "gbest_soln[:] = _new; self._buf = gbest_soln")
        fn = recompile(SD.minimize, src_old1, src_new1)
        import inspect
        src = inspect.getsource(SD.minimize).replace("\r\n", "\n").replace(src_old1, src_new1)
        assert "soln_decn = numpy.stack([gbest_soln])," in src
        src = src.replace("soln_decn = numpy.stack([gbest_soln]),", "soln_decn = gbest_soln[None,:],")
        ns = {}
        exec(compile("if True:\n" + src, "<mutant SD.minimize buffer>", "exec"), SD.minimize.__globals__, ns)
        new_fn = ns["minimize"]
        return lambda: _patched(SD, "minimize", new_fn)

    def set_cache_mutant():
        # evaluation cache keyed by the SET of members: wrong for order-dependent objectives
        import inspect
        src = inspect.getsource(SD.minimize).replace("\r\n", "\n")
        a = "prop_obj, prop_ineqcv, prop_eqcv = prob.evalfn(gbest_soln)"
        assert a in src and "        # hillclimber\n" in src
        src = src.replace(a, "prop_obj, prop_ineqcv, prop_eqcv = _ev(gbest_soln)")
        src = src.replace("        # hillclimber\n", "        _cache = {}\n        def _ev(x):\n            key = tuple(sorted(x.tolist()))\n"
                          "            if key not in _cache:\n                _cache[key] = prob.evalfn(x)\n            return _cache[key]\n", 1)
        ns = {}
        exec(compile("if True:\n" + src, "<mutant SD.minimize set cache>", "exec"), SD.minimize.__globals__, ns)
        new_fn = ns["minimize"]
        return lambda: _patched(SD, "minimize", new_fn)

    def derive_bounds_mutant():
        # fills optional bounds the caller left out (None) on the caller's problem object
        @contextlib.contextmanager
        def ctx():
            real = SubsetGA.minimize

            def w(self, prob, *a, **k):
                if prob.decn_space_lower is None:
                    prob.decn_space_lower = numpy.repeat(prob.decn_space.min(), prob.ndecn)
                if prob.decn_space_upper is None:
                    prob.decn_space_upper = numpy.repeat(prob.decn_space.max(), prob.ndecn)
                return real(self, prob, *a, **k)
            with _patched(SubsetGA, "minimize", w):
                yield
        return ctx

    def stale_xl_mutant():
        # RealProblem bound setters stop mirroring into the pymoo-facing xl / xu
        from pybrops.opt.prob.RealProblem import RealProblem
        @contextlib.contextmanager
        def ctx():
            with contextlib.ExitStack() as st:
                for name, priv in (("decn_space_lower", "_decn_space_lower"), ("decn_space_upper", "_decn_space_upper")):
                    old_prop = RealProblem.__dict__[name]

                    def fset(self, value, _p=priv):
                        setattr(self, _p, value)
                    st.enter_context(_patched(RealProblem, name, property(old_prop.fget, fset)))
                yield
        return ctx

    def ranking_cache_mutant():
        # the sorting optimiser keeps the candidate ranking per id(prob)
        import inspect
        src = inspect.getsource(Sort.minimize).replace("\r\n", "\n")
        a = "ix = obj.argsort(0)"
        assert a in src
        src = src.replace(a, "_rk = self.__dict__.setdefault('_ranking', {}); ix = _rk.setdefault(id(prob), obj.argsort(0))")
        ns = {}
        exec(compile("if True:\n" + src, "<mutant Sort.minimize ranking cache>", "exec"), Sort.minimize.__globals__, ns)
        new_fn = ns["minimize"]
        return lambda: _patched(Sort, "minimize", new_fn)

    def multi_mutant(cls, name, pairs):
        """several textual edits of one method (in memory)"""
        import inspect
        src = inspect.getsource(getattr(cls, name)).replace("\r\n", "\n")
        for a, b in pairs:
            assert src.count(a) >= 1, (cls.__name__, name, a)
            src = src.replace(a, b)
        ns = {}
        exec(compile("if True:\n" + src, f"<mutant {cls.__name__}.{name}>", "exec"), getattr(cls, name).__globals__, ns)
        new_fn = ns[name]
        return lambda: _patched(cls, name, new_fn)

    # undo the repair of D41: the climbers rank by the raw sum of the (signed) constraint values again
    RAW_CV = [("numpy.maximum(gbest_ineqcv, 0.0).sum() + numpy.abs(gbest_eqcv).sum()", "gbest_ineqcv.sum() + gbest_eqcv.sum()"),
              ("numpy.maximum(prop_ineqcv, 0.0).sum() + numpy.abs(prop_eqcv).sum()", "prop_ineqcv.sum() + prop_eqcv.sum()")]

    muts4 = [
        ("hillclimb_cv_raw_sum_of_signed_values", multi_mutant(SD, "minimize", RAW_CV)),
        ("sorting_hillclimb_cv_raw_sum_of_signed_values", multi_mutant(SSD, "minimize", RAW_CV)),
        ("hillclimb_cv_ignores_equality_sign", multi_mutant(SD, "minimize", [("numpy.abs(gbest_eqcv).sum()", "gbest_eqcv.sum()"),
                                                                             ("numpy.abs(prop_eqcv).sum()", "prop_eqcv.sum()")])),
        # undo the repair of D42: the vectorised branch multiplies the row by the args tuple
        ("problem_evaluate_vectorised_multiplies_args", method_mutant(PbProblem, "_evaluate", "self.evalfn(v, *args, **kwargs)", "self.evalfn(v *args, **kwargs)")),
        ("subset_ga_derives_missing_bounds_on_the_problem", derive_bounds_mutant()),
        ("history_real_problem_bound_setters_leave_xl_xu_stale", stale_xl_mutant()),
        ("sorting_caches_ranking_by_problem_id", ranking_cache_mutant()),
        ("hillclimb_caches_evaluation_per_member_set", set_cache_mutant()),
        # (1) histories / aliasing
        ("sorting_memoises_result_per_problem", memo_mutant(Sort)),
        ("hillclimb_memoises_result_per_problem", memo_mutant(SD)),
        ("subset_ga_memoises_result_per_problem", memo_mutant(SubsetGA)),
        ("hillclimb_solution_views_reused_buffer", buffer_mutant()),
        # (3) sizes past an internal constant: a cap on the number of exchanges
        ("hillclimb_at_most_ndecn_moves", method_mutant(SD, "minimize", "while True:", "for _move in range(prob.ndecn):")),
        ("sorting_hillclimb_at_most_n_half_moves", method_mutant(SSD, "minimize", "while True:", "for _move in range(len(prob.decn_space)//2):")),
        # (2) magnitudes against tolerance-style comparisons
        ("hillclimb_isclose_tie", method_mutant(SD, "minimize", "elif (prop_cv == best_cv) and (prop_score < best_score):",
                                                "elif (prop_cv == best_cv) and (prop_score < best_score) and not numpy.isclose(prop_score, best_score):")),
        ("sorting_hillclimb_isclose_tie", method_mutant(SSD, "minimize", "elif (prop_cv == best_cv) and (prop_score < best_score):",
                                                        "elif (prop_cv == best_cv) and (prop_score < best_score) and not numpy.isclose(prop_score, best_score):")),
        ("hillclimb_min_improvement_1e-9", method_mutant(SD, "minimize", "elif (prop_cv == best_cv) and (prop_score < best_score):",
                                                         "elif (prop_cv == best_cv) and (prop_score < best_score - 1e-9):")),
        ("sorting_keys_float32", method_mutant(Sort, "minimize", "ix = obj.argsort(0)", "ix = obj.astype(numpy.float32).argsort(0, kind='stable')")),
        ("sorting_keys_rounded_6", method_mutant(Sort, "minimize", "ix = obj.argsort(0)", "ix = obj.round(6).argsort(0, kind='stable')")),
        ("solution_obj_rounded_8", res_mutant(round_F)),
        # signed constraint functions through the pymoo-facing evaluation and the Solution assembly
        ("problem_evaluate_clips_G", method_mutant(PbProblem, "_evaluate", "vals = self.evalfn(x, *args, **kwargs)",
                                                   "vals = self.evalfn(x, *args, **kwargs); vals = (vals[0], numpy.maximum(vals[1], 0.0), vals[2])")),
        ("solution_reports_other_G", res_mutant(roll_G)),
        ("solution_eqcv_taken_from_G", res_mutant(h_from_g)),
        ("nsga2real_front_sorted_but_G_not", method_mutant(
            NSGA2Real, "minimize", "soln_decn = res.X\n            soln_obj = res.F\n",
            "_o = numpy.argsort(res.F[:,0], kind='stable')\n            soln_decn = res.X[_o]\n            soln_obj = res.F[_o]\n")),
        # (4) rarely used argument forms
        ("subset_ga_seed_draw_needs_generator", method_mutant(SubsetGA, "minimize", "int(self.rng.randint(0, 2**31-1)) if isinstance(self.rng, RandomState) else", "")),
        ("hillclimb_miscout_path_shifts_obj", method_mutant(SD, "minimize", 'miscout["gbest_cv"] = gbest_cv',
                                                              'miscout["gbest_cv"] = gbest_cv; out.soln_obj[:] = out.soln_obj + 1.0')),
        # (5) the older copy of the exchange climber
        ("old_hillclimb_isclose_tie", method_mutant(OldHC, "optimize", "if wscore > best_wscore:", "if wscore > best_wscore and not numpy.isclose(wscore, best_wscore):")),
        ("old_hillclimb_scan_skips_last_member", method_mutant(OldHC, "optimize", "for i in range(len(gbest_soln)):", "for i in range(len(gbest_soln)-1):")),
        ("old_hillclimb_reports_start_score", method_mutant(OldHC, "optimize", "gbest_score = best_score\n", "pass\n")),
    ]

    # ---- round 5 ------------------------------------------------------------------------------------------------
    # (a) incomplete neighbourhood after a few moves: members exchanged out are never proposed again
    RETIRE = [("        while True:\n", "        _retired = numpy.zeros(len(wrkss), dtype = bool)\n        while True:\n"),
              ("for j in range(len(wrkss)):", "for j in (_j for _j in range(len(wrkss)) if not _retired[_j]):"),
              ("            gbest_cv = best_cv\n", "            gbest_cv = best_cv\n            _retired[best_j] = True\n")]
    NSGA3 = alg["NSGA3SubsetGeneticAlgorithm"].NSGA3SubsetGeneticAlgorithm

    def cast_X(res):
        res.X = numpy.asarray(res.X).astype(int)

    def round_X(res):
        X = numpy.asarray(res.X)
        if numpy.issubdtype(X.dtype, numpy.floating):
            res.X = numpy.round(X, 6)

    muts5 = [
        ("sorting_hillclimb_retires_exchanged_out_members", multi_mutant(SSD, "minimize", RETIRE)),
        ("hillclimb_retires_exchanged_out_members", multi_mutant(SD, "minimize", RETIRE)),
        ("old_hillclimb_retires_exchanged_out_members", multi_mutant(OldHC, "optimize", [
            RETIRE[0], RETIRE[1], ("            gbest_wscore = best_wscore\n", "            gbest_wscore = best_wscore\n            _retired[best_j] = True\n")])),
        # (b) candidate labels treated as integers
        ("nsga3_solution_decn_cast_to_int", method_mutant(NSGA3, "minimize", "            soln_decn = res.X\n", "            soln_decn = res.X.astype(int)\n")),
        ("solution_decn_cast_to_int", res_mutant(cast_X)),
        ("solution_decn_rounded_6", res_mutant(round_X)),
        ("sorting_decision_cast_to_int", method_mutant(Sort, "minimize", "soln_decn = numpy.stack([gbest_soln]),", "soln_decn = numpy.stack([gbest_soln]).astype(int),")),
        ("hillclimb_start_cast_to_int", method_mutant(SD, "minimize", "gbest_soln = self.rng.choice(prob.decn_space, prob.ndecn, replace = False)",
                                                      "gbest_soln = self.rng.choice(prob.decn_space, prob.ndecn, replace = False).astype(int)")),
    ]

    muts = muts5 + muts4 + [
        ("sorting_ix_shifted", method_mutant(Sort, "minimize", "gbest_ix = ix[0:ndecn,0]", "gbest_ix = ix[1:ndecn+1,0] if len(ix) > ndecn else ix[0:ndecn,0]")),
        ("sorting_descending", method_mutant(Sort, "minimize", "ix = obj.argsort(0)", "ix = (-obj).argsort(0)")),
        ("sorting_reports_stale_obj", method_mutant(Sort, "minimize", "soln_obj = numpy.stack([gbest_obj]),", "soln_obj = numpy.stack([obj[gbest_ix[0]]]),")),
        ("sorting_modifies_problem", method_mutant(Sort, "minimize", "return out", "prob.decn_space_lower[:] = prob.decn_space_lower - 1; return out")),
        ("hillclimb_accept_le", method_mutant(SD, "minimize", "elif (prop_cv == best_cv) and (prop_score < best_score):", "elif (prop_cv == best_cv) and (prop_score <= best_score):")),
        ("hillclimb_ignores_cv", method_mutant(SD, "minimize", "if prop_cv < best_cv:", "if False:")),
        ("hillclimb_stops_after_first_move", method_mutant(SD, "minimize", "while True:", "for _once in range(1):")),
        ("hillclimb_replace_true", method_mutant(SD, "minimize", "replace = False", "replace = True")),
        ("hillclimb_reports_start_obj", method_mutant(SD, "minimize", "gbest_obj, gbest_ineqcv, gbest_eqcv = best_obj, best_ineqcv, best_eqcv", "gbest_ineqcv, gbest_eqcv = best_ineqcv, best_eqcv")),
        ("sorting_hillclimb_accept_le", method_mutant(SSD, "minimize", "elif (prop_cv == best_cv) and (prop_score < best_score):", "elif (prop_cv == best_cv) and (prop_score <= best_score):")),
        ("sorting_hillclimb_scan_skips_last_candidate", method_mutant(SSD, "minimize", "for j in range(len(wrkss)):", "for j in range(len(wrkss)-1):")),
        ("sorting_hillclimb_stops_at_first_feasible", method_mutant(SSD, "minimize", "while True:", "while gbest_cv > 0.0:")),
        ("sorting_partition_cutoff_in_candidate_order", method_mutant(
            Sort, "minimize", "gbest_ix = ix[0:ndecn,0]",
            "gbest_ix = numpy.flatnonzero(obj[:,0] <= numpy.partition(obj[:,0], ndecn-1)[ndecn-1])[0:ndecn]")),
        ("mutation_repaired_with_replacement_fallback", mut_repaired_with_replacement()),
        ("sampling_replace_true", samp_replace()),
        ("crossover_exchanges_all_positions", cross_mutant()),
        ("mutation_from_whole_space", mut_mutant()),
        ("memetic_neighbors_from_whole_space", hc_neighbors_mutant()),
        ("solution_reports_other_F", res_mutant(other_F)),
        ("solution_contains_dominated_member", res_mutant(add_dominated)),
        ("solution_out_of_bounds", res_mutant(out_of_bounds)),
        ("integer_sbx_ceil", round_mutant(addon.IntegerSimulatedBinaryCrossover)),
        ("integer_pm_ceil", round_mutant(addon.IntegerPolynomialMutation)),
    ]
    return muts


PROP = C06()
